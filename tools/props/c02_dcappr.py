"""C02 part: mpn_dc_divappr_q (divide-and-conquer approximate quotient, mpn/generic/dc_divappr_q.c) — value-level recursive model
lean/Mpir/Model/DcDivappr.lean tied to the real function by the op dc_divappr_q_model (harness/ops_dcdivappr.c): quotient limbs, the
three remainder limbs np[dn-2 .. dn] the call leaves, qh — compared verbatim.

FINDING (MpirProofs/Props/C02_dcappr.lean, findings/): the C of the pinned tree does NOT keep the contract "floor or floor+1": it returns
floor+2 for dn = 87, nn = 173 and a quotient too large by about B^86 one recursion level higher, which makes mpz_tdiv_q / mpn_tdiv_q wrong.
Theorems (kernel-checked on the executable model): dcDivappr_floor2_small / dcDivappr_floor2 / dcDivappr_far_off (model of the pinned C,
parameter rep = false) and dcDivappr_repaired_examples (model of the repaired C, rep = true; findings/dc_divappr_q_fix.diff).  The op
carries `rep` (read from the source under test: `while` at :105 and the sign test in the rare case) so that the model mirrors whichever
C is compiled.  PROVED for the repaired C (rep = 1, every size, every T >= 6, C >= 3): dc_divappr_q_contract (floor or floor+1, qh <= 1, every
callee inside its domain, the `while` at :116 runs at most once per call), dc_divappr_q_remainder / sb_divappr_q_remainder (the three limbs a
call leaves are its non-negative truncated remainder), dc_divappr_q_ok (limb vectors), dc_div_q_exact (mpn_dc_div_q without callee hypothesis).

Branches of dc_divappr_q.c and how the generator reaches them (recipes from the proof: the routine subtracts d_i*q_j only for
i + j >= n - 1, so divisors with all-ones low limbs make the neglected part largest):
  :49 cut of the divisor (qn + 1 < dn), no cut with qn == dn - 1, reduction loop :64 with mpn_sb_div_qr (sh <= T) and
      mpn_dc_div_qr (sh > T: dn > T and qn >= dn + T), one and several iterations;
  :78 "truncation ruins normalisation": N = B^n*D - k (the top n limbs of N equal those of D);
  :85 the same for the high half: quotient with an all-ones high half and a large remainder;
  :89/:92, :128/:131 leaf mpn_sb_divappr_q / recursion: n around 2C, 4C;
  :105 estimate of the high half one too large: N = Q*D - 1 with the low half of Q zero (decrement); with t trailing zero
      limbs in the high half of Q the borrow runs through t limbs and the fix-up loop :116 runs t times;
  :120/:124 the low half cannot be normalised: low half of Q all ones, remainder D - 1, neglected part large.
"""
import collections, random, sys, os, re
sys.path.insert(0, os.path.dirname(os.path.dirname(os.path.abspath(__file__))))
from genlib import *

LEAN_MODULES = ["MpirProofs.Props.C02_dcappr"]
THEOREMS = ["Mpir.DcDivappr." + t for t in """
dcDivappr_floor2_small dcDivappr_floor2 dcDivappr_far_off dcDivappr_repaired_examples
dc_divappr_q_contract dc_divappr_q_remainder sb_divappr_q_remainder dc_divappr_q_ok dc_divappr_q_oracle dc_div_q_exact
""".split()]
PINS = [("mpn/generic/dc_divappr_q.c", None), ("mpn/generic/sb_divappr_q.c", "__divappr_helper"), ("mpn/generic/sb_divappr_q.c", None),
        ("mpn/generic/dc_div_q.c", None)]
TRUSTED = ["hand-written value-level model lean/Mpir/Model/DcDivappr.lean of mpn_dc_divappr_q (limb areas as naturals with explicit "
           "limb counts; the footprint 'a call writes only np[dn-2 ..] of its window and leaves the truncated remainder in np[dn-2 .. dn]' "
           "is part of the model; tied by correspondence on every run: quotient, those three limbs and qh compared verbatim)",
           "callee contracts inside that model: mpn_sb_div_qr = exact quotient/remainder (proved for its limb-level model, part c02_sb), "
           "mpn_dc_div_qr = the model of part c02_dc (proved exact), mpn_mulmid = the middle product of mulmid.c:32-38"]
ASSUMPTIONS = ["sizes are mp_size_t: 2*dn + 2 <= 2^64 (hypothesis `hsize` of dc_divappr_q_contract, the same as in sb_divappr_q_contract: the neglected "
               "products of a call total less than n*B^n, which must stay below the divisor)",
               "DC_DIV_QR_THRESHOLD is the value in gmp-mparam.h of the tree under test (checked inside the C op); SB_DIVAPPR_Q_CUTOFF is read "
               "from mpn/generic/dc_divappr_q.c of the tree under test (the theorems hold for every T >= 6, C >= 3)"]
RULE = ("dc_divappr_q_model: dn in {6..9, 13, C-1..C+2, T+1, T+2, 2C-1..2C+2, 4C+1}, qn from 3 to 3*dn+1 on both sides of qn + 1 = dn; "
        "divisors B^n/2, B^n-1, B^n/2 + all-ones tail, 0x80..0 then ones, random; quotients with all-ones / zero halves and trailing "
        "zero limbs in the high half, dividends q*d + r with r in {0, d-1, random}, (q+1)*d - 1, B^n*d - k")

def P(k): return 1 << (64 * k)

def params(ctx):
    base = getattr(ctx, "build", None) or os.environ.get("VERIF_REPO", "/repo")
    t = int(re.search(r"#define\s+DC_DIV_QR_THRESHOLD\s+(\d+)", open(os.path.join(base, "gmp-mparam.h")).read()).group(1))
    src = open(os.path.join(base, "mpn/generic/dc_divappr_q.c")).read()
    c = int(re.search(r"#define\s+SB_DIVAPPR_Q_CUTOFF\s+(\d+)", src).group(1))
    # which C is this?  the repaired one has `while ((mp_limb_signed_t) cy < 0)` and the sign test after the helper in the rare case
    rep = 1 if re.search(r"while\s*\(\(mp_limb_signed_t\)\s*cy\s*<\s*0\)", src) and re.search(r"\(mp_limb_signed_t\)\s*np\[nn - qn\]\s*<\s*0", src) else 0
    return t, c, rep

def _divisors(rng, dn, quick):
    yield P(dn) // 2 + P(dn - 1) - 1 if dn > 1 else P(dn) // 2          # 0x80..0 then all ones: largest neglected part
    yield P(dn) - 1
    yield P(dn) // 2
    yield P(dn) // 2 + P(dn // 2) - 1
    yield rng.getrandbits(64 * dn) | P(dn) // 2
    if not quick:
        yield (1 << 63) * P(dn - 1) + rrandomb(rng, 64 * (dn - 1))
        yield P(dn) - P(dn // 2)                                            # ones then zeros

def _quots(rng, qn, dn):
    """quotient values built around the split the routine will use: n = min(qn, dn - 1) low limbs, sh = n // 2, sl = n - sh"""
    n = min(qn, dn - 1); sh = n // 2; sl = n - sh
    up = rng.getrandbits(64 * (qn - n)) if qn > n else 0
    def mk(h, l): return (up * P(sh) + h % P(sh)) * P(sl) + l % P(sl)
    rh, rl = rng.getrandbits(64 * sh), rng.getrandbits(64 * sl)
    out = [mk(P(sh) - 1, P(sl) - 1), mk(P(sh) - 1, rl), mk(P(sh) - 1, 0), mk(rh, P(sl) - 1), mk(rh, 0), mk(rh, rl), mk(0, 0), mk(1, 0),
           mk(0, P(sl) - 1), P(qn) - 1]
    for t in range(1, sh):                                                  # t trailing zero limbs in the high half
        if t <= 3 or t == sh - 1: out.append(mk((rh | 1) * P(t), 0))
    if sh >= 2: out.append(mk(P(sh - 1), 0))
    return out

def floor2_operands(n, Qh, nu=0):
    """The recipe of Props/C02_dcappr.lean (dcDivappr_floor2): window of 2n+1 limbs, divisor of n+1 limbs, on which the low-half
    sub-call takes the 'rare case' :78-81 with a remainder that carries the neglected products: quotient two too large."""
    sh = n // 2; sl = n - sh
    D = (P(sh + 1) - 1) + P(n + 1) // 2
    Qh %= P(sh)
    E = sum(((Qh >> (64 * j)) % B) * (D % P(sh - 1 - j)) * P(sl + j) for j in range(sh))
    return Qh * P(sl) * D + P(n + sl + 1) // 2 + nu - E, D

def gen_ops(rng, tier, ctx=None):
    quick = tier == "quick"
    T, C, REP = params(ctx)
    # the finding (known_findings.json: the model answers with `!modelspec`, the real function returns the same limbs):
    # n = 2C is the smallest size with a recursive low half; at n = 4C the defective call is the high half of the outer level
    for n in ([2 * C] if quick else [2 * C, 2 * C + 1, 2 * C + 5]):
        for Qh in [7, rng.getrandbits(64 * (n // 2))]:
            W, D = floor2_operands(n, Qh, rng.choice([0, rng.getrandbits(64 * n)]))
            yield "dc_divappr_q_model %x %x %x %s %s" % (T, C, REP, vec(limbs_of(W, 2 * n + 1)), vec(limbs_of(D, n + 1)))
            if Qh == 7 or not quick:
                m = 2 * n; D2 = D * P(n) + (P(n) - 1); W2 = W * P(2 * n)
                yield "dc_divappr_q_model %x %x %x %s %s" % (T, C, REP, vec(limbs_of(W2, 2 * m + 1)), vec(limbs_of(D2, m + 1)))
    def emit(nn, dn, N, D):
        if 0 <= N < P(nn) * 1 and P(dn) // 2 <= D < P(dn) and N < 2 * D * P(nn - dn):
            yield "dc_divappr_q_model %x %x %x %s %s" % (T, C, REP, vec(limbs_of(N, nn)), vec(limbs_of(D, dn)))
    dns = [6, 7, 8, 9, 13, C - 1, C, C + 1, C + 2, T + 1, T + 2, 2 * C - 1, 2 * C, 2 * C + 1, 2 * C + 2, 4 * C + 1]
    if not quick: dns += [3 * C, 4 * C - 1, 4 * C + 3, 8 * C + 2]
    for dn in sorted(set(d for d in dns if d >= 6)):
        big = dn > 13
        qns = [3, 4, 5, dn // 2, dn - 3, dn - 2, dn - 1, dn, dn + 1, dn + 2, dn + 3, 2 * dn - 2, 2 * dn - 1, 2 * dn, 2 * dn + 1, 3 * dn + 1, dn + T, dn + T + 1, 2 * dn + T]
        if quick and big: qns = [3, dn // 2, dn - 2, dn - 1, dn, dn + 3, 2 * dn - 1, 2 * dn + 1, dn + T + 1]
        if quick and dn > 2 * C + 2: qns = [dn - 2, dn - 1, dn + 2]
        if not quick and dn > 2 * C + 2: qns = [3, dn // 2, dn - 2, dn - 1, dn, dn + 2, 2 * dn + 1]
        for qn in sorted(set(q for q in qns if q >= 3)):
            nn = dn + qn
            for di, D in enumerate(_divisors(rng, dn, quick)):
                qs = _quots(rng, qn, dn)
                if quick: qs = [q for i, q in enumerate(qs) if (i + di + qn) % (8 if big else 3) == 0]
                elif dn > 2 * C + 2: qs = [q for i, q in enumerate(qs) if (i + di + qn) % 3 == 0]
                for Q in qs:
                    R = rng.choice([0, D - 1, rng.randrange(D)])
                    yield from emit(nn, dn, Q * D + R, D)
                    yield from emit(nn, dn, Q * D - 1, D)
                    if not quick: yield from emit(nn, dn, Q * D + D - 1, D)
                yield from emit(nn, dn, P(qn) * D - 1, D)
                if not quick or (di + qn) % 2:
                    yield from emit(nn, dn, P(qn) * D - rng.getrandbits(64), D)
                    yield from emit(nn, dn, P(qn) * D - P(qn - 1), D)
                yield from emit(nn, dn, P(qn) * D + rng.getrandbits(64 * qn), D)       # qh = 1
                yield from emit(nn, dn, rng.getrandbits(64 * nn), D)
            yield from emit(nn, dn, P(nn) - 1, P(dn) - 1)
            yield from emit(nn, dn, P(nn) - 1, P(dn) // 2)

if __name__ == "__main__":
    tier = sys.argv[1] if len(sys.argv) > 1 else "quick"
    import time
    t0 = time.time(); nch = 0; n = 0
    for l in gen_ops(random.Random(1), tier):
        n += 1; nch += len(l)
        if len(sys.argv) > 2: print(l)
    sys.stderr.write("ops: %d chars: %d %.1fs\n" % (n, nch, time.time() - t0))
