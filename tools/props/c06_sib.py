"""C06 part: mpz_sizeinbase / MPN_SIZEINBASE for bases that are not powers of two WITHOUT a size restriction that the
C's types do not have.  Theorems in MpirProofs/Props/C06_sib.lean (lemmas: Lemmas/RadixSib.lean — rigorous truncated
powers `powLo`/`powHi`, which let the kernel decide 2^v < b^u for exponents of 2^53..2^128).
Merged into tools/props/c06.py by check.py (lists concatenated, generators chained).

What is proved about the model `Mpir.Radix.sizeinbase` (r = answer, d = digit count, t = bit count of the operand):
  * d <= r            for every base and every t <= 2^53 + 20; false at t = 2^53 + 21 (base 30, x = 2^t - 1)  [exact]
  * r <= d + 1        for every base and every t <= 2 626 805 675 765 606 (2^51.22); false at
                      t = 2 626 805 754 981 986 (base 3, x = 2^(t-1): r = d + 2).  The 79 216 380 bit counts in
                      between are not covered by a theorem (a scan of the model with 192-bit fixed point finds no
                      failure there; only base 3 can fail below 4.9e15 bits).
  * hence for every integer an mpz_t can hold (int _mp_size: t < 2^37) both hold: sizeinbase_bound, get_str_fits_mpz.
Neither counterexample is an addressable operand (300 TiB / 1 PiB), so nothing can be run against the library there."""
import os, sys
sys.path.insert(0, os.path.dirname(os.path.dirname(os.path.abspath(__file__))))
from genlib import *
from props.c06_radix import is_pow2, log_convergents

LEAN_MODULES = ["MpirProofs.Props.C06_sib"]
THEOREMS = [
    "Mpir.Radix.sizeinbase_table_ok2",
    "Mpir.Radix.mpn_sizeinbase_bound",
    "Mpir.Radix.sizeinbase_bound_bits",
    "Mpir.Radix.sizeinbase_bound",
    "Mpir.Radix.sizeinbase_ge",
    "Mpir.Radix.sizeinbase_too_small_above",
    "Mpir.Radix.sizeinbase_two_too_large_above",
    "Mpir.Radix.get_str_fits",
    "Mpir.Radix.get_str_fits_mpz",
]
PINS = [("gmp-impl.h", "MPN_SIZEINBASE"), ("mpz/sizeinbase.c", None)]
TRUSTED = ["binary64 conversion size_t -> double and multiply as exact value + round-to-nearest-even (Mpir.Radix.rn53, mulTrunc), "
           "tied by mpz_sizeinbase / mpz_sizeinbase_pow / mpz_sizeinbase_shape lines compared with the model's answer"]
ASSUMPTIONS = ["an mpz_t holds at most 2^31 - 1 limbs (int _mp_size, mpir.h:246): MpzFits; at the mpn level the claims are "
               "proved up to the bit counts above, which exceed any x86-64 address space (2^47 / 2^56 bytes)"]

def shape(b0, n, d, base):
    return "mpz_sizeinbase_shape %s %s %s %s" % (hx(b0), hx(n), hx(d), hx(base))

def gen_ops(rng, tier, ctx):
    quick = tier == "quick"
    maxbits = (1 << 20) if quick else (1 << 21)      # the driver's digit count is quadratic: 2^25-bit operands took more than half an hour
    for base in range(2, 63):
        # 1. 2^t - 1, 2^t, 2^t + 1 at the bit counts t where t*log_b(2) is closest to an integer (denominators of
        #    the convergents) and at random t; powers of two bases: exactness at every residue of t mod log2(b)
        ts = set()
        if is_pow2(base):
            lb = base.bit_length() - 1
            for _ in range(2): ts |= set(rng.randrange(64, maxbits) // lb * lb + r for r in range(lb))
        else:
            for n, t in log_convergents(base, maxbits):
                if t >= 32: ts |= {t, t + 1}
            for _ in range(3 if quick else 8): ts.add(rng.randrange(64, maxbits))
        for t in sorted(ts):
            for d in (-1, 0, 1): yield shape(2, t, d, base)
        # 2. b^k - 1, b^k, b^k + 1 for random large k (the convergent numerators are in c06_radix.sizeinbase_critical)
        if not is_pow2(base):
            for _ in range(2 if quick else 5):
                k = rng.randrange(20, max(21, int(maxbits / (base.bit_length()))))
                for d in (-1, 0, 1): yield shape(base, k, d, base)
        # 3. a power of another base
        b0 = rng.choice([b for b in range(3, 63) if b != base])
        n = rng.randrange(10, max(11, maxbits // (4 * b0.bit_length())))
        for d in (-1, 0, 1): yield shape(b0, n, d, base)
    if not quick:
        # operands of up to ~10^7 digits: b^k +- 1 with k near 10^7 / 3*10^6, and 2^t +- 1 with t up to 2^25
        for base, k in ((10, 10 ** 6), (3, 10 ** 6), (62, 3 * 10 ** 5), (30, 5 * 10 ** 5), (7, 765432)):
            for d in (-1, 0, 1): yield shape(base, k, d, base)
        for base in (3, 10, 30, 47, 58):
            n, t = log_convergents(base, 1 << 22)[-1]
            for d in (-1, 0): yield shape(base, n, d, base)
            yield shape(2, t, 0, base); yield shape(2, t, -1, base)

def nontrivial(line):
    return line if line.startswith("mpz_sizeinbase_shape ") else None
