"""C09 part (integrator): mpn_mod_34lsub1 (the residue filter of mpn_perfect_square_p) on operands long enough for its carry
counters to exceed 16 bits: all-ones limbs carry out of every accumulator at every step, 3 * 65536 limbs overflow the middle one."""
from genlib import *
M = (1 << 64) - 1
def gen_ops(rng, tier, ctx=None):
    for pat, reps in [([M], 10), ([M, M, M], 1000), ([M, 0, M], 3000), ([M, M, M], 65535), ([M, M, M], 65537), ([M, M, M], 70000), ([M], 200000), ([rng.getrandbits(64) | 1 << 63, M, M], 66000)] + \
                     ([([M, M, M], 140000), ([M - 1, M, M], 400000)] if tier != "quick" else []):
        yield "mpn_mod_34lsub1_rep %s %x" % (vec(pat), reps)
