"""C08 part: mpn_binvert (mpn/generic/binvert.c) at the limb level — the 2-adic inverse of the odd modulus that
mpn_powm / mpn_redc_n rely on (formerly "run only").  Memory model lean/Mpir/Model/Binvert.lean: the precision
schedule sizes[], the base case through mpn_sb_bdiv_q (limb-wise Hensel loop) or mpn_dc_bdiv_q, the Newton steps
with the real mpn_mulmod_bnm1 wrap-around product, mpn_sub_1, mpn_mullow_n (2k limbs stored) and mpn_neg, every
access to rp[0..n) and to the scratch of mpn_binvert_itch (n) limbs bounds-checked.  Ops prefix `bi_`.
Theorems: Props/C08_binvert.lean (mpn_binvert_correct for every n, odd U and threshold; pinned next-size discharge; the
value equals Powm.binvert, i.e. the mip of mpn_powm's model)."""
from genlib import *

LEAN_MODULES = ["MpirProofs.Props.C08_binvert"]
THEOREMS = [
    "Mpir.Binvert.binvert_schedule_ok",
    "Mpir.Binvert.mpn_binvert_correct",
    "Mpir.Binvert.binvert_npows_ok",
    "Mpir.Binvert.mpn_binvert_correct_pinned",
    "Mpir.Binvert.mpn_binvert_value",
    "Mpir.Binvert.mipOf_eq_mpn_binvert",
    "Mpir.Binvert.dc_bdiv_qr_n_spec",
    "Mpir.Binvert.dc_bdiv_qr_n_unconditional",
    "Mpir.Binvert.dc_bdiv_q_spec_partial",
]
TRUSTED = ["hand-written model lean/Mpir/Model/Binvert.lean (schedule, base case, Newton step, last step, mpn_sb_bdiv_q loop for nn = dn); "
           "tied by the exact op bi_binvert (all n limbs, guard limbs around rp, up and the itch-sized scratch) and the predicate op bi_binvert_p"]
ASSUMPTIONS = ["callees by their own theorems/contracts: mpn_mulmod_bnm1 is the model Mm1.bnm1 (mpn_mulmod_bnm1_val, part c08_mm1; its scratch "
               "need is the mpn_mulmod_bnm1_itch it declares), mpn_mullow_n by its value (C01_mullow; the upper k of the 2k limbs it stores are "
               "arbitrary in the model), mpn_dc_bdiv_q (base sizes >= DC_BDIV_Q_THRESHOLD) by its contract Q = N/D mod B^nn, N destroyed, "
               "modlimb_invert (modlimb_invert_spec), mpn_submul_1 / mpn_sub_1 / mpn_neg_n kernel models (C03)"]
RULE = ("odd U of n limbs for n = 1..40, +-2 around DC_BDIV_Q_THRESHOLD, +-2 around BINV_NEWTON_THRESHOLD and around 2x, 3x, 4x of it "
        "(one, two, three Newton steps; odd and even halvings), sizes whose schedule passes 256/257 (mpn_mulmod_bnm1_next_size starts "
        "rounding: m > newrn, the mpn_sub_1 fix-up shorter than rn); operands: random, all ones (U = -1: the product U*R is 0 modulo "
        "B^m - 1 and must come back as B^m - 1, not 0), 1, B^n/2 + 1, 1 + B^k, -1 + B^k pieces, runs of ones/zeros, U = inverse of a sparse number")

PINS = [("mpn/generic/binvert.c", None), ("mpn/generic/sb_bdiv_q.c", "mpn_sb_bdiv_q"),
        ("mpn/generic/dc_bdiv_qr_n.c", "mpn_dc_bdiv_qr_n")]

def operands(rng, n, few=False):
    Bn = 1 << (64 * n)
    out = [rng.getrandbits(64 * n) | 1, Bn - 1, 1, (Bn >> 1) + 1]
    if few: return out[:2] + [rng.choice(out[2:])]
    k = rng.randrange(0, 64 * n)
    out += [(1 + (1 << k)) % Bn | 1, (Bn - 1) ^ ((1 << k) & ~1), val_runs(rng, n) | 1,
            pow(((1 << k) | (1 << (k // 2)) | 1), -1, Bn), (Bn - 1) // 3 if (Bn - 1) % 3 == 0 else 3, Bn - 3]
    return out

def val_runs(rng, n):
    v = 0
    for i, x in enumerate(rand_limbs(rng, n, "runs")): v |= x << (64 * i)
    return v

def qr_threshold(ctx, T):
    """DC_BDIV_QR_THRESHOLD of the tree under test: <build>/gmp-mparam.h, else gmp-impl.h: 3 * MUL_KARATSUBA_THRESHOLD"""
    import os, re
    root = getattr(ctx, "build", None) if ctx is not None else None
    if not root: root = os.environ.get("VERIF_REPO", "/repo")
    try: s = open(os.path.join(root, "gmp-mparam.h"), errors="replace").read()
    except OSError: s = ""
    m = re.search(r"^#\s*define\s+DC_BDIV_QR_THRESHOLD\s+(\d+)\b", s, re.M)
    return int(m.group(1)) if m else 3 * T.get("MUL_KARATSUBA_THRESHOLD", 32)

def gen_ops(rng, tier, ctx=None):
    import props.c08_powm as P
    T = P.thresholds(ctx)
    thr, dc = T["BINV_NEWTON_THRESHOLD"], T["DC_BDIV_Q_THRESHOLD"]
    thor = tier == "thorough"
    small = list(range(1, 41 if not thor else 80)) + P.around([dc], 1, 4000)
    big = set(P.around([thr], 1, 6000))
    for mult in (2, 3, 4) if not thor else (2, 3, 4, 5, 6, 8):
        big |= set(P.around([mult * thr], 1, 8000) if thor else [mult * thr - 1, mult * thr, mult * thr + 1])
    big |= {511, 512, 513, 514, 641} if thr >= 200 else set()
    if thor: big |= set(range(thr, thr + 40)) | {1023, 1024, 1025, 1500, 2049}
    for n in sorted(set(small)):
        for u in operands(rng, n):
            u %= 1 << (64 * n); u |= 1
            yield "bi_binvert %x %x %s" % (thr, dc, vec(limbs_of(u, n)))
        yield "bi_binvert_p %s" % vec(limbs_of(rng.getrandbits(64 * n) | 1, n))
    for n in sorted(big):
        for u in operands(rng, n, few=not thor and n > 2 * thr + 2):
            u %= 1 << (64 * n); u |= 1
            yield "bi_binvert %x %x %s" % (thr, dc, vec(limbs_of(u, n)))
        yield "bi_binvert_p %s" % vec(limbs_of(rng.getrandbits(64 * n) | 1, n))
    for n in list(range(1, 300)) + [rng.randrange(300, 1 << 20) for _ in range(100)]:
        yield "bi_itch %x" % n
    # mpn_dc_bdiv_q (the base case of mpn_binvert above DC_BDIV_Q_THRESHOLD, nn = dn; and nn > dn: the block loop)
    qr = qr_threshold(ctx, T)
    def special(n):
        Bn = 1 << (64 * n)
        return [rng.getrandbits(64 * n), Bn - 1, 1, 1 << (64 * n - 1), 1 << (64 * (n // 2)), val_runs(rng, n), 0]
    for dn in sorted(set([6, 7, 8, 11] + P.around([dc], 6, 4000) + P.around([2 * dc], 6, 4000) + [4 * dc + 1] + ([qr, 2 * qr + 1] if not thor else list(range(6, 3 * dc))))):
        for nn in sorted(set([dn, dn + 1, 2 * dn - 1, 2 * dn, 2 * dn + 1, 3 * dn + 2] if dn <= 2 * dc + 2 or thor else [dn, dn + 3])):
            for N in special(nn)[: (7 if dn <= dc + 2 or thor else 3)]:
                for D in (operands(rng, dn, few=True) if dn > 8 else operands(rng, dn)[:6]):
                    D %= 1 << (64 * dn); D |= 1
                    yield "bi_dc_bdiv_q %s %s" % (vec(limbs_of(N, nn)), vec(limbs_of(D, dn)))
    # mpn_dc_bdiv_qr_n: sizes 2.., around 2x and 4x DC_BDIV_QR_THRESHOLD (one and two levels of recursion, odd/even splits)
    for k in sorted(set([2, 3, 4, 5, 7, 16, 33] + P.around([2 * qr], 2, 4000) + [2 * qr + 5, 4 * qr, 4 * qr + 1, 4 * qr + 3] + (list(range(2, 2 * qr)) if thor else []))):
        for N in special(2 * k)[: (7 if k <= 2 * qr + 2 else 4)]:
            for D in operands(rng, k, few=True) + [1 | (1 << (64 * k - 1))]:
                D %= 1 << (64 * k); D |= 1
                yield "bi_dc_bdiv_qr_n %x %s %s" % (qr, vec(limbs_of(N, 2 * k)), vec(limbs_of(D, k)))
