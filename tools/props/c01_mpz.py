"""C01 part: the mpz object layer of the multiplication family — mpz_mul, mpz_mul_ui, mpz_mul_si,
mpz_addmul, mpz_submul, mpz_addmul_ui, mpz_submul_ui (sign, size from the top limb, allocation,
aliasing, the negate fix-up of aorsmul_i.c).  Merged into C01 by tools/check.py."""
from genlib import *
from props.c03_mpz import mag, rand_mag, UIS

LEAN_MODULES = ["MpirProofs.Props.C01_mpz"]
THEOREMS = ["Mpir.Mpz.mpz_mul_exact", "Mpir.Mpz.mpz_mul_ui_exact", "Mpir.Mpz.mpz_mul_si_exact", "Mpir.Mpz.mpz_addmul_exact",
            "Mpir.Mpz.mpz_submul_exact", "Mpir.Mpz.mpz_addmul_ui_exact", "Mpir.Mpz.mpz_submul_ui_exact", "Mpir.Mpz.mpz_mul_alias_ok"]
TRUSTED = ["hand-written object-layer model lean/Mpir/Model/Mpz.lean (mirrors mpz/mul.c, mul_i.h, aorsmul.c, aorsmul_i.c; tied by correspondence on every run)",
           "mpn_mul/mpn_sqr are modelled at this layer by the schoolbook product (mul_basecase model); the algorithm dispatch is the subject of the other C01 parts"]
ASSUMPTIONS = ["the mpz model is value-level: aliasing enters through the destination's allocation and the identity tests the C makes (w != u, wp == up); "
               "in-place read-after-write errors are looked for by the differential run over every alias mode"]
RULE = ("mpz mul layer: operand sizes 0..12 x 0..12 limbs exhaustively, sizes around MUL_KARATSUBA_THRESHOLD (un+vn = 15..19), sparse to 300 limbs; data uniform/"
        "all-ones/powers of B (top product limb zero)/runs; all sign combinations; every alias mode; addmul/submul built backwards from the result "
        "(w = t -+ x*y for t of every size 0..|x*y|+2 incl. 0 and one-limb-off), |w| <,=,> |x*y| in limbs; ui multipliers 0,1,2^63,2^64-1; "
        "si multipliers 0,+-1,-2^63,2^63-1; the borrow = 2^64-1 case of mpn_submul_1")

SIS = [0, 1, -1, -(1 << 63), (1 << 63) - 1, 2, -2, 1 << 32, -(1 << 62)]

def mul_sizes(rng, tier):
    for un in range(13):
        for vn in range(13):
            yield un, vn
    for s in range(15, 20):                      # around wsize <= MUL_KARATSUBA_THRESHOLD (mul.c:83)
        for vn in (1, 2, 3, s // 2, s - s // 2):
            if 0 < vn < s: yield s - vn, vn
    big = [20, 31, 32, 33, 50, 64, 100, 150, 200, 300]
    for _ in range(16 if tier == "quick" else 200):
        un = rng.choice(big + [rng.randrange(13, 301)])
        vn = rng.choice([1, 2, un, max(1, un - 1), rng.randrange(1, un + 1)])
        yield (un, vn) if rng.random() < 0.5 else (vn, un)

def mul_data(rng, un, vn):
    yield rand_mag(rng, un, "uniform"), rand_mag(rng, vn, "uniform")
    yield rand_mag(rng, un), rand_mag(rng, vn)
    if un and vn:
        yield (1 << (64 * un)) - 1, (1 << (64 * vn)) - 1                       # all ones: maximal carries, top limb non-zero
        yield 1 << (64 * (un - 1)), rand_mag(rng, vn)                          # top limb of the product is zero
        yield (1 << (64 * (un - 1))) | rng.getrandbits(64), (1 << (64 * (vn - 1))) | rng.getrandbits(64)   # tops 1*1: product un+vn-1 limbs

def backwards(rng, p, sizes):
    """targets t of the given limb sizes; yields (w, t) with w = t - p"""
    for n in sizes:
        t = rand_mag(rng, n)
        for s in (1, -1):
            yield s * t - p

def gen_ops(rng, tier, ctx=None):
    # mpz_mul
    for un, vn in mul_sizes(rng, tier):
        for a, b in mul_data(rng, un, vn):
            for sa, sb in ((1, 1), (1, -1), (-1, 1), (-1, -1)):
                if un + vn > 40 and rng.random() < 0.5: continue
                yield "mpz_mul %x %s %s" % (rng.choice([0, 1, 2]), hx(sa * a), hx(sb * b))
        a = rand_mag(rng, un)
        for s in (1, -1):
            for m in (3, 4):
                yield "mpz_mul %x %s %s" % (m, hx(s * a), hx(s * a))
    for m in range(5): yield "mpz_mul %x 0 0" % m
    # mpz_mul_ui / mpz_mul_si
    for n in list(range(13)) + [17, 100, 300]:
        for cls in ("uniform", "ones", "mixed"):
            a = (1 << (64 * n)) - 1 if cls == "ones" else rand_mag(rng, n, None if cls == "mixed" else "uniform")
            for s in (1, -1):
                for ui in UIS + [rng.getrandbits(64), rng.getrandbits(rng.randrange(1, 65))]:
                    yield "mpz_mul_ui %x %s %x" % (rng.choice([0, 1]), hx(s * a), ui)
                for si in SIS + [rng.getrandbits(63), -rng.getrandbits(63)]:
                    yield "mpz_mul_si %x %s %s" % (rng.choice([0, 1]), hx(s * a), hx(si))
    # mpz_addmul_ui / mpz_submul_ui: every relation between |w| and |x*y|, results of every size
    xs = list(range(9)) + [12, 17, 40]
    for xn in xs:
        for ui in [0, 1, M, 1 << 63, rng.getrandbits(64), rng.getrandbits(64), rng.getrandbits(rng.randrange(1, 65))]:
            x = rand_mag(rng, xn, rng.choice(["uniform", "uniform", "ones", "runs"]))
            for sx in (1, -1):
                p = sx * x * ui
                pn = (abs(p).bit_length() + 63) // 64
                ws = set()
                # free-standing w of every size up to xn+2, both signs
                for wn in sorted(set([0, 1, max(0, xn - 1), xn, xn + 1, xn + 2, rng.randrange(0, xn + 4)])):
                    ws.add(rand_mag(rng, wn)); ws.add(-rand_mag(rng, wn))
                # built backwards: addmul gives t, submul gives -t' ...
                for w in backwards(rng, p, sorted(set([0, 1, 2, max(0, pn - 1), pn, pn + 1, rng.randrange(0, pn + 2)]))): ws.add(w)
                for w in backwards(rng, -p, sorted(set([0, 1, pn, rng.randrange(0, pn + 2)]))): ws.add(w)
                ws.add(p); ws.add(-p); ws.add(p + 1); ws.add(p - 1); ws.add(-p + 1); ws.add(-p - 1)
                ws = sorted(ws)
                if tier == "quick" and xn > 4: ws = rng.sample(ws, min(len(ws), 10))
                for w in ws:
                    yield "mpz_addmul_ui 0 %s %s %x" % (hx(w), hx(sx * x), ui)
                    yield "mpz_submul_ui 0 %s %s %x" % (hx(w), hx(sx * x), ui)
                yield "mpz_addmul_ui 1 0 %s %x" % (hx(sx * x), ui)
                yield "mpz_submul_ui 1 0 %s %x" % (hx(sx * x), ui)
    # directed: mpn_submul_1 returns 2^64-1 (w = [0,1], x = [M,M,x2], y = M), and its neighbours (aorsmul_i.c:167-170)
    for x2 in (1, M, rng.getrandbits(64) | 1):
        for wlow in (0, 1, M):
            for wtop in (1, 2, M):
                for y in (M, M - 1):
                    x = mag([M, M, x2]); w = mag([wlow, wtop])
                    for sw in (1, -1):
                        yield "mpz_submul_ui 0 %s %s %x" % (hx(sw * w), hx(sw * x), y)
                        yield "mpz_addmul_ui 0 %s %s %x" % (hx(sw * w), hx(-sw * x), y)
    # directed: the held -1 (cy2) of aorsmul_i.c:169-178: low part of w above the low part of x*y
    for n in (1, 2, 3, 5):
        for k in (1, 2, 3):
            w = rand_mag(rng, n, "uniform") | (1 << (64 * n - 1))
            for xl in (rand_mag(rng, n, "uniform") >> 2, 0, 1):
                for hi in (1, M, 1 << 63):
                    x = xl | (mag([0] * (k - 1) + [hi]) << (64 * n))
                    for y in (1, 2, M):
                        yield "mpz_submul_ui 0 %s %s %x" % (hx(w), hx(x), y)
                        yield "mpz_addmul_ui 0 %s %s %x" % (hx(-w), hx(x), y)
    # mpz_addmul / mpz_submul
    for xn in list(range(7)) + [9, 17, 30]:
        for yn in sorted(set([0, 1, 2, 3, xn, max(0, xn - 1), rng.randrange(0, xn + 2)])):
            if yn > xn + 1: continue
            x = rand_mag(rng, xn, rng.choice(["uniform", "ones", "runs", None])); y = rand_mag(rng, yn, rng.choice(["uniform", "ones", None]))
            for sx, sy in ((1, 1), (1, -1), (-1, 1), (-1, -1)):
                p = sx * x * sy * y
                pn = (abs(p).bit_length() + 63) // 64
                ws = set([0, p, -p, p + 1, p - 1, -p + 1, -p - 1])
                for wn in sorted(set([1, max(0, pn - 1), pn, pn + 1, pn + 2, rng.randrange(0, pn + 3)])):
                    ws.add(rand_mag(rng, wn)); ws.add(-rand_mag(rng, wn))
                for w in backwards(rng, p, sorted(set([0, 1, max(0, pn - 1), pn, rng.randrange(0, pn + 2)]))): ws.add(w)
                for w in backwards(rng, -p, sorted(set([1, pn, rng.randrange(0, pn + 2)]))): ws.add(w)
                if pn:   # same limbs as |p| except one: cancellation to that position
                    k = rng.randrange(pn); ws.add(abs(p) ^ (1 << (64 * k + rng.randrange(64)))); ws.add(-(abs(p) ^ (1 << (64 * k))))
                ws = sorted(ws)
                if tier == "quick" and xn > 3: ws = rng.sample(ws, min(len(ws), 8))
                for w in ws:
                    sw = (sx * x, sy * y) if rng.random() < 0.5 else (sy * y, sx * x)
                    yield "mpz_addmul 0 %s %s %s" % (hx(w), hx(sw[0]), hx(sw[1]))
                    yield "mpz_submul 0 %s %s %s" % (hx(w), hx(sw[0]), hx(sw[1]))
                for op in ("mpz_addmul", "mpz_submul"):
                    yield "%s 1 0 %s %s" % (op, hx(sx * x), hx(sy * y))          # w is u
                    yield "%s 2 0 %s %s" % (op, hx(sx * x), hx(sy * y))          # w is v
            for sx in (1, -1):
                for op in ("mpz_addmul", "mpz_submul"):
                    yield "%s 3 %s %s %s" % (op, hx(rng.choice([1, -1]) * rand_mag(rng, rng.choice([0, xn, 2 * xn, 2 * xn + 1]))), hx(sx * x), hx(sx * x))
                    yield "%s 3 %s %s %s" % (op, hx(x * x), hx(sx * x), hx(sx * x))   # submul: cancellation to zero
                    yield "%s 4 0 %s %s" % (op, hx(sx * x), hx(sx * x))

def nontrivial(line):
    return line if line.startswith("mpz_") and len(line) > 24 else None

# source pins: the C the Lean model mirrors (see tools/pins.py)
PINS = [('mpz/mul.c', None), ('mpz/mul_i.h', None), ('mpz/aorsmul.c', None), ('mpz/aorsmul_i.c', None)]
