"""C20 (part) — stream I/O of the C++ interface, remaining statements: the grammar of the mpf extractor, the round trips
(fixed and detected base, mpz and mpq), mpf insertion in every base (hex / octal streams: "@%c%02d" exponent), the pinned
oddities.  Models: lean/Mpir/Model/CxxIo.lean (part c20_cxxio) and CxxIo2.lean; theorems: lean/MpirProofs/Props/C20_io2.lean.
Tie: op lines `cxx_io_*` executed by the C++ interpreter tools/cxxio_driver.cc (compiled against the tree under test, now
under a recording allocator: wrong size to realloc/free and leaks are printed as markers) and by the Lean driver."""
import os, random, glob, collections, time
import vlib
from vlib import log
from genlib import hx, vec, sbytes, limbs_of, B
from props import c20_cxxio as base
from props.c20_cxxio import (F_DEC, F_OCT, F_HEX, F_SHOWBASE, F_SHOWPOS, F_UPPER, F_LEFT, F_RIGHT, F_INTERNAL, F_FIXED, F_SCI, F_SHOWPOINT,
                             F_SKIPWS, BASEFIELDS, ADJUSTS, fval, in_line)

LEAN_MODULES = ["MpirProofs.Props.C20_io2"]
THEOREMS = ["Mpir.CxxIo.extractF_spec", "Mpir.CxxIo.extractF_props", "Mpir.CxxIo.extractF_never_invalid", "Mpir.CxxIo.extractF_not_good", "Mpir.CxxIo.roundtripZ", "Mpir.CxxIo.roundtripQ",
            "Mpir.CxxIo.emitPieces_layout", "Mpir.CxxIo.insertF_layout", "Mpir.CxxIo.insertF_sign"]
PINS = [("cxx/ismpf.cc", None), ("cxx/osmpf.cc", None), ("cxx/osfuns.cc", None), ("cxx/osdoprnti.cc", None), ("printf/doprntf.c", "__gmp_doprnt_mpf"),
        ("gmp-impl.h", "gmp_allocated_string"), ("printf/asprntffuns.c", None)]
TRUSTED = ["tools/cxxio_driver.cc: recording allocator of the C++ interpreter (ledger of block sizes installed with mp_set_memory_functions; markers !alloc:free/realloc:<given>:<block>, !leak)"]
ASSUMPTIONS = ["operator<< for mpf_class in every base is modelled on MpfStr.get_str (property C13's bit-exact model of mpf_get_str); the int arithmetic of "
               "__gmp_doprnt_mpf (ndigits = prec + 2 + EXP * (chars_per_limb + 1)) is modelled in unbounded integers: exponents and precisions below 2^31 / chars_per_limb",
               "the value stored by operator>> (istream, mpf) is MpfStr.set_str of the collected text (property C13)"]
RULE = ("cxx_io_out_fg: every basefield setting (hex, oct, dec, none, two bits) x floatfield (fixed, scientific, general, both bits) x showpoint x showbase x uppercase x showpos x "
        "adjustfield x width x fill (also NUL) x precision (0, 1, 3, 6, 12, 40, negative) x values (0, small, powers of the base +-1 ulp for carry chains up to a new leading 1, "
        "digits all base-1, exponents needing 1/2/3 exponent digits, mantissas of 1..5 limbs, values below the fixed precision); cxx_io_rt_z / cxx_io_rt_q: out << x then in >> y for "
        "every pair (output basefield x showbase x showpos x uppercase, input basefield incl. none) with and without padding; cxx_io_in_f directed at the grammar of floatSpec "
        "(point without digits, exponent without digits, signs, end of input at every position); corpus/C20/cxxio2/*.ops first")

PRECS = [6, 0, 1, 3, 12, 40, -1]
FLOATFIELDS = [0, F_FIXED, F_SCI, F_FIXED | F_SCI]

def fg_values(rng, thorough):
    v = [(0, 0), (1, 0), (-1, 0), (1, -1), (3, -2), (255, 0), (-255, -4), (1, -20), (1, 64), (1, 200), (-1, -200), (5, 400), (1, -400)]
    for b in (8, 10, 16):
        for k in (1, 2, 5, 17):
            v += [(b ** k, 0), (b ** k - 1, 0), (b ** k + 1, 0), (b ** k - 1, -3), (-(b ** k - 1), -7)]
    # carry chains: ...fff8 / ...7774 just below a power of the base, scaled below the point
    v += [(0xffff8, -8), (0xfffff, -8), (0o77774, -6), (0o77777, -9), (999995, -3), (0xfff7ff, -12), ((1 << 128) - 1, -64), ((1 << 200) - 1, -100),
          ((1 << 64) - 1, 0), ((1 << 64) - 1, -64), (1 << 63, -63), ((1 << 130) + 1, -65), (123456789 * 10 ** 20 + 1, -70), (1, -3), (7, -3), (9, -4)]
    n = 40 if thorough else 8
    for _ in range(n):
        v.append((rng.getrandbits(rng.choice([10, 60, 64, 100, 190, 300])) * rng.choice([1, -1]) | 1, rng.randrange(-330, 200)))
    return v

def gen_out_fg(rng, tier):
    thorough = tier == "thorough"
    vals = fg_values(rng, thorough)
    k = 0
    for bf in (F_HEX, F_OCT, F_DEC, 0, F_HEX | F_OCT):
        for ff in FLOATFIELDS:
            for prec in PRECS:
                for up in (0, F_UPPER):
                    for sb in (0, F_SHOWBASE):
                        for spt in (0, F_SHOWPOINT):
                            k += 1
                            if bf in (0, F_HEX | F_OCT) and (k % 5): continue
                            if bf == F_DEC and not thorough and (k % 3): continue
                            sp = F_SHOWPOS if k % 4 == 1 else 0
                            adj = ADJUSTS[k % len(ADJUSTS)]; w = [0, 24, 40, 3, -2][k % 5]; fill = [32, 42, 48, 0, 45][k % 5 if w else 0]
                            vs = vals if thorough and k % 4 == 0 else [vals[(k * 7 + i * 13) % len(vals)] for i in range(3 if thorough else 2)]
                            for (m, e) in vs:
                                bits = rng.choice([64, 64, 128, 256, 320])
                                nl = (abs(m).bit_length() + (e % 64) + 63) // 64
                                bits = max(bits, 64 * max(nl - 1, 1))
                                yield "cxx_io_out_fg %x 0 %s %x %s %x %s" % (bf | ff | spt | sp | up | adj | sb, hx(w), fill, hx(prec), bits, fval(m, e))
    # fixed format, the digit after the last kept one exactly (base+1)/2 or one less, after a chain of base-1 digits (carry up to a new leading 1)
    for b, bf, half in ((16, F_HEX, 8), (8, F_OCT, 4), (10, F_DEC, 5)):
        for chain in (0, 1, 3):
            for prec in (0, 1, 2):
                for nxt in (half - 1, half, half + 1):
                    for lead in (1, b - 1):
                        # digits: lead, (b-1) x chain ... with `prec` fraction digits, then nxt
                        ds = [lead] + [b - 1] * (chain + prec) + [nxt]
                        m = 0
                        for d in ds: m = m * b + d
                        if b == 10: m, e2 = m * (1 << 80) // (10 ** (prec + 1)) | 1, -80      # not exact in binary: close from above
                        else: e2 = -(prec + 1) * (4 if b == 16 else 3)
                        for sgn in (1, -1):
                            yield "cxx_io_out_fg %x 0 0 20 %x c0 %s" % (bf | F_FIXED | (F_SHOWBASE if chain == 1 else 0), prec, fval(sgn * m, e2))
                            yield "cxx_io_out_fg %x 0 0 20 %x c0 %s" % (bf | F_SCI | (F_UPPER if chain == 3 else 0), chain + prec, fval(sgn * m, e2))
    # stream states, NUL fill with every adjustment
    for st in range(1, 8):
        yield "cxx_io_out_fg %x %x 8 2a 6 40 %s" % (F_HEX | F_SHOWBASE, st, fval(255, -4))
    for adj in ADJUSTS:
        for bf in (F_HEX, F_OCT, F_DEC):
            yield "cxx_io_out_fg %x 0 c 0 3 40 %s" % (bf | adj | F_SHOWBASE, fval(-21, -2))

RT_Z = [0, 1, -1, 7, 8, 9, 10, 15, 16, 17, -255, 0o777, 1 << 63, -(1 << 64), 10 ** 30, -(10 ** 30) + 1]
def gen_rt(rng, tier):
    thorough = tier == "thorough"
    k = 0
    for fo_b in (F_DEC, F_OCT, F_HEX, 0, F_DEC | F_HEX):
        for sb in (0, F_SHOWBASE):
            for sp in (0, F_SHOWPOS):
                for up in (0, F_UPPER):
                    for fi_b in (F_DEC, F_OCT, F_HEX, 0, F_OCT | F_HEX):
                        k += 1
                        fo = fo_b | sb | sp | up | ADJUSTS[k % len(ADJUSTS)]
                        fi = fi_b | (F_SKIPWS if k % 3 else 0)
                        w, fill = [(0, 32), (0, 32), (12, 32), (9, 48), (-1, 42), (10, 0)][k % 6]
                        zs = RT_Z if thorough else [RT_Z[(k + 5 * i) % len(RT_Z)] for i in range(3)]
                        for z in zs + [rng.getrandbits(rng.choice([3, 8, 64, 130])) * rng.choice([1, -1])]:
                            yield "cxx_io_rt_z %x %x %s %x %s 7e57" % (fo, fi, hx(w), fill, hx(z))
                        for (n, d) in [(zs[0], 1), (zs[1], 8), (zs[-1], 10 ** 20 + 1), (rng.getrandbits(70) * rng.choice([1, -1]), rng.getrandbits(rng.choice([4, 66])) + 1)]:
                            yield "cxx_io_rt_q %x %x %s %x %s %s 7e57 7" % (fo, fi, hx(w), fill, hx(n), hx(d))

def gen_in_f(rng, tier):
    """the grammar of floatSpec, every stopping place, with and without following text"""
    thorough = tier == "thorough"
    parts = []
    for sg in ("", "-", "+"):
        for ip in ("", "0", "12"):
            for fp in (None, "", "5", "050"):
                for ex in (None, "e", "E", "e5", "E-5", "e+", "e-", "e+07", "ex", "e+x", "E5e5"):
                    parts.append(sg + ip + ("" if fp is None else "." + fp) + (ex or ""))
    tails = ["", " ", "x", ".", "e", "-", "+1", "\n", ",5", "\x00"]
    k = 0
    for t in parts:
        for tl in tails:
            k += 1
            if not thorough and k % 4 and tl != "": continue
            ws = ["", " ", "\t\n"][k % 3]
            fl = rng.choice(BASEFIELDS[:5]) | (0 if k % 7 == 0 else F_SKIPWS)
            yield in_line("f", fl, 0, ws + t + tl, rng)
    for st in range(1, 8):
        yield in_line("f", F_DEC | F_SKIPWS, st, "1.5e3", rng)

def gen_io_ops(rng, tier):
    yield from gen_out_fg(rng, tier)
    yield from gen_rt(rng, tier)
    yield from gen_in_f(rng, tier)

def corpus_lines():
    out = []
    for f in sorted(glob.glob(os.path.join(vlib.VERIF, "corpus", "C20", "cxxio2", "*.ops"))):
        out += [l.rstrip("\n") for l in open(f) if l.strip() and not l.startswith("#")]
    return out

def extra(ctx, cov):
    t0 = time.time()
    if os.environ.get("C20_IO_REPLAY"): return []          # replays are handled by part c20_cxxio (same driver, same ops table)
    exe = base.get_cxx_driver(ctx.build)
    rng = random.Random("C20-cxxio2-%d-%s" % (ctx.seed, ctx.tier))
    cl = corpus_lines(); gl = list(gen_io_ops(rng, ctx.tier))
    lines = cl + gl
    bad = base.run_lines(ctx, exe, lines)
    st = collections.Counter(l.split(" ", 1)[0] for l in lines)
    cov["cxxio2_ops"] = dict(st); cov["cxxio2_corpus_lines"] = len(cl); cov["cxxio2_disagreements"] = len(bad)
    cov["cxxio2_distinct"] = len(set(lines)); cov["cxxio2_wall_s"] = round(time.time() - t0, 1)
    log("cxxio2: %d op lines (%d corpus), %d disagreements, %.0fs" % (len(lines), len(cl), len(bad), time.time() - t0))
    out = []; seen = set()
    for i, l, a, m in bad:
        key = l.split(" ", 1)[0] + ("!alloc" if "!alloc" in a or "!leak" in a else "")
        if key in seen or len(out) >= 4: continue
        seen.add(key)
        d = os.path.join(vlib.VERIF, "replay"); os.makedirs(d, exist_ok=True)
        path = os.path.join(d, "C20-cxxio2-%d-%d.ops" % (ctx.seed, len(out) + 1))
        with open(path, "w") as f:
            f.write("# property C20 (stream I/O, part 2) seed %d tier %s\n# %s\n# implementation (C++): %s\n# model (Lean):         %s\n# rerun: C20_IO_REPLAY=%s bin/check C20\n%s\n" % (
                ctx.seed, ctx.tier, base.describe(l), a, m, path, l))
        out.append(("cxx-io: %s impl=%s model=%s" % (base.describe(l), a, m), path))
    return out
