"""C07 part: the cofactor layer — mpn_gcdext_hook, mpn_gcdext_lehmer_n, mpn_gcdext (hgcd_mul_matrix_vector, compute_v, the
divide-and-conquer loop) with their size bookkeeping.  harness/ops_gcdext.c calls the functions (the hook directly on a
hand-built struct gcdext_ctx) and prints {gp, gn}, *usize, {up, |*usize|}; lean/Mpir/Model/Gcdext.lean answers."""
from props import c07_gcd as base
from props import c07_hgcd as hg
from genlib import *

LEAN_MODULES = ["MpirProofs.Props.C07_gcdext"]
THEOREMS = ["Mpir.C07x.gcdext_1_bounds", "Mpir.C07x.gcdext_hook_correct", "Mpir.C07x.mpn_gcdext_lehmer_n_correct",
            "Mpir.C07x.gcdext_lehmer_n_value_correct", "Mpir.C07x.cofBound_contract", "Mpir.C07x.mpn_gcdext_contract_partial",
            "Mpir.C07x.mpz_gcdext_correct_partial", "Mpir.C07x.mpz_invert_correct_partial"]
TRUSTED = ["hand-written models lean/Mpir/Model/Gcdext.lean of mpn_gcdext_hook / mpn_gcdext_lehmer_n / mpn_gcdext (values exact, size fields and "
           "a flag for stores outside a buffer tracked), tied by exact comparison of {gp,gn}, *usize, {up,|*usize|} on every run"]
ASSUMPTIONS = ["the branch `u0[0] == 0 && un == 1` after the dc loop of mpn_gcdext (gcdext.c:438) is modelled but cannot be reached under the documented precondition "
               "bp[n-1] != 0: b is never reduced while u0 = 0, so n stays >= GCDEXT_DC_THRESHOLD (dead code, not a defect)",
               "mpn_gcdext for n >= GCDEXT_DC_THRESHOLD: the divide-and-conquer model (dcFirst/dcLoop/dcFinish with hgcd_mul_matrix_vector and compute_v) is "
               "compared exactly and its output checked against the contract (mpn_gcdext_sz_p) on every run; its proof from mpn_hgcd_correct_partial is not done — "
               "the unconditional mpz theorems use the value-level model Mpir.Gcd.mpn_gcdext, which in that range returns the canonical cofactor by definition"]
RULE_GCDEXT = ("cofactor layer: hook called with (u0, u1) at every size relation, one-limb q in {1, 2, B-1}, multi-limb q with a zero top limb, zero u1; "
               "mpn_gcdext at 1 limb, 2 limbs, the Lehmer range and GCDEXT_DC_THRESHOLD +-2 with a = b, b | a, b = 2g, huge g, cofactor at the bound, "
               "remainder chains built backwards from chosen quotient sizes (consecutive huge quotients)")

def nl(x): return (x.bit_length() + 63) // 64
def V(x, n=None): return vec(limbs_of(x, n if n is not None else max(1, nl(x))))

def chain(rng, limbs, g=1, huge=0.15, start_small=False):
    """remainder chain built backwards from chosen quotient SIZES: (a, b) with a >= b of about `limbs` limbs"""
    a, b = g, 0
    target = 64 * limbs
    first = True
    while a.bit_length() < target:
        r = rng.random()
        if r < huge: q = rng.getrandbits(64 * rng.randrange(1, 5)) + 2
        elif r < huge + 0.1: q = rng.choice([2, (1 << 64) - 1, 1 << 64, (1 << 64) + 1, 1 << 63])
        elif r < huge + 0.5: q = 1
        else: q = rng.randrange(1, 6)
        if first and q == 1: q = 2
        first = False
        if a.bit_length() + q.bit_length() > target + 64: q = 1 + rng.getrandbits(3)
        a, b = q * a + b, a
    return a, b

def special_pairs(rng, n):
    """the manual's special cases at size class n: (a, b) with nl(b) = n <= nl(a)"""
    top = 1 << (64 * n - 1)
    x = base.rand_nat(rng, n) | top
    g = base.rand_nat(rng, max(1, n - 1)) | 1
    k = rng.randrange(1, 1 << 20)
    out = [(x, x), (x * k, x), (x * (1 << 64), x), (x + 1, x), (2 * x + 1, x)]
    # b = 2g (a odd multiple of g), g huge
    h = (base.rand_nat(rng, n) | top) >> 1 or 1
    out += [((2 * k + 1) * h, 2 * h), (3 * h, 2 * h)]
    # g huge: all but a limb
    if n >= 2:
        G = base.rand_nat(rng, n - 1) | 1 << (64 * (n - 1) - 1)
        p, q = rng.getrandbits(60) | 1 << 59, rng.getrandbits(62) | 1 << 61
        out += [(q * G, p * G), ((q + p) * G, p * G)]
    # cofactor exactly at the bound: a s = g (mod b) with |s| = (b/g - 1)/2: a = 2 mod b/g ... take b odd, a = 2: s = (b+1)/2 > b/2, so a = b - 2: s = (b-1)/2
    bo = x | 1
    out += [(bo - 2 + bo * rng.randrange(0, 3), bo), (2 + bo * rng.randrange(1, 3), bo), (bo - 1 + bo, bo), (bo + 1, bo)]
    # consecutive huge quotients
    out.append(chain(rng, n, huge=0.7))
    out.append(chain(rng, n, g=base.rand_nat(rng, max(1, n // 3)) | 1, huge=0.4))
    return [(a, b) for a, b in out if b > 0 and nl(b) == n and a >= 1 and nl(a) >= n]


def dc_exit_div(rng, DC, flip):
    """(A, B), both >= DC limbs, whose remainder chain passes ... r2 (>= DC limbs), r1 = q g (DC/2 limbs), g: the dc loop of
    mpn_gcdext is left with the pair {r1, g}, one dividing the other, so the Lehmer call returns cofactor 0 (lehmer_un == 0)
    or 1 with v = 0 (compute_v returns 0), depending on the orientation (`flip` adds one more step)."""
    h = max(2, DC // 2)              # r1 so short that mpn_hgcd on the top 2n/3 limbs of (r1, r2) fails: a subdiv step divides r2 by r1
    g = base.rand_nat(rng, rng.randrange(1, max(2, h // 2))) | 1
    q = (1 << (64 * h - 1 - rng.randrange(60))) // g + rng.getrandbits(20) + 2
    r1 = q * g
    r2 = (rng.getrandbits(64 * (DC - h + 1)) | 1 << (64 * (DC - h + 1) - 1)) * r1 + g
    r3 = rng.randrange(1, 4) * r2 + r1
    if flip: r2, r3 = r3, rng.randrange(1, 4) * r3 + r2
    return r3, r2

def gen_ops(rng, tier, ctx=None):
    th = base.thresholds(ctx)
    quick = tier == "quick"
    DC = th["GCDEXT_DC_THRESHOLD"]
    T = "%x %x %x %x %x" % (th["HGCD_THRESHOLD"], th["HGCD_APPR_THRESHOLD"], th["HGCD_REDUCE_THRESHOLD"], th["MATRIX22_STRASSEN_THRESHOLD"], DC)
    # ---------- mpn_gcdext_hook, gp == NULL: u0 += q u1 with the size bookkeeping
    for _ in range(600 if quick else 6000):
        un = rng.choice([1, 1, 2, 2, 3, 5])
        k = rng.randrange(8)
        u0 = hg.pool_val(rng, un, rng.getrandbits(64 * un)); u1 = hg.pool_val(rng, un, rng.getrandbits(64 * un))
        if k == 0: u1 = 0
        if k == 1: u1 >>= 64 * rng.randrange(0, un + 1)          # u1 shorter than un
        if k == 2: u0 >>= 64 * rng.randrange(0, un + 1)
        if k == 3: u0 = (1 << (64 * un)) - 1; u1 = (1 << (64 * un)) - 1
        if max(u0, u1) >> (64 * (un - 1)) == 0: (u0, u1) = (u0 | 1 << (64 * un - 1), u1) if rng.random() < 0.5 else (u0, u1 | 1 << (64 * un - 1))
        qn = rng.choice([1, 1, 1, 2, 2, 3, 4])
        if qn == 1: q = rng.choice([1, 1, 2, M, 1 << 63, rng.getrandbits(64) | 1]); ql = [q]
        else:
            q = rng.getrandbits(64 * qn) | 1 << (64 * qn - 1 - rng.randrange(64))
            if rng.random() < 0.3: q >>= rng.choice([1, 63, 64]) ; q = q or 1       # top limb of {qp, qn} zero
            ql = limbs_of(q, qn) if nl(q) >= qn - 1 else limbs_of(q, nl(q) + 1)
        d = rng.randrange(2)
        ualloc = un + len(ql) + 1 + rng.randrange(3)
        yield "mpn_gcdext_hook_q %x %s %s %s %x" % (ualloc, V(u0, un), V(u1, un), vec(ql), d)
    # ---------- mpn_gcdext_hook, gp != NULL
    for _ in range(200 if quick else 2000):
        un = rng.choice([1, 1, 2, 3])
        u0 = hg.pool_val(rng, un, rng.getrandbits(64 * un)); u1 = hg.pool_val(rng, un, u0)
        d = rng.choice([-1, -1, 0, 1])
        if d == -1 and u0 == u1: u0, u1, un = 1, 1, 1
        g = base.rand_nat(rng, rng.choice([1, 2, 4])) or 1
        yield "mpn_gcdext_hook_g %s %s %s %s" % (V(u0, un), V(u1, un), V(g), hx(d))
    # ---------- mpn_gcdext_lehmer_n with sizes
    for n in list(range(1, 9)) + [12, 20] + ([] if quick else [40, 80, 150]):
        for kind in hg.KINDS:
            for _ in range(2 if quick else 10):
                a, b = hg.pair_from(rng, n, kind)
                if a == 0 or b == 0: continue
                yield "mpn_gcdext_lehmer_n_sz %s %s" % (V(a, n), V(b, n))
        for a, b in special_pairs(rng, n):
            if nl(a) == n:
                yield "mpn_gcdext_lehmer_n_sz %s %s" % (V(a, n), V(b, n))
                yield "mpn_gcdext_lehmer_n_sz %s %s" % (V(b, n), V(a, n))
    # ---------- mpn_gcdext: every size class
    def gx(a, b):
        line = "%s %s %s" % (T, V(a), V(b))
        return ["mpn_gcdext_sz " + line, "mpn_gcdext_sz_p " + line]
    sizes = [1, 1, 2, 2, 3, 4, 6, 10, 17, 40] + ([] if quick else [80, 150, 250])
    for n in sizes:
        for a, b in special_pairs(rng, n):
            yield from gx(a, b)
        for _ in range(4 if quick else 20):
            a, b = base.sized_pair(rng, n, rng.choice([0, 0, 1, 2, 5]))
            if b == 0 or nl(b) != n or nl(a) < n: continue
            yield from gx(a, b)
        for _ in range(3 if quick else 12):
            a, b = chain(rng, n + rng.choice([0, 0, 1]), huge=rng.choice([0.1, 0.5]))
            if nl(b) < 1: continue
            yield from gx(a, b)
    # around GCDEXT_DC_THRESHOLD: the dc loop, its exits, and the Lehmer call that follows
    if DC <= 1200:
        ns = [DC - 2, DC - 1, DC, DC + 1, DC + 2] + ([] if quick else [DC + 40, 2 * DC, 3 * DC + 1])
        for n in ns:
            if n < 1: continue
            pairs = []
            pairs.append(chain(rng, n, huge=0.02))
            pairs.append(base.cf_limbs(rng, n, allones=True))
            if not quick or n in (DC, DC + 1):
                pairs += special_pairs(rng, n)
                pairs.append(chain(rng, n, huge=0.6))                # several consecutive huge quotients: hgcd fails / a much shorter than the cofactor
                pairs.append(chain(rng, n, g=base.rand_nat(rng, n // 2) | 1, huge=0.05))
                x = base.rand_nat(rng, n) | 1 << (64 * n - 1)
                pairs.append((x + rng.getrandbits(64 * 3), x))       # difference small: subdiv steps at full size
                pairs.append((base.rand_nat(rng, n + 3) | 1 << (64 * (n + 3) - 1), x))
            if n in (DC, DC + 1):
                for flip in (0, 1): pairs.append(dc_exit_div(rng, DC, flip))
            for a, b in pairs:
                if b <= 0 or nl(b) != n or nl(a) < n:
                    if b > 0 and nl(b) >= DC - 2 and nl(a) >= nl(b): pass
                    else: continue
                yield from gx(a, b)

PINS = [("mpn/generic/gcdext_lehmer.c", None), ("mpn/generic/gcdext.c", None), ("mpn/generic/gcdext_1.c", "mpn_gcdext_1")]
