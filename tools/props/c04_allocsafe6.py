"""C04 part allocsafe6: size-aware models of the mpq arithmetic on the memory model of Model/AllocSafe.lean (an mpq_t = its two mpz_t
fields = two variable ids; the C's local mpz_t's are scratch variables of the same heap) in lean/Mpir/Model/AllocSafeMpq6.lean:
mpq/aors.c (mpq_add / mpq_sub: gcd, tmp1, tmp2, t live in TMP space — MPZ_TMP_INIT with MIN (den sizes), num + den sizes, MAX + 1 limbs —
and must never be reallocated by mpz_gcd / mpz_divexact_gcd / mpz_mul / mpz_add: `tmpKept` after every callee; the coprime-denominators
arm that writes NUM (rop) before reading the denominators again, the common-divisor arm with its second gcd and both exits),
mpq/mul.c (the op1 == op2 squaring arm, the two cross gcds, NUM (prod) written before the denominators are read), mpq/div.c (DIVIDE_BY_ZERO,
the numerator through numtmp, the sign moved from the denominator to the numerator by negating both size fields), mpq/md_2exp.c
(mord_2exp: the skip loop over whole zero limbs, `MPZ_REALLOC (rdst, len)`, the in-place copy decided by comparing POINTERS — the
repaired form —, the shift arm, then mpz_mul_2exp / mpz_set on the other field; mpq_div_2exp's zero arm that stores den[0] = 1).
Callees with an existing size-aware model are reused as they are (mpz_mul, mpz_add, mpz_sub, mpz_set, mpz_mul_2exp); mpz_gcd and
mpz_divexact_gcd are object-level (see ASSUMPTIONS).  Ops `as6_*` (harness/ops_allocsafe6.c) run the real function on fields of the
GIVEN allocations in every alias mode and compare ALLOC, SIZ and value of NUM (rop) and DEN (rop) with the model's run."""
from genlib import *
from math import gcd

LEAN_MODULES = ["MpirProofs.Props.C04_allocsafe6"]
THEOREMS = ["Mpir.AllocSafe6." + t for t in (
    "mpq_div_zero", "mpq_mul_sqr_alloc_safe", "mpq_mul_alloc_safe", "mpq_div_alloc_safe", "mpq_div_2exp_zero_alloc_safe", "mpq_aors_coprime_alloc_safe_partial", "mpq_aors_common_alloc_safe", "mpq_aors_alloc_safe", "mpq_add_alloc_safe", "mpq_sub_alloc_safe",
    "zaors_gen_keep", "mpz_divexact_gcd_wrote'", "mpz_divexact_gcd_alloc_keep", "mpz_mul_alloc_keep", "mpz_gcd_alloc_keep", "equal1_spec", "absiz_le", "skipZeros_spec", "top_ne_zero", "mpz_mul_gen_keep", "mpz_gcd_gen_keep", "equal1_one", "setSize_neg", "size_neg_iff",
    "objWrite_wrote", "mpz_gcd_wrote", "mpz_divexact_gcd_wrote", "mpz_mul_wrote", "mpz_set_wrote", "mpz_add_wrote", "mpz_sub_wrote",
    )]
TRUSTED = ["hand-written size-aware models lean/Mpir/Model/AllocSafeMpq6.lean (mpq/aors.c, mul.c, div.c, md_2exp.c on the memory model of "
           "AllocSafe.lean), tied by exact comparison of ALLOC, SIZ, value of both fields of rop in every alias mode, and by source pins"]
ASSUMPTIONS = ["mpz_gcd (g, u, v) writes only g: `MPZ_REALLOC (g, gsize)` with gsize = the limbs of gcd (|u|, |v|), then exactly those limbs "
               "(mpz/gcd.c:49, 60, 68, 75, 139-151; pinned), operands read before",
               "mpz_divexact_gcd (q, a, d), d > 0 dividing a, writes only q: a = 0 stores SIZ (q) = 0; one-limb d requests ABSIZ (a) limbs "
               "(mpz/divegcd.c:55, 72, 88, mpz_set, mpz_tdiv_q_2exp), otherwise mpz_divexact requests ABSIZ (a) - ABSIZ (d) + 1 "
               "(mpz/divexact.c:50-51); then the limbs of a / d (pinned)",
               "operands of the mpq functions are canonical (den > 0, gcd (num, den) = 1) as the documentation requires"]
RULE = ("allocsafe6: canonical operands with denominators that are coprime / share a one-limb factor (2^k, 3, 5, other) / share a multi-limb factor, "
        "sums whose numerator shares a further factor with the denominators' gcd (second gcd != 1) or cancels to zero, zero operands, "
        "cross factors between num (op1) and den (op2) for mul / between the numerators for div, division by zero, negative divisors, "
        "all five alias modes, field allocations exact / need-1 / need / generous; 2exp: n below / at / above multiples of 64 against "
        "operands with whole low zero limbs and trailing zero bits (skip loop, shift arm, n exhausted or not), in place and not")
PINS = [("mpq/aors.c", None), ("mpq/mul.c", None), ("mpq/div.c", None), ("mpq/md_2exp.c", None),
        ("mpz/gcd.c", "mpz_gcd"), ("mpz/divegcd.c", None), ("mpz/divexact.c", "mpz_divexact"), ("gmp-impl.h", "MPZ_TMP_INIT"), ("gmp-impl.h", "MPZ_EQUAL_1_P")]

def nl(x): return (abs(x).bit_length() + 63) // 64

def obj(rng, v, need=None):
    n = max(nl(v), 1)
    cands = [n, n, n + 1, n + rng.randrange(0, 4)]
    if need: cands += [max(n, need - 1), max(n, need), max(n, need + 1)]
    return "%x %s" % (rng.choice(cands), hx(v))

def special(rng, k=None):
    k = k if k is not None else rng.randrange(1, 4)
    m = rng.randrange(0, 64 * k)
    return rng.choice([B ** k - 1, B ** (k - 1), B ** k - (1 << m), 1 << m, 1 << (64 * k - 1), B ** (k - 1) + 1,
                       rng.getrandbits(64 * k), rng.getrandbits(64 * k) | (1 << (64 * k - 1)), rng.getrandbits(64) << (64 * (k - 1)),
                       (B ** k - 1) // 3, rng.randrange(1, 50), 3, 5, 2, 1]) or 1

def factor(rng):
    """a common factor: 1, one-limb (2^k, 3, 5, 3*2^k, other), multi-limb"""
    return rng.choice([1, 1, 2, 4, 1 << rng.randrange(1, 64), 3, 5, 6, 3 << rng.randrange(1, 60), 7, 15, M, (1 << 63) + 1 if False else 1 << 63,
                       rng.getrandbits(64) | 1, B, B * 3, B + 1, B ** 2 - 1, rng.getrandbits(128) | (1 << 127), B ** 2])

def canon(n, d):
    if d < 0: n, d = -n, -d
    g = gcd(abs(n), d)
    return n // g, d // g

def sgnd(rng, v): return v * rng.choice([1, -1])

def q3_case(rng, name):
    """(a, b) canonical pairs"""
    c = rng.randrange(12)
    f = factor(rng)
    if c == 0:   a = (sgnd(rng, special(rng)), special(rng)); b = (sgnd(rng, special(rng)), special(rng))
    elif c == 1: a = (sgnd(rng, special(rng)), f * special(rng, 1)); b = (sgnd(rng, special(rng)), f * special(rng, 1))       # dens share f
    elif c == 2:                                                                                                        # second gcd != 1: a/(f*x) + b/(f*y) with num divisible by part of f
        x = special(rng, 1); y = special(rng, 1); n1 = special(rng, 1)
        n2 = -n1 * y + f * rng.randrange(-3, 4)          # n1*y + n2*x ... choose x = 1 so that t = n1*y + n2 = f*k
        a = (n1, f); b = (n2, f * y)
    elif c == 3: a = (0, 1); b = (sgnd(rng, special(rng)), special(rng))
    elif c == 4: a = (sgnd(rng, special(rng)), special(rng)); b = (0, 1)
    elif c == 5: a = (sgnd(rng, special(rng)), special(rng)); b = (-a[0], a[1]) if name in ("as6_add",) else a        # cancels to zero / quotient 1
    elif c == 6: a = (sgnd(rng, f * special(rng, 1)), special(rng)); b = (sgnd(rng, special(rng)), f * special(rng, 1))   # cross factor num1/den2
    elif c == 7: a = (sgnd(rng, f * special(rng, 1)), special(rng)); b = (sgnd(rng, f * special(rng, 1)), special(rng))   # numerators share f (div)
    elif c == 8: a = (sgnd(rng, special(rng)), 1); b = (sgnd(rng, special(rng)), 1)                                     # integers
    elif c == 9: a = (sgnd(rng, B ** 2 - 1), B ** 2 - 1 + f); b = (sgnd(rng, B ** 3 - 1), (B ** 2 - 1 + f) * 3)
    elif c == 10: a = (sgnd(rng, 1), f); b = (sgnd(rng, 1), f)                                                          # 1/f + 1/f = 2/f
    else: a = (rand_int(rng, 4), abs(rand_int(rng, 3)) or 1); b = (rand_int(rng, 4), abs(rand_int(rng, 3)) or 1)
    return canon(*a), canon(*b)

def gen_q3(rng, name):
    a, b = q3_case(rng, name)
    m = rng.choice([0, 0, 0, 1, 1, 2, 2, 3, 4])
    r = canon(sgnd(rng, special(rng)), special(rng))
    need_n = nl(a[0]) + nl(b[1]) + 1; need_d = nl(a[1]) + nl(b[1])
    def q(v): return "%s %s" % (obj(rng, v[0], need_n), obj(rng, v[1], need_d))
    return "%s %x %s %s %s" % (name, m, q(r), q(a), q(b))

def gen_2exp(rng, name):
    c = rng.randrange(8)
    zl = rng.choice([0, 0, 1, 2, 3]); zb = rng.choice([0, 0, 1, 5, 63, rng.randrange(64)])
    odd = special(rng) | 1
    big = odd << (64 * zl + zb)                          # whole zero limbs and trailing zero bits
    other = special(rng) | 1
    if name == "as6_mul_2exp": src = canon(sgnd(rng, other), big)       # the shifted-right side is the denominator
    else: src = canon(sgnd(rng, big), other)                            # ... the numerator
    if c == 0: src = (0, 1)
    if c == 1: src = canon(rand_int(rng, 4), abs(rand_int(rng, 3)) or 1)
    tz = 64 * zl + zb
    n = rng.choice([0, 1, 63, 64, 65, 127, 128, 129, tz, max(tz - 1, 0), tz + 1, 64 * zl, 64 * zl + 1, max(64 * zl - 1, 0), max(tz - 64, 0), tz + 64,
                    rng.randrange(0, 300)])
    m = rng.randrange(2)
    r = canon(sgnd(rng, special(rng)), special(rng))
    need = max(nl(src[0]), nl(src[1])) + n // 64 + 1
    def q(v): return "%s %s" % (obj(rng, v[0], need), obj(rng, v[1], need))
    return "%s %x %s %s %x" % (name, m, q(r), q(src), n)

def gen_ops(rng, tier, ctx=None):
    n = 600 if tier == "quick" else 8000
    for _ in range(n):
        yield gen_q3(rng, "as6_add")
        yield gen_q3(rng, "as6_sub")
        yield gen_q3(rng, "as6_mul")
        yield gen_q3(rng, "as6_div")
        yield gen_2exp(rng, "as6_mul_2exp")
        yield gen_2exp(rng, "as6_div_2exp")

def nontrivial(line):
    return line if line.startswith("as6_") else None
