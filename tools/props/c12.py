"""C12 — main module (parts: c12_*.py are merged automatically)."""
LEVEL = "proof"
LEAN_MODULES = []
THEOREMS = []
TRUSTED = []
ASSUMPTIONS = []
LEVEL_TEXT = "Lean theorems over Mathlib's rationals: for canonical inputs mpq add/sub/mul/div/inv/neg/abs/2exp models return exactly the mathematical result in canonical form, for every alias pattern; canonicalize preserves the value. Differential run over every gcd-reduction branch."
LEVEL_NOTE = 'mpz primitives used by the mpq code are taken at their specification (checked separately under C01/C02/C07).'
PLACEHOLDER = True
