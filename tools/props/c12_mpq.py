"""C12 part: mpq arithmetic, canonicalize, setters, 2exp — every alias pattern, every gcd-reduction branch."""
from math import gcd
from genlib import *

LEAN_MODULES = ["MpirProofs.Props.C12"]
THEOREMS = ["Mpir.Mpq." + t for t in (
    "mpq_aors_spec", "mpq_mul_spec", "mpq_div_spec", "mpq_inv_spec", "mpq_neg_spec", "mpq_abs_spec",
    "mpq_set_spec", "mpq_swap_spec", "mpq_set_z_spec", "mpq_set_si_spec", "mpq_set_ui_spec",
    "mpq_set_num_spec", "mpq_set_den_spec", "mpq_canonicalize_spec", "mpq_equal_iff", "mpq_mul_2exp_spec", "mpq_div_2exp_spec", "mpq_set_f_spec", "mpq_set_d_spec")]
TRUSTED = ["hand-written heap model lean/Mpir/Model/Mpq.lean mirroring mpq/*.c statement by statement (tied by correspondence on every run)",
           "mpz primitives (gcd, divexact_gcd, mul, add, sub, mul_2exp) taken at their specification on Int"]
ASSUMPTIONS = ["an mpz cell is modelled by its integer value (size field and limbs fused); mpq variables are ids into a store, aliasing = id equality",
               "md_2exp.c and set_d.c are modelled at value level following their branches, not limb by limb"]
RULE = ("canonical operand pairs built for each branch: gcd(d1,d2) in {1, small, large, d1, d2, d1=d2} x gcd(t,g) trivial/non-trivial/t=0 (Henrici), "
        "cross-cancellation on neither/one/both sides (mul/div), integers, zero, negatives, powers of two; shift counts 0,1,63,64,65,1000,...; "
        "every alias mode; 1..6 limbs mostly, some to 60; distinct = distinct op lines")

# ------------------------------------------------------------------ number builders
def limbsize(rng, tier):
    r = rng.random()
    if r < 0.80: return rng.randrange(1, 7)
    if r < 0.95: return rng.randrange(7, 20)
    return rng.randrange(20, 61 if tier == "quick" else 200)

def pos(rng, n, cls=None):
    """positive integer of at most n limbs (never 0)"""
    cls = cls or rng.choice(["uniform", "uniform", "runs", "ones", "onebit", "top", "sparse", "small"])
    if cls == "small": return rng.randrange(1, 1 << rng.randrange(1, 17))
    v = 0
    for i, x in enumerate(rand_limbs(rng, n, cls)): v |= x << (64 * i)
    return v or 1

def sgn(rng, v): return -v if rng.random() < 0.5 else v

def canon(n, d):
    if d < 0: n, d = -n, -d
    g = gcd(n, d)
    return n // g, d // g

def coprime_to(rng, n, m):
    """integer of about n limbs coprime to m (m > 0)"""
    for _ in range(200):
        v = pos(rng, n)
        g = gcd(v, m)
        while g != 1: v //= g; g = gcd(v, m)
        if v >= 1: return v
    return 1

def rand_q(rng, tier, kind=None):
    """a canonical pair"""
    kind = kind or rng.choice(["gen", "gen", "gen", "gen", "int", "zero", "pow2num", "pow2den", "unit", "small"])
    if kind == "zero": return 0, 1
    if kind == "int": return sgn(rng, pos(rng, limbsize(rng, tier))), 1
    if kind == "unit": return sgn(rng, 1), pos(rng, limbsize(rng, tier))
    if kind == "small": return canon(sgn(rng, rng.randrange(1, 50)), rng.randrange(1, 50))
    if kind == "pow2num":
        k = rng.choice([0, 1, 2, 63, 64, 65, 127, 128, 129, 200, rng.randrange(0, 400)])
        d = pos(rng, limbsize(rng, tier)) | 1
        return canon(sgn(rng, (pos(rng, rng.randrange(1, 4)) | 1) << k), d)
    if kind == "pow2den":
        k = rng.choice([0, 1, 2, 63, 64, 65, 127, 128, 129, 200, rng.randrange(0, 400)])
        n = pos(rng, limbsize(rng, tier)) | 1
        return canon(sgn(rng, n), (pos(rng, rng.randrange(1, 4)) | 1) << k if rng.random() < 0.5 else 1 << k)
    return canon(sgn(rng, pos(rng, limbsize(rng, tier))), pos(rng, limbsize(rng, tier)))

GS = ["one", "small", "large", "pow2", "limb"]
def some_g(rng, tier, kind):
    if kind == "one": return 1
    if kind == "small": return rng.choice([2, 3, 4, 5, 6, 7, 9, 10, 12, 15, 30, 255, 256, 65537])
    if kind == "pow2": return 1 << rng.choice([1, 5, 31, 32, 63, 64, 65, 128])
    if kind == "limb": return rng.choice([M, 1 << 63, (1 << 63) + 1, 3 << 62, M - 2, rng.getrandbits(64) | 1])
    return pos(rng, rng.randrange(2, 7), "uniform")

def henrici(rng, tier, issub):
    """operands for mpq_aors hitting a chosen branch; returns (q1, q2)"""
    gk = rng.choice(GS)
    shape = rng.choice(["gen", "gen", "d1|d2", "d2|d1", "d1=d2"])
    tg = rng.choice(["trivial", "nontrivial", "nontrivial", "zero"])
    g = some_g(rng, tier, gk)
    a1 = 1 if shape in ("d1|d2", "d1=d2") else pos(rng, rng.randrange(1, 4))
    a2 = 1 if shape in ("d2|d1", "d1=d2") else coprime_to(rng, rng.randrange(1, 4), a1)
    if tg == "zero":
        q = rand_q(rng, tier, "gen")
        return (q, q) if issub else (q, (-q[0], q[1]))
    if tg == "nontrivial" and g > 1:
        # p | g, make t = n1*a2 +- n2*a1 == 0 mod p with n1, n2 units mod p
        p = g if rng.random() < 0.5 else next((f for f in (2, 3, 5, 7, 11, 13) if g % f == 0), g)
        if gcd(a1, p) != 1 or gcd(a2, p) != 1:
            a1 = coprime_to(rng, 1, p * a2) if a1 != 1 else 1
            a2 = coprime_to(rng, 1, p * a1) if a2 != 1 else 1
        d1, d2 = g * a1, g * a2
        n1 = sgn(rng, coprime_to(rng, rng.randrange(1, 5), d1))
        r = (n1 * a2 * pow(a1, -1, p)) % p
        if not issub: r = (-r) % p
        for _ in range(300):
            n2 = r + p * rng.randrange(-(1 << 70), 1 << 70) if p < (1 << 200) else r - p * rng.randrange(0, 2)
            if n2 != 0 and gcd(n2, d2) == 1: return (n1, d1), (n2, d2)
        return canon(n1, d1), rand_q(rng, tier)
    d1, d2 = g * a1, g * a2
    n1 = sgn(rng, coprime_to(rng, rng.randrange(1, 6), d1))
    n2 = sgn(rng, coprime_to(rng, rng.randrange(1, 6), d2))
    return (n1, d1), (n2, d2)

def cross(rng, tier, isdiv):
    """operands for mul/div with cross gcds g1, g2 of chosen kinds"""
    g1 = some_g(rng, tier, rng.choice(GS)); g2 = some_g(rng, tier, rng.choice(GS))
    x = pos(rng, rng.randrange(1, 5)); y = pos(rng, rng.randrange(1, 5))
    u = pos(rng, rng.randrange(1, 5)); w = pos(rng, rng.randrange(1, 5))
    if isdiv:   # gcd1 = gcd(n1, n2), gcd2 = gcd(d2, d1)
        q1 = canon(sgn(rng, g1 * x), g2 * w); q2 = canon(sgn(rng, g1 * u), g2 * y)
    else:       # gcd1 = gcd(n1, d2), gcd2 = gcd(n2, d1)
        q1 = canon(sgn(rng, g1 * x), g2 * w); q2 = canon(sgn(rng, g2 * u), g1 * y)
    return q1, q2

def q3(op, mode, q1, q2):
    return "%s %x %s %s %s %s" % (op, mode, hx(q1[0]), hx(q1[1]), hx(q2[0]), hx(q2[1]))
def q2(op, mode, q, *rest):
    return " ".join(["%s %x %s %s" % (op, mode, hx(q[0]), hx(q[1]))] + [hx(r) for r in rest])

CNTS = [0, 1, 2, 31, 32, 62, 63, 64, 65, 66, 127, 128, 129, 191, 192, 193, 1000]

def gen_ops(rng, tier, ctx=None):
    N = 1 if tier == "quick" else 6
    # fixed corner cases first
    Z, ONE, MONE = (0, 1), (1, 1), (-1, 1)
    small = [Z, ONE, MONE, (1, 2), (-1, 2), (3, 2), (2, 3), (-2, 3), (1, B), (B, 1), (-B, 1), (1, B * B), (B - 1, B), (B + 1, B), (M, 2), (1 << 63, 3)]
    for a in small:
        for b in small:
            for op in ("mpq_add", "mpq_sub", "mpq_mul", "mpq_div"):
                for mode in range(5):
                    yield q3(op, mode, a, a if mode >= 3 else b)
        for mode in (0, 1):
            for op in ("mpq_inv", "mpq_neg", "mpq_abs", "mpq_set"):
                yield q2(op, mode, a)
            for c in CNTS:
                yield q2("mpq_mul_2exp", mode, a, c); yield q2("mpq_div_2exp", mode, a, c)
    # Henrici branches
    for _ in range(900 * N):
        issub = rng.random() < 0.5
        a, b = henrici(rng, tier, issub)
        op = "mpq_sub" if issub else "mpq_add"
        for mode in (0, 1, 2):
            yield q3(op, mode, a, b)
        yield q3("mpq_add" if issub else "mpq_sub", rng.choice([0, 1, 2]), a, b)
        yield q3(op, 3, a, a); yield q3(op, 4, a, a)
    # cross-cancellation
    for _ in range(900 * N):
        isdiv = rng.random() < 0.5
        a, b = cross(rng, tier, isdiv)
        op = "mpq_div" if isdiv else "mpq_mul"
        for mode in (0, 1, 2):
            yield q3(op, mode, a, b)
        yield q3("mpq_mul" if isdiv else "mpq_div", rng.choice([0, 1, 2]), a, b)
        yield q3(op, 3, a, a); yield q3(op, 4, a, a)
        yield q3(op, rng.choice([0, 1, 2]), a, (a[0], a[1]))          # equal values in distinct variables
        if a[0]: yield q3(op, rng.choice([0, 1, 2]), a, canon(a[1], a[0]))   # reciprocal
    # free mixture of kinds
    for _ in range(1500 * N):
        a, b = rand_q(rng, tier), rand_q(rng, tier)
        op = rng.choice(["mpq_add", "mpq_sub", "mpq_mul", "mpq_div"])
        mode = rng.randrange(5)
        yield q3(op, mode, a, a if mode >= 3 else b)
    # one-operand functions
    for _ in range(1200 * N):
        a = rand_q(rng, tier)
        for mode in (0, 1):
            yield q2(rng.choice(["mpq_inv", "mpq_neg", "mpq_abs", "mpq_set"]), mode, a)
            c = rng.choice(CNTS + [rng.randrange(0, 300)])
            yield q2(rng.choice(["mpq_mul_2exp", "mpq_div_2exp"]), mode, a, c)
    # 2exp: power-of-two content placed against the shift count (limb skipping, partial last limb)
    for _ in range(900 * N):
        k = rng.choice([0, 1, 5, 63, 64, 65, 100, 127, 128, 129, 192, 200, 256, 1000])
        c = rng.choice([k, k + 1, max(k - 1, 0), k + 64, max(k - 64, 0), (k // 64) * 64, k % 64] + CNTS)
        odd = pos(rng, rng.randrange(1, 4)) | 1
        other = pos(rng, limbsize(rng, tier)) | 1
        a = canon(sgn(rng, other), odd << k); b = canon(sgn(rng, odd << k), other)
        mode = rng.randrange(2)
        yield q2("mpq_mul_2exp", mode, a, c); yield q2("mpq_div_2exp", mode, b, c)
        yield q2("mpq_mul_2exp", mode, b, c); yield q2("mpq_div_2exp", mode, a, c)
    # canonicalize: arbitrary pairs, den 0, negative den, common factors
    for _ in range(1500 * N):
        r = rng.random()
        g = some_g(rng, tier, rng.choice(GS))
        n = sgn(rng, pos(rng, limbsize(rng, tier))) if r > 0.1 else 0
        d = sgn(rng, pos(rng, limbsize(rng, tier))) if rng.random() > 0.05 else 0
        if rng.random() < 0.2: d = sgn(rng, g); n = n * g
        if rng.random() < 0.2: n = sgn(rng, g); d = d * g if d else d
        yield "mpq_canonicalize %s %s" % (hx(n * g), hx(d * g))
    for n in (0, 1, -1, 6, -6):
        for d in (0, 1, -1, 4, -4, B, -B):
            yield "mpq_canonicalize %s %s" % (hx(n), hx(d))
    # setters
    LONGS = [0, 1, -1, 2, (1 << 63) - 1, -(1 << 63), -(1 << 63) + 1, 1 << 32, -(1 << 31)]
    ULONGS = [0, 1, 2, M, 1 << 63, (1 << 63) - 1, 1 << 32]
    for _ in range(500 * N):
        q0 = rand_q(rng, tier)
        z = rand_int(rng, rng.choice([1, 2, 6, 30]))
        yield "mpq_set_z %s %s %s" % (hx(q0[0]), hx(q0[1]), hx(z))
        yield "mpq_set_num %s %s %s" % (hx(q0[0]), hx(q0[1]), hx(z))
        yield "mpq_set_den %s %s %s" % (hx(q0[0]), hx(q0[1]), hx(z))
        n = rng.choice(LONGS + [rng.getrandbits(63), -rng.getrandbits(63)])
        d = rng.choice(ULONGS + [rng.getrandbits(64)])
        yield "mpq_set_si %s %s %s %s" % (hx(q0[0]), hx(q0[1]), hx(n), hx(d))
        n = rng.choice(ULONGS + [rng.getrandbits(64)])
        yield "mpq_set_ui %s %s %s %s" % (hx(q0[0]), hx(q0[1]), hx(n), hx(d))
        a, b = rand_q(rng, tier), rand_q(rng, tier)
        yield q3("mpq_swap", 0, a, b); yield q3("mpq_swap", 1, a, a)
        yield "mpq_get_num %s %s %s" % (hx(a[0]), hx(a[1]), hx(z)); yield "mpq_get_den %s %s %s" % (hx(b[0]), hx(b[1]), hx(z))
    # set_d: every class of double
    def dbl(s, e, f): return (s << 63) | (e << 52) | f
    F = [0, 1, 2, 3, (1 << 52) - 1, 1 << 51, (1 << 51) + 1, 1 << 20, 1 << 11, 1 << 12, (1 << 52) - 2]
    E = [0, 1, 2, 52, 53, 958, 959, 960, 1021, 1022, 1023, 1024, 1025, 1074, 1075, 1076, 1085, 1086, 1087, 1088, 1150, 1151, 1152, 2045, 2046, 2047]
    for e in E:
        for f in F:
            for s in (0, 1):
                yield "mpq_set_d 0 1 %x" % dbl(s, e, f)
    for _ in range(800 * N):
        q0 = rand_q(rng, tier, "small")
        e = rng.choice([rng.randrange(0, 2048), rng.randrange(1023 - 140, 1023 + 140), rng.choice(E)])
        f = rng.choice([rng.getrandbits(52), rng.getrandbits(52) >> rng.randrange(52) << rng.randrange(30), rng.choice(F)]) & ((1 << 52) - 1)
        yield "mpq_set_d %s %s %x" % (hx(q0[0]), hx(q0[1]), dbl(rng.getrandbits(1), e, f))

    # set_f: low zero limbs, odd/even low limb, radix point right of / inside / left of the limbs
    for _ in range(800 * N):
        n = rng.randrange(1, 7)
        l = rand_limbs(rng, n, rng.choice(["uniform", "runs", "sparse", "onebit", "top", "ones"]))
        for i in range(rng.choice([0, 0, 1, 2, n - 1])):
            if i < n - 1: l[i] = 0
        if l[-1] == 0: l[-1] = rng.getrandbits(64) | 1
        k = next(i for i, x in enumerate(l) if x)
        r = rng.random()
        if r < 0.3: l[k] |= 1
        elif r < 0.6: l[k] = ((l[k] >> rng.randrange(1, 64) << rng.randrange(1, 64)) & M) or (1 << rng.randrange(1, 64))
        if l[-1] == 0: l[-1] = 1
        e = rng.choice([n, n + 1, n + 3, n - 1, n - k, n - k - 1, 1, 0, -1, -3, rng.randrange(-6, 10)])
        q0 = rand_q(rng, tier, "small")
        yield "mpq_set_f %s %s %s %s %s" % (hx(q0[0]), hx(q0[1]), rng.choice(["1", "-1"]), vec(l), hx(e))
    yield "mpq_set_f 3 2 1 [] 0"

def nontrivial(line):
    return line if line.startswith("mpq_") else None

# source pins: the C the Lean model mirrors (see tools/pins.py)
PINS = [('mpq/aors.c', None), ('mpq/mul.c', None), ('mpq/div.c', None), ('mpq/inv.c', None), ('mpq/neg.c', None), ('mpq/abs.c', None), ('mpq/canonicalize.c', None), ('mpq/set.c', None), ('mpq/set_z.c', None), ('mpq/set_si.c', None), ('mpq/set_ui.c', None), ('mpq/set_num.c', None), ('mpq/set_den.c', None), ('mpq/swap.c', None), ('mpq/equal.c', None), ('mpq/md_2exp.c', None), ('mpq/set_d.c', None), ('mpq/set_f.c', None)]
