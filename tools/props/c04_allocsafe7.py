"""C04 part allocsafe7: the mpf functions on a destination that is NEVER reallocated.  An mpf_t owns a block of PREC + 1 limbs (mpf/init2.c);
no mpf function can grow it, so every store through r->_mp_d must stay inside it whatever the operands look like — operands longer than the
destination's precision, and (after mpf_set_prec_raw, i.e. in the aliased calls f (r, r)) an object longer than its own PREC + 1.
lean/Mpir/Model/AllocSafeMpf7.lean has index-checked mirrors (every load and store names block, offset and count; leaving the block clears `ok`)
of mpf/set.c, set_ui.c, set_si.c, set_z.c, mul_ui.c (the carry-in scan over the dropped limbs, the unconditional store `rp[size] = cy_limb`)
mul_2exp.c / div_2exp.c (whole-limb copy arm with `prec++`, the mpn_rshift path `rp + 1` / `rp[0] = cy_limb` / read-back of rp[abs_usize], the mpn_lshift path)
and add.c for operands of equal sign (exponent swap, the two cuts to `prec` limbs, `ediff >= prec` early copy with its `rp != up` test, the three
alignments into the TMP area of `prec` limbs, `rp[rsize] = cy`), and of mpf/neg.c and mpf/sub.c: zero operands and operands of different sign index-checked (mpf_neg, mpf_set, the equal-sign path of add.c), the
equal-sign path of sub.c (also reached from mpf_add with different signs) at STORE level — exactly the |SIZ| result limbs of C13's Mpf.subMag at rp[0, |SIZ|), operand loads
inside their |SIZ| limbs; its TMP traffic is not index-checked (theorem `mpf_sub_dest_safe_partial` says so).  Theorems
`<fn>_dest_safe` (lean/MpirProofs/Props/C04_allocsafe7.lean).  Ops `as7_*` (harness/ops_allocsafe7.c) build every object by hand: destination
block of EXACTLY PREC + 1 limbs between guard limbs, operands in blocks of exactly their length, all alias modes; SIZ, EXP and the WHOLE
destination block are compared with the model's."""
from genlib import *

LEAN_MODULES = ["MpirProofs.Props.C04_allocsafe7"]
THEOREMS = ["Mpir.AllocSafe7." + t for t in (
    "mpf_set_dest_safe", "mpf_set_ui_dest_safe", "mpf_set_si_dest_safe", "mpf_set_z_dest_safe", "mpf_mul_ui_dest_safe", "mpf_add_dest_safe", "mpf_add_dest_wf", "mpf_mul_2exp_dest_safe", "mpf_div_2exp_dest_safe", "mpf_sub_dest_safe_partial")]
TRUSTED = ["hand-written index-checked models lean/Mpir/Model/AllocSafeMpf7.lean (mpf/set.c, set_ui.c, set_si.c, set_z.c, mul_ui.c, add.c, mul_2exp.c, div_2exp.c; "
           "mpn_lshift / mpn_rshift at value level: the n + 1 limbs of up * 2^k as in Mpf.shiftUp; "
           "mpn_add / mpn_mul_1 + carry-in at value level as in the C13 model Mpir/Model/Mpf.lean; MPN_COPY_INCR with rp <= up = all loads, then all stores), "
           "tied by exact comparison of SIZ, EXP and the whole destination block (guard limbs around it) in every alias mode, and by source pins"]
ASSUMPTIONS = ["mpf/sub.c:65-410 stores through rp only by the MPN_COPYs of :122, :286, :297, :309, :402 (exactly the result limbs at rp[0, rsize)); its TMP area of PREC + 1 limbs is not index-checked",
               "mpn_rshift (rp + 1, up, n, c) stores exactly rp[1, n] and mpn_lshift (rp, up, n, c) exactly rp[0, n) (C03 kernels); with rp <= up the incrementing mpn_rshift and, in place, the decrementing mpn_lshift read every limb before overwriting it",
               "mpn_add (rp, xp, xn, yp, yn) stores exactly xn limbs, mpn_mul_1 / mpn_add_1 exactly n limbs (C01/C03 kernels)",
               "the carry-in scan of mpf/mul_ui.c:132-154 is checked as a load of up[0, excess) (it loads a suffix of that range)"]
RULE = ("allocsafe7: destination precision 1..6 limbs, operand lengths 0, 1, prec-1, prec, prec+1, prec+2, prec+5 (longer than the destination, and in "
        "the aliased calls longer than the object's own PREC + 1), all-ones operands (carry limb stored at rp[size] / rp[rsize]), low zero limbs, "
        "mpf_add: exponent difference 0, 1, usize-1, usize, usize+1, prec-1, prec, prec+1, large, either operand the larger exponent, a zero operand, "
        "alias modes r==u, r==v, u==v, r==u==v; mpf_sub / mpf_add with every sign combination: k equal high limbs then a differing one, one operand a prefix of the other, x+1 000.. / x fff.. and 1 000.. / 0 fff.. neighbours, one-ulp neighbours, u == v, low zero limbs, exponent differences around PREC + 1; mul_2exp/div_2exp: counts 0, 1, 63, 64, 65, multiples of 64, operand longer than prec (rshift path) or not (lshift path, carry limb zero / non-zero), r==u; mul_ui: v = 0, 1, 2^64-1, 2^63, carries propagating out of the dropped limbs")

PINS = [("mpf/sub.c", None), ("mpf/neg.c", None), ("mpf/mul_2exp.c", None), ("mpf/div_2exp.c", None), ("mpf/set.c", None), ("mpf/set_ui.c", None), ("mpf/set_si.c", None), ("mpf/set_z.c", None), ("mpf/mul_ui.c", None), ("mpf/add.c", None)]

def limbs(rng, n):
    """n limbs, top non-zero, special shapes on purpose"""
    if n == 0: return []
    c = rng.randrange(8)
    if c == 0: l = [M] * n
    elif c == 1: l = [0] * (n - 1) + [rng.choice([1, M, 1 << 63])]
    elif c == 2: l = [M] * (n - 1) + [rng.choice([1, M])]
    elif c == 3: l = [rng.choice([0, M, 1, M - 1]) for _ in range(n)]
    elif c == 4: l = [0] * (n // 2) + [rng.getrandbits(64) for _ in range(n - n // 2)]
    else: l = [rng.getrandbits(64) for _ in range(n)]
    if l[-1] == 0: l[-1] = rng.choice([1, M, rng.getrandbits(64) | 1])
    return l

def prec_(rng): return rng.choice([1, 2, 2, 3, 3, 4, 5, 6])

def length(rng, p):
    return max(0, rng.choice([0, 1, p - 1, p, p, p + 1, p + 1, p + 2, p + 5, rng.randrange(0, p + 8)]))

def expo(rng):
    return rng.choice([0, 1, -1, 2, 5, -7, 1 << 40, -(1 << 40), rng.randrange(-20, 20)])

def opnd(rng, n, sign=None):
    d = limbs(rng, n)
    if n == 0: return "0 0 []", 0, 0
    e = expo(rng)
    s = rng.randrange(2) if sign is None else sign
    return "%x %s %s" % (s, hx(e), vec(d)), s, e

def gen_set(rng):
    p = prec_(rng)
    return "as7_set %x %x %s" % (rng.randrange(2), p, opnd(rng, length(rng, p))[0])

def gen_set_ui(rng):
    return "as7_set_ui %x %x" % (prec_(rng), rng.choice([0, 1, M, 1 << 63, rng.getrandbits(64)]))

def gen_set_si(rng):
    return "as7_set_si %x %s" % (prec_(rng), hx(rng.choice([0, 1, -1, (1 << 63) - 1, -(1 << 63), rng.getrandbits(63), -rng.getrandbits(63)])))

def gen_set_z(rng):
    p = prec_(rng)
    n = length(rng, p)
    z = sum(x << (64 * i) for i, x in enumerate(limbs(rng, n)))
    return "as7_set_z %x %x %s" % (p, max(n, 1) + rng.choice([0, 0, 1, 3]), hx(z * rng.choice([1, -1])))

def gen_mul_ui(rng):
    p = prec_(rng)
    n = length(rng, p)
    v = rng.choice([0, 1, 1, 2, M, M, 1 << 63, (1 << 63) + 1, rng.getrandbits(64), rng.getrandbits(32)])
    return "as7_mul_ui %x %x %s %x" % (rng.randrange(2), p, opnd(rng, n)[0], v)

def gen_2exp(rng):
    """mpf_mul_2exp / mpf_div_2exp: whole-limb counts (copy arm, one more limb kept), bit counts 1, 63 (carry limb zero / non-zero), operand longer
    than prec (mpn_rshift path) and not (mpn_lshift path), r == u"""
    p = prec_(rng)
    n = length(rng, p)
    k = rng.choice([0, 1, 1, 63, 63, 64, 65, 127, 128, rng.randrange(0, 300), 64 * rng.randrange(0, 5)])
    return "as7_%s_2exp %x %x %s %x" % (rng.choice(["mul", "div"]), rng.randrange(2), p, opnd(rng, n)[0], k)

def gen_add(rng):
    p = prec_(rng)
    m = rng.choice([0, 0, 0, 1, 1, 2, 2, 3, 4])
    nu = length(rng, p); nv = length(rng, p)
    if rng.random() < 0.85: nu = max(nu, 1); nv = max(nv, 1)
    du = limbs(rng, nu); dv = limbs(rng, nv)
    s = rng.randrange(2)
    eu = expo(rng) if nu else 0
    ed = rng.choice([0, 0, 1, nu - 1, nu, nu + 1, p - 1, p, p + 1, p - nv, p - nv + 1, nu - nv, nu - nv + 1, nu - nv - 1, p + 7, 1 << 33, rng.randrange(0, p + 3)])
    ed = max(ed, 0) * rng.choice([1, 1, -1])
    ev = eu - ed if nv else 0
    if nu == 0: s_u = 0
    else: s_u = s
    s_v = s if nv else 0
    return "as7_add %x %x %x %s %s %x %s %s" % (m, p, s_u, hx(eu), vec(du), s_v, hx(ev), vec(dv))

def gen_sub(rng):
    """mpf_sub / mpf_add with every sign combination, directed at the cancellation paths of mpf/sub.c: equal exponents and k equal high limbs
    (the scan), then a differing limb (either operand larger), one operand a prefix of the other (`usize == 0` / `vsize == 0` -> cancellation:),
    x+1 000... / x fff... neighbours and exponent difference 1 with 1 000... / 0 fff... (the close path, TMP extent usize + 1), v a one-ulp
    neighbour of u, complete cancellation (u == v), operands longer than the precision, low zero limbs (the strip loops), exponent
    differences around prec = PREC + 1"""
    p = prec_(rng)
    op = rng.choice(["as7_sub", "as7_sub", "as7_add"])
    m = rng.choice([0, 0, 0, 1, 1, 2, 2, 3, 4])
    c = rng.randrange(10)
    nu = max(1, length(rng, p)); nv = max(1, length(rng, p))
    du = limbs(rng, nu); dv = limbs(rng, nv)
    eu = expo(rng); ed = 0
    if c == 0:      # k equal high limbs then a differing one
        k = rng.randrange(1, min(nu, nv) + 1)
        dv[nv - k:] = du[nu - k:]
        if k < min(nu, nv): dv[nv - k - 1] = (du[nu - k - 1] + rng.choice([1, -1, 2, 1 << 63])) % B
    elif c == 1:    # one operand is the top part of the other
        k = min(nu, nv); dv[nv - k:] = du[nu - k:]
        if rng.random() < 0.5 and nv > k: dv[: nv - k] = [0] * (nv - k - 1) + [rng.choice([0, 1])]
    elif c == 2:    # x+1 000... / x fff...
        x = rng.getrandbits(63) + 1
        z = rng.randrange(0, nu); f = rng.randrange(0, nv)
        du = limbs(rng, nu - 1 - z) + [0] * z + [x + 1] if nu - 1 - z > 0 else [0] * (nu - 1) + [x + 1]
        dv = limbs(rng, nv - 1 - f) + [M] * f + [x] if nv - 1 - f > 0 else [M] * (nv - 1) + [x]
        nu = len(du); nv = len(dv)
    elif c == 3:    # ediff 1: 1 000... / 0 fff...
        z = rng.randrange(0, nu)
        du = (limbs(rng, nu - 1 - z) if nu - 1 - z > 0 else []) + [0] * min(z, nu - 1) + [1]
        dv = (limbs(rng, nv - 1 - min(z, nv - 1)) if nv - 1 - min(z, nv - 1) > 0 else []) + [M] * min(z + 1, nv)
        du = du[-nu:]; dv = dv[-nv:] if dv[-1] else [M]
        nu = len(du); nv = len(dv); ed = 1
    elif c == 4:    # one-ulp neighbour
        dv = list(du); nv = nu
        i = 0
        dv[0] = (dv[0] + rng.choice([1, -1])) % B
        if dv[-1] == 0: dv[-1] = 1
    elif c == 5:    # identical
        dv = list(du); nv = nu
    else:
        ed = rng.choice([0, 1, 1, 2, nu - 1, nu, nu + 1, p - 1, p, p + 1, p + 2, p + 1 - nv, p + 2 - nv, nu - nv, 1 << 33, rng.randrange(0, p + 4)])
        ed = max(ed, 0)
    if rng.random() < 0.5: ed = -ed
    su = rng.randrange(2); sv = rng.randrange(2) if c >= 6 and rng.random() < 0.4 else (su if op == "as7_sub" else 1 - su)
    if rng.random() < 0.05: du = []; su = 0; eu = 0
    if rng.random() < 0.05: dv = []; sv = 0
    ev = (eu - ed) if dv else 0
    if not du: eu = 0
    return "%s %x %x %x %s %s %x %s %s" % (op, m, p, su, hx(eu), vec(du), sv, hx(ev), vec(dv))

def gen_ops(rng, tier, ctx=None):
    n = 700 if tier == "quick" else 20000
    for _ in range(n):
        yield gen_set(rng)
        yield gen_mul_ui(rng)
        yield gen_add(rng)
        yield gen_add(rng)
        yield gen_2exp(rng)
        yield gen_sub(rng)
        yield gen_sub(rng)
        if _ % 2 == 0: yield gen_set_z(rng)
        if _ % 4 == 1: yield gen_set_ui(rng)
        if _ % 4 == 3: yield gen_set_si(rng)

def nontrivial(line):
    return line if line.startswith("as7_") else None
