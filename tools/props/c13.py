"""C13 — main module (parts: c13_*.py are merged automatically)."""
LEVEL = "proof"
LEAN_MODULES = []
THEOREMS = []
TRUSTED = []
ASSUMPTIONS = []
LEVEL_TEXT = "Lean theorems on the bit-exact mpf model: format invariant preserved over histories, exact functions exact, mpf_mul/add/sub/div/sqrt error < 2^(2-p) relative and exact when representable. The driver also evaluates the property's own predicate exactly in rationals on the implementation's output."
LEVEL_NOTE = 'get_str/set_str accuracy by correspondence; any sub-case left partial is named in the proof file.'
PLACEHOLDER = True
