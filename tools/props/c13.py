"""C13 — main module (parts: c13_*.py are merged automatically)."""
LEVEL = "proof"
LEAN_MODULES = []
THEOREMS = []
TRUSTED = []
ASSUMPTIONS = []
LEVEL_TEXT = "Lean theorems on the bit-exact mpf model: format invariant preserved over histories, exact functions exact, mpf_mul/add/sub/div/sqrt error < 2^(2-p) relative and exact when representable. The driver also evaluates the property's own predicate exactly in rationals on the implementation's output."
LEVEL_NOTE = "mpf_get_str accuracy is proved under side conditions (`adequate`: the binary64 size estimates of get_str.c; its first conjunct is known to fail for digit counts above 2*10^8, i.e. operands of ~100 MB) that the driver evaluates on every line; the accepted input language of mpf_set_str is a declarative left-to-right grammar proved equal to the scanner model (parse_iff, parse_value) and tied to the C by accept/reject comparison on grammar-generated and mutated strings; the grammar is an executable recogniser, not an inductive predicate; mpf_pow_ui is not named by the property."
PLACEHOLDER = True
