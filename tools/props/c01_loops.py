"""C01 (part: combining loops of mpn_mul) — the chunk loop (mul.c:108-137, un > MUL_BASECASE_MAX_UN, vn < MUL_KARATSUBA_THRESHOLD)
and the slide loop (mul.c:210-277, very unbalanced operands).  The ops `mpn_mul_chunkmodel` / `mpn_mul_model` are answered by
the LIMB-LEVEL model of lean/Mpir/Model/MulLoops.lean (the object of the theorems), `mpn_mul` by Nat multiplication."""
import os, sys
sys.path.insert(0, os.path.dirname(os.path.dirname(os.path.abspath(__file__))))
from genlib import *
import gen_params

LEAN_MODULES = ["MpirProofs.Props.C01_loops"]
THEOREMS = [
    "Mpir.MulLoops.chunk_addback_safe", "Mpir.MulLoops.chunk_prefix_exact", "Mpir.MulLoops.mul_chunked_basecase_exact",
    "Mpir.MulLoops.slide_accum_exact", "Mpir.MulLoops.mul_slide_loop_exact", "Mpir.MulLoops.basecase_is_MulNExact",
    "Mpir.MulLoops.mpn_mul_n_model_exact", "Mpir.MulLoops.mpn_mul_val_partial2",
]
PINS = [("mpn/generic/mul.c", "mpn_mul"), ("gmp-impl.h", "mpn_incr_u")]
TRUSTED = ["hand-written limb-level model of the two combining loops of mpn_mul, lean/Mpir/Model/MulLoops.lean (pinned to mul.c:mpn_mul; "
           "answers the ops mpn_mul_chunkmodel / mpn_mul_model against the real mpn_mul on every check)"]
ASSUMPTIONS = ["mpn_mul_val_partial2 covers the (un, vn) whose generated dispatch trace uses basecase / Karatsuba / Toom-3 / 3.2 / 4.2 / 4 / 5.3, the chunk loop and the "
               "slide loop; mpn_toom8h_mul, mpn_mul_fft_main (also inside mpn_mul_n) and the squaring path up == vp stay run-only; inside the covered "
               "Karatsuba/Toom callees the limb-level carry bookkeeping is run-only (their models are value level)"]
RULE = ("loops: un in {M+1, 2M-1, 2M, 2M+1, 3M-1, 3M, 3M+1, 5M} (M = MUL_BASECASE_MAX_UN) x vn in {1, 2, 8, 16, KAR-1}: u, v all ones; u all ones with one zero limb "
        "at 0 / M-1 / M / M+vn-1 / M+vn / un-1; v = B^vn-2, B^vn-B+1; operands built backwards so that the add-back carry of every second chunk ripples "
        "through all M-1 limbs above it (chunk c with c*(B^vn-1) = B^(M+vn-1) - 1 - ... , preceded by an all-ones chunk); random; each as mpn_mul and mpn_mul_chunkmodel. "
        "Slide loop: vn in [KAR, TOOM8H) with vn <= ceil(un/4) (q*vn + r, r in {0, 1, vn/2, vn-1}) and un+vn < 2*TOOM3 (immediate and repeated swaps), "
        "data all ones / B^k-2 / runs / random, plus sizes (3k, 2k) with data searched (value-level mirror of the loop) so that a carry stays pending in t, "
        "t == 2 reaches mpn_add_1 and a carry leaves the window in the l > 2vn branch; as mpn_mul and mpn_mul_model")

_cache = {}
def _thresholds(ctx):
    b = getattr(ctx, "build", None) if ctx is not None else None
    if b is None:
        import vlib; b = vlib.get_build("plain")
    if b not in _cache:
        names, vals, fft_tab, mm_tab, _ = gen_params.collect(b)
        _cache[b] = vals
    return _cache[b]

def _val(l):
    v = 0
    for i, x in enumerate(l): v |= x << (64 * i)
    return v

def worst_chunk(m, vn):
    """m-limb chunk c (m > vn) with c*(B^vn - 1) = (B^(vn-1)*B^(m-vn) - 1)*B^vn + (B^vn - c_lo): the limbs [vn, m+vn-1) of the chunk
    product are all ones and its low vn limbs are B^vn - c_lo, c_lo = B^e.  Added to a saved triangle >= c_lo the carry out of the low
    vn limbs ripples through the m - 1 limbs above (everything but the top limb of the chunk product)."""
    if m <= vn: return [M] * m
    j = B ** (vn - 1)
    mod = B ** vn - 1
    c_lo = (j * B ** ((m - vn) % vn)) % mod
    if c_lo == 0: c_lo = mod
    num = j * B ** (m - vn) - c_lo
    assert num % mod == 0
    c_hi = num // mod
    assert 0 <= c_hi < B ** (m - vn)
    c = c_hi * B ** vn + c_lo
    p = c * mod
    assert (p >> (64 * vn)) == j * B ** (m - vn) - 1 and p % B ** vn == B ** vn - c_lo
    return limbs_of(c, m)

def worst_u(un, vn, mx):
    """all-ones chunks alternating with worst chunks (the last piece is a worst chunk of its own length when it follows an all-ones chunk)"""
    out, i, k = [], 0, 0
    while un - i > mx:
        out += [M] * mx if k % 2 == 0 else worst_chunk(mx, vn)
        i += mx; k += 1
    out += [M] * (un - i) if k % 2 == 0 else worst_chunk(un - i, vn)
    return out

def slide_stats(u, v, KT):
    """value-level mirror of mul.c:210-277 on limb lists; returns the set of rare events it meets:
    "A2c" (l == 2vn with a carry, so t stays pending), "A3c" (l > 2vn, carry out of the window), "t2" (t == 2 enters mpn_add_1 at :240),
    "tfin" (t pending into the last piece).  Used to pick data for the directed slide-loop cases."""
    ev = set()
    Bp = lambda k: 1 << (64 * k)
    un, vn, U, V = len(u), len(v), _val(u), _val(v)
    w = ((U % Bp(vn)) * V) >> (64 * vn); l = vn; U >>= 64 * vn; un -= vn; t = 0
    if un < vn: U, V, un, vn = V, U, vn, un
    while vn >= KT and vn > 0:
        ws = (U % Bp(vn)) * V
        if l <= 2 * vn:
            s = w + ws % Bp(l); c = s >> (64 * l); s %= Bp(l); t += c
            if l != 2 * vn:
                if t == 2: ev.add("t2")
                h = (ws >> (64 * l)) + t; t = h >> (64 * (2 * vn - l)); w = s + ((h % Bp(2 * vn - l)) << (64 * l)); l = 2 * vn
            else:
                w = s
                if c: ev.add("A2c")
        else:
            s = (w % Bp(2 * vn)) + ws; c = s >> (128 * vn); h = (w >> (128 * vn)) + c; c2 = h >> (64 * (l - 2 * vn)); t += c2
            if c2: ev.add("A3c")
            w = (s % Bp(2 * vn)) + ((h % Bp(l - 2 * vn)) << (128 * vn))
        w >>= 64 * vn; l -= vn; U >>= 64 * vn; un -= vn
        if un < vn: U, V, un, vn = V, U, vn, un
    if vn and t: ev.add("tfin")
    return ev

def gen_ops(rng, tier, ctx=None):
    T = _thresholds(ctx)
    KAR, T3, T8, MX = T["MUL_KARATSUBA_THRESHOLD"], T["MUL_TOOM3_THRESHOLD"], T["MUL_TOOM8H_THRESHOLD"], T["MUL_BASECASE_MAX_UN"]
    FFT = T["MUL_FFT_FULL_THRESHOLD"]
    thorough = tier == "thorough"
    def both(op2, u, v):
        yield "mpn_mul %s %s" % (vec(u), vec(v))
        yield "%s %s %s" % (op2, vec(u), vec(v))
    # ---- (A) chunk loop
    uns = [MX + 1, 2 * MX - 1, 2 * MX, 2 * MX + 1, 3 * MX - 1, 3 * MX, 3 * MX + 1, 5 * MX]
    vns = sorted(set(x for x in (1, 2, 8, 16, KAR - 1) if 1 <= x < KAR and x <= MX))
    if thorough:
        uns += [MX + 2, MX + KAR - 1, MX + KAR, 2 * MX + KAR - 2, 4 * MX, 4 * MX + 1, 7 * MX + 3]
        vns = sorted(set(vns + [3, 4, 5, 7, 10, KAR - 2]) & set(range(1, KAR)))
    for un in uns:
        for vn in vns:
            ones_u, ones_v = [M] * un, [M] * vn
            yield from both("mpn_mul_chunkmodel", ones_u, ones_v)
            for hole in sorted(set(h for h in (0, MX - 1, MX, MX + vn - 1, MX + vn, un - 1) if 0 <= h < un)):
                if not thorough and rng.random() < 0.5: continue
                u = list(ones_u); u[hole] = 0
                yield from both("mpn_mul_chunkmodel", u, ones_v)
            for v in (B ** vn - 2, B ** vn - B + 1 if vn > 1 else 1, (B ** vn - 1) ^ (1 << rng.randrange(64 * vn))):
                if v > 0: yield from both("mpn_mul_chunkmodel", ones_u, limbs_of(v, vn))
            wu = worst_u(un, vn, MX)
            yield from both("mpn_mul_chunkmodel", wu, ones_v)
            yield from both("mpn_mul_chunkmodel", wu, limbs_of(B ** vn - 2, vn))
            wu2 = list(wu); wu2[rng.randrange(un)] ^= 1 << rng.randrange(64)
            yield from both("mpn_mul_chunkmodel", wu2, ones_v)
            for cls in (("uniform", "runs") if not thorough else ("uniform", "runs", "sparse", "uniform", "runs")):
                u = rand_limbs(rng, un, cls); v = rand_limbs(rng, vn, cls)
                u[-1] |= 1; v[-1] |= 1
                yield from both("mpn_mul_chunkmodel", u, v)
    # the same path through the dispatching model
    for un, vn in ((MX + 1, 1), (2 * MX + 1, KAR - 1), (3 * MX, 2)):
        if vn >= 1: yield "mpn_mul_model %s %s" % (vec(worst_u(un, vn, MX)), vec([M] * vn))
    # ---- (B) slide loop (covered sizes only: every mpn_mul_n it calls is below MUL_TOOM8H_THRESHOLD, no FFT)
    pairs = set()
    vcands = [KAR, KAR + 1, 20, 33, 64, T3 - 1, T3, 150, T8 - 1]
    if thorough: vcands += [KAR + 2, 25, 48, 127, 128, 200]
    for vn in vcands:
        if not (KAR <= vn < T8): continue
        for q in ((4, 5, 7) if not thorough else (4, 5, 6, 7, 9)):
            for r in (0, 1, vn // 2, vn - 1):
                un = q * vn + r
                if vn <= (un + 3) // 4 and un + vn < 2 * FFT: pairs.add((un, vn))
    for un, vn in ((40, 17), (35, 18), (18, 17), (50, 30), (100, 60), (120, 70), (100, 95), (97, 96), (150, 40), (2 * T3 - KAR - 1, KAR)):
        if KAR <= vn < un and un + vn < 2 * T3 and vn < T8: pairs.add((un, vn))
    for un, vn in sorted(pairs):
        datas = [([M] * un, [M] * vn), ([M] * un, limbs_of(B ** vn - 2, vn)), (limbs_of(B ** un - 2, un), [M] * vn)]
        datas.append((rand_limbs(rng, un, "runs"), rand_limbs(rng, vn, "runs")))
        datas.append((rand_limbs(rng, un, "uniform"), rand_limbs(rng, vn, "uniform")))
        if not thorough and un + vn > 600: datas = [datas[0], datas[rng.randrange(1, 5)]]
        for u, v in datas:
            yield from both("mpn_mul_model", u, v)
    # directed: sizes (3k, 2k) reach l == 2*vn after the first swap; search for data where the carry stays pending in t and meets a
    # second carry at the same place (t == 2 handed to mpn_add_1), and where a carry leaves the window in the l > 2*vn branch
    for un, vn in ((3 * KAR, 2 * KAR), (60, 40), (90, 60), (114, 76), (100, 60), (5 * KAR + 3, 2 * KAR + 1)):
        if not (KAR <= vn < un and un + vn < 2 * T3 and vn < T8): continue
        want = {"t2": 2, "A2c": 1, "A3c": 1, "tfin": 1}
        for _ in range(400 if not thorough else 1500):
            if not any(want.values()): break
            u = rand_limbs(rng, un, rng.choice(["uniform", "runs"])); v = rand_limbs(rng, vn, rng.choice(["uniform", "runs"]))
            hit = [e for e in slide_stats(u, v, KAR) if want.get(e, 0) > 0]
            if hit:
                for e in hit: want[e] -= 1
                yield from both("mpn_mul_model", u, v)
    # ---- single calls through the dispatching model (basecase, mpn_mul_n, unbalanced Toom)
    for un, vn in ((1, 1), (7, 3), (KAR - 1, KAR - 1), (KAR, KAR), (MX, KAR - 1), (T3, T3), (200, 60), (200, 110), (200, 180), (300, 140), (T8 - 1, T8 - 1)):
        if 1 <= vn <= un:
            u = rand_limbs(rng, un, rng.choice(["uniform", "runs", "ones"])); v = rand_limbs(rng, vn, rng.choice(["uniform", "runs", "ones"]))
            yield "mpn_mul_model %s %s" % (vec(u), vec(v))

def nontrivial(line):
    op, _, rest = line.partition(" ")
    if op not in ("mpn_mul_chunkmodel", "mpn_mul_model"): return None
    a, _, b = rest.partition(" ")
    return "%s:%d:%d" % (op, a.count(",") + 1, b.count(",") + 1)
