"""C09 — integer roots, remainders, perfect-square / perfect-power tests (part merged into c09.py)."""
import os, sys, math
from genlib import *
sys.path.insert(0, os.path.dirname(os.path.dirname(os.path.abspath(__file__))))
from gen_sqrt_tabs import gen_sqrt_tabs

LEAN_MODULES = ["MpirProofs.Props.C09"]
THEOREMS = ["Mpir.Root.perfsqr_filters_sound", "Mpir.Root.perfect_square_p_iff", "Mpir.Root.sqrtrem_normalise_ok",
            "Mpir.Root.mpz_root_sign_flag", "Mpir.Root.sqrtrem1_spec", "Mpir.Root.sqrtrem2_spec'", "Mpir.Root.dc_sqrtrem_spec", "Mpir.Root.mpn_sqrtrem_spec",
            "Mpir.Root.mpn_perfect_square_p_spec", "Mpir.Root.mpz_sqrt_spec", "Mpir.Root.root_final_adjust",
            "Mpir.Root.perfect_power_p_iff_partial", "Mpir.Root.mpz_root_huge_index"]
GEN = [gen_sqrt_tabs]
TRUSTED = ["hand-written models lean/Mpir/Model/Root.lean: word level for mpn_sqrtrem1/2, mod_34lsub1 and the PERFSQR tests, "
           "value level for mpn_dc_sqrtrem, mpn_sqrtrem, mpn_rootrem(_basecase/_internal), mpz wrappers, perfpow.c "
           "(tied by correspondence on every run; carry/buffer bookkeeping inside value-level functions is not represented)",
           "translator tools/gen_sqrt_tabs.py (approx_tab, sq_res_0x100, PERFSQR_MOD_TEST constants after gcc -E, perfpow primes[])",
           "mpn_rootrem: the Newton iterations (rootrem.c, rootrem_basecase.c) are modelled and run differentially only; theorems about "
           "mpz_root/mpz_rootrem/mpz_perfect_power_p take the contract of mpn_rootrem (RootremSpec) as a hypothesis; "
           "only the final adjustment (root_final_adjust) and the root-is-1 exit (mpz_root_huge_index, unconditional for "
           "n >= bit length of |u|) are proved"]
ASSUMPTIONS = ["the driver answers with the specification (Nat.sqrt, bitwise iroot, exhaustive-exponent perfect-power search) and asserts "
               "model == specification on every op (`!modelspec`)",
               "mpn_sqrtrem1, mpn_sqrtrem2, mpn_dc_sqrtrem are static: reached through mpn_sqrtrem with 1, 2 and more limbs",
               "mpz_perfect_power_p: only soundness is proved (perfect_power_p_iff_partial); completeness is differential",
               "exceptions: errno.c __gmp_exception ignores its error_bit, so SQRT_OF_NEGATIVE and DIVIDE_BY_ZERO are both observed as SIGFPE (`!fpe`)",
               "repaired defects 4290b4f (huge root index on operands of >= 6 limbs) and f2f94e8 (mpn_perfect_square_p on unnormalised "
               "vectors) are exercised by the default generator and the corpus under a 20 s watchdog (`!hang`)"]
RULE = ("u = k^n-1, k^n, k^n+1 for all k < 2^12 (sampled in the quick tier) x n <= 70 incl. n = 2 through every sqrt/root/perfect-* entry point; "
        "large k with roots all-ones / 2^j / 2^j-1 / long one-runs; limb counts 1..40 odd and even then sparse to 2000 (thorough); "
        "every normalisation shift 0..63 of mpn_sqrtrem; n from 1 to beyond the bit length; negative u; 0, 1; "
        "non-squares passing every residue filter (CRT-constructed); all aliasing modes; root index 2^32, 2^44, 2^63, ULONG_MAX on operands of 5..40 limbs; "
        "mpn_perfect_square_p on vectors with 1-3 zero high limbs and all-zero vectors; distinct = distinct op lines")

FILTER_MODS = [256, 91, 85, 9, 97]          # informational: the CRT construction reads the moduli from the generated table

def _moduli(ctx):
    """moduli of the residue filters from the regenerated Lean table (falls back to the pinned ones)"""
    try:
        import re
        p = os.path.join(os.path.dirname(os.path.dirname(os.path.dirname(os.path.abspath(__file__)))), "lean", "Mpir", "Gen", "SqrtTabs.lean")
        ds = [int(x) for x in re.findall(r"\{ d := (\d+),", open(p).read())]
        if ds: return [256] + ds
    except Exception:
        pass
    return FILTER_MODS

def iroot(n, u):
    if u < 2: return u
    lo, hi = 1, 1 << (u.bit_length() // n + 1)
    while lo + 1 < hi:
        m = (lo + hi) // 2
        if m ** n <= u: lo = m
        else: hi = m
    return lo

def special_roots(rng, bits):
    """roots with structure: all ones, 2^j, 2^j - 1, 2^j + 1, long one-runs, uniform"""
    j = max(1, bits)
    yield (1 << j) - 1
    yield 1 << (j - 1)
    yield (1 << (j - 1)) + 1
    if j > 2: yield (1 << j) - (1 << rng.randrange(1, j))      # ones then zeros
    yield rrandomb(rng, j) | (1 << (j - 1))
    yield rng.getrandbits(j) | (1 << (j - 1))

def sqrt_ops(rng, u):
    """every square-root entry point on u >= 0"""
    yield "mpz_sqrt %d %s" % (rng.randrange(2), hx(u))
    yield "mpz_sqrtrem %d %s" % (rng.randrange(3), hx(u))
    yield "mpz_perfect_square_p %s" % hx(u)
    if u > 0:
        l = vec(limbs_of(u))
        yield "mpn_sqrtrem%s %s" % (rng.choice(["", "", "_ip", "_norem"]), l)
        yield "mpn_perfect_square_p %s" % l

def root_ops(rng, u, n, mpn=True):
    yield "mpz_root %d %s %x" % (rng.randrange(3), hx(u), n)
    r = rng.random()
    if r < 0.5: yield "mpz_rootrem %d %s %x" % (rng.randrange(3), hx(u), n)
    elif r < 0.75: yield "mpz_nthroot %d %s %x" % (rng.randrange(2), hx(u), n)
    if mpn and u > 0 and n >= 2:
        yield "mpn_rootrem%s %s %x" % (rng.choice(["", "_norem"]), vec(limbs_of(u)), n)

def around(v):
    return [v - 1, v, v + 1]

def crt(res, mods):
    x, m = 0, 1
    for r, d in zip(res, mods):
        g = math.gcd(m, d)
        assert g == 1
        t = ((r - x) * pow(m, -1, d)) % d
        x += m * t; m *= d
    return x, m

def pseudo_squares(rng, ctx, count):
    """non-squares that pass every residue filter: a square residue modulo each filter modulus (CRT over the
    pairwise coprime moduli 256 * 91 * 85 * 9 * 97 ...), lifted by multiples of the product"""
    mods = _moduli(ctx)
    for i in range(len(mods)):
        for j in range(i):
            if math.gcd(mods[i], mods[j]) != 1: return
    out = []
    tries = 0
    while len(out) < count and tries < 50 * count:
        tries += 1
        res = [pow(rng.randrange(d), 2, d) for d in mods]
        x, m = crt(res, mods)
        v = x + m * rng.getrandbits(rng.choice([8, 40, 64, 100, 200, 700]))
        if v > 1 and iroot(2, v) ** 2 != v: out.append(v)
    return out

def gen_ops(rng, tier, ctx=None):
    quick = tier == "quick"
    # ---- 0, 1, small values, exceptions
    for u in list(range(0, 70)) + [255, 256, 257, (1 << 32) - 1, 1 << 32, (1 << 64) - 1, 1 << 64, (1 << 64) + 1]:
        yield from sqrt_ops(rng, u)
        yield "mpz_perfect_power_p %s" % hx(u)
        yield "mpz_perfect_power_p %s" % hx(-u)
        yield "mpz_perfect_square_p %s" % hx(-u)
        for n in (0, 1, 2, 3, 4, 5, 64, 65, 1 << 20, (1 << 64) - 1, (1 << 64) - 2):
            yield from root_ops(rng, u, n)
            yield from root_ops(rng, -u, n, mpn=False)
    for u in (-1, -2, -4, -(1 << 64), -rand_int(rng, 5, False) - 1):
        yield "mpz_sqrt 0 %s" % hx(u); yield "mpz_sqrt 1 %s" % hx(u)
        for m in range(3): yield "mpz_sqrtrem %d %s" % (m, hx(u))
    # ---- all one-limb normalisation cases of mpn_sqrtrem: every bit length 1..128, edge values
    for bits in range(1, 130):
        for u in set([1 << (bits - 1), (1 << bits) - 1, (1 << (bits - 1)) + 1, rng.getrandbits(bits) | (1 << (bits - 1))]):
            yield from sqrt_ops(rng, u)
    # one-limb / two-limb squares +-1 with structured roots (mpn_sqrtrem1 / mpn_sqrtrem2 corrections)
    for bits in range(1, 65):
        for k in special_roots(rng, bits):
            for u in around(k * k):
                if u >= 0: yield from sqrt_ops(rng, u)
            for u in around(k * k + 2 * k):            # largest remainder r = 2s
                yield from sqrt_ops(rng, u)
    # ---- k^n - 1, k^n, k^n + 1 for small k (all k < 2^12 in the thorough tier; a sample in quick) x n <= 70
    ks = list(range(2, 1 << 12))
    if quick:
        ks = list(range(2, 40)) + rng.sample(range(40, 1 << 12), 500) + [1008, 1009, 1010, 4095]
    for k in ks:
        ns = list(range(2, 71)) if (not quick or k < 12) else sorted(set([2, 3] + rng.sample(range(2, 71), 8)))
        for n in ns:
            p = k ** n
            for u in around(p):
                yield from root_ops(rng, u, n)
                if n % 2 == 1 and rng.random() < 0.5:
                    yield from root_ops(rng, -u, n, mpn=False)
            yield "mpz_perfect_power_p %s" % hx(rng.choice(around(p)))
            if rng.random() < 0.3: yield "mpz_perfect_power_p %s" % hx(-rng.choice(around(p)))
            if n == 2:
                for u in around(p): yield from sqrt_ops(rng, u)
            else:
                m = rng.choice([2, 3, 5, n - 1, n + 1, 2 * n])   # other exponents on the same operand
                yield from root_ops(rng, p, m)
    # ---- large k: roots all-ones / 2^j / 2^j-1 / long runs; limb counts 1..40 then sparse to 2000
    lim = list(range(1, 41))
    if quick: lim += [rng.randrange(41, 120) for _ in range(3)]
    else: lim += sorted(set(int(40 * (2000 / 40) ** rng.random()) for _ in range(16))) + [1999, 2000]
    for nl in lim:
        reps = 1 if nl > 40 else 2
        for _ in range(reps):
            # square roots: root of about nl*32 bits, both parities of the operand's limb count
            for k in special_roots(rng, max(1, nl * 32 - rng.randrange(0, 33))):
                for u in around(k * k):
                    if u >= 0: yield from sqrt_ops(rng, u)
                if rng.random() < 0.3: yield from sqrt_ops(rng, k * k + 2 * k)
            u = 0
            for i, x in enumerate(rand_limbs(rng, nl)): u |= x << (64 * i)
            if u >> (64 * (nl - 1)) == 0: u |= 1 << (64 * (nl - 1) + rng.randrange(64))
            yield from sqrt_ops(rng, u)
            # n-th roots
            nset = [2, 3, 4, 5, 7, rng.randrange(2, 71), rng.randrange(2, 71)]
            if nl <= 40: nset += [nl * 64 - 1, nl * 64, nl * 64 + 1, nl * 32, rng.randrange(2, nl * 64 + 70)]
            if nl > 200: nset = [rng.choice([2, 3, 5]), rng.randrange(2, 71)]
            for n in nset:
                rb = max(1, (nl * 64) // n - rng.randrange(0, 3))
                for k in list(special_roots(rng, rb))[: (6 if nl <= 12 else 2)]:
                    if k < 1: continue
                    p = k ** n
                    for v in around(p):
                        if v > 0: yield from root_ops(rng, v, n)
                    if n % 2 == 1 and rng.random() < 0.3: yield from root_ops(rng, -p, n, mpn=False)
                yield from root_ops(rng, u, n)
                if nl <= 10 and rng.random() < 0.5: yield from root_ops(rng, -u, n | 1, mpn=False)
    # ---- exact powers through the remp == NULL path of mpn_rootrem that pads the operand (un >= ROOTREM_THRESHOLD,
    #      un / k > 2): the exactness flag then hinges on the low limb of the approximate root (sp[0] <= 1)
    for _ in range(1500 if quick else 30000):
        k = rng.choice([2, 2, 3, 3, 4, 5, 6, 7, 9, 11, 13])
        xl = rng.randrange(3, 9 if quick else 20)                 # limbs of the root: un ~ k * xl, un / k > 2
        x = rng.choice([rng.getrandbits(64 * xl - rng.randrange(0, 64)) | 1,
                        rrandomb(rng, 64 * xl) | (1 << (64 * xl - 1)),
                        (1 << (64 * xl - rng.randrange(0, 64))) - 1,
                        (1 << (64 * xl - 1 - rng.randrange(0, 64))) + rng.getrandbits(rng.choice([1, 8, 64]))])
        if x < 2: continue
        p = x ** k
        yield "mpz_root %d %s %x" % (rng.choice([0, 2, 2]), hx(p), k)
        yield "mpn_rootrem_norem %s %x" % (vec(limbs_of(p)), k)
        yield "mpz_root 2 %s %x" % (hx(p + rng.choice([-1, 1])), k)
        if k % 2 == 1 and rng.random() < 0.3: yield "mpz_root 0 %s %x" % (hx(-p), k)
        if p.bit_length() < 2600 and rng.random() < 0.2: yield "mpz_perfect_power_p %s" % hx(rng.choice([p, -p]))
    # ---- repaired defect 4290b4f: operands of >= ROOTREM_THRESHOLD limbs with a huge root index (the temporaries of
    #      mpn_rootrem_internal grow with the index; the root-is-1 exit must come first).  Watchdog in the harness op.
    huge = [1 << 32, (1 << 32) + 1, 1 << 44, (1 << 44) - 1, 1 << 63, (1 << 63) + 1, (1 << 64) - 1, (1 << 64) - 2]
    for nl in [5, 6, 7, 8, 12, 40] + ([] if quick else [100, 500]):
        for _ in range(2):
            u = 0
            for i, x in enumerate(rand_limbs(rng, nl, rng.choice(["uniform", "runs", "ones", "top", "onebit"]))): u |= x << (64 * i)
            u |= 1 << (64 * (nl - 1) + rng.randrange(64))
            for n in huge:
                yield "mpz_root %d %s %x" % (rng.randrange(3), hx(u), n)
                yield "mpz_nthroot %d %s %x" % (rng.randrange(2), hx(u), n)
                yield "mpz_rootrem %d %s %x" % (rng.randrange(3), hx(u), n)
                if n % 2 == 1:
                    yield "mpz_root 0 %s %x" % (hx(-u), n)
                    yield "mpz_rootrem %d %s %x" % (rng.randrange(3), hx(-u), n)
            # index just around the bit length: the last index with root 2 and the first with root 1
            bl = u.bit_length()
            for n in (bl - 1, bl, bl + 1, 2 * bl):
                yield "mpz_root %d %s %x" % (rng.randrange(3), hx(u), n)
                yield "mpz_rootrem 0 %s %x" % (hx(u), n)
    # ---- repaired defect f2f94e8: mpn_perfect_square_p on unnormalised vectors (1-3 zero high limbs, all-zero)
    for l in ([4, 0], [9, 0], [0, 0], [0, 1, 0], [5, 0], [0], [0, 0, 0, 0], [1, 0], [16, 0, 0], [0, 0, 1, 0], [0, 2, 0],
              [1 << 62, 0], [M, 0], [1, 0, 0, 0]):
        yield "mpn_perfect_square_p %s" % vec(l)
    for _ in range(150 if quick else 1500):
        k = rng.getrandbits(rng.choice([5, 31, 32, 33, 64, 100, 200])) | 1
        v = (k * k) << (2 * rng.randrange(0, 40))
        z = rng.randrange(1, 4)
        for w in (v, v + 1, v - 1, v << 1, v * rng.choice([2, 3, 5, 7])):
            yield "mpn_perfect_square_p %s" % vec(limbs_of(w) + [0] * z)
    for v in (pseudo_squares(rng, ctx, 30 if quick else 300) or []):
        yield "mpn_perfect_square_p %s" % vec(limbs_of(v) + [0] * rng.randrange(1, 4))
    # ---- perfect powers with several prime factors, negative bases, exponent gcd logic of perfpow.c
    small_primes = [2, 3, 5, 7, 11, 13, 997, 1009, 1013, 10007]
    for _ in range(200 if quick else 2000):
        base = 1
        for _ in range(rng.randrange(1, 4)): base *= rng.choice(small_primes) ** rng.randrange(1, 4)
        if rng.random() < 0.3: base *= rng.getrandbits(rng.choice([8, 33, 70])) | 1
        e = rng.choice([2, 3, 4, 5, 6, 7, 8, 9, 10, 12, 15, 16, 25, 27, 32])
        v = base ** e
        if v.bit_length() > 2600: continue
        for w in (v, -v, v * rng.choice(small_primes), -v * 2, v << rng.randrange(1, 9), v + 1, -(v << 3)):
            yield "mpz_perfect_power_p %s" % hx(w)
        # different multiplicities: gcd of the exponents decides
        a, b = rng.choice(small_primes), rng.choice(small_primes)
        ea, eb = rng.randrange(1, 13), rng.randrange(1, 13)
        w = a ** ea * b ** eb * rng.choice([1, 1, (rng.getrandbits(40) | 1) ** math.gcd(ea, eb)])
        yield "mpz_perfect_power_p %s" % hx(w); yield "mpz_perfect_power_p %s" % hx(-w)
    for _ in range(100 if quick else 600):
        yield "mpz_perfect_power_p %s" % hx(rand_int(rng, 6))
    # ---- non-squares that pass all residue filters
    for v in pseudo_squares(rng, ctx, 150 if quick else 1500) or []:
        yield "mpn_perfect_square_p %s" % vec(limbs_of(v))
        yield "mpz_perfect_square_p %s" % hx(v)
        yield "mpz_perfect_power_p %s" % hx(v) if v.bit_length() < 2000 else "mpz_perfect_square_p %s" % hx(v + 1)
    # every residue mod 256 / small moduli, squares times powers of two and B
    for r in range(256):
        v = (rng.getrandbits(100) << 8) | r
        yield "mpn_perfect_square_p %s" % vec(limbs_of(v))
    for _ in range(100 if quick else 1000):
        k = rng.getrandbits(rng.choice([10, 31, 32, 33, 64, 100])) | 1
        v = k * k << (2 * rng.randrange(0, 70))
        yield "mpn_perfect_square_p %s" % vec(limbs_of(v))
        yield "mpn_perfect_square_p %s" % vec(limbs_of(v << 1))

# whole-file pins of the C the models mirror (fingerprints in pins/C09.json, written by tools/pins.py --update on main)
PINS = [("mpn/generic/sqrtrem.c", None), ("mpn/generic/rootrem.c", None), ("mpn/generic/rootrem_basecase.c", None),
        ("mpn/generic/perfect_square_p.c", None), ("mpn/generic/mod_34lsub1.c", None),
        ("mpz/sqrt.c", None), ("mpz/sqrtrem.c", None), ("mpz/root.c", None), ("mpz/nthroot.c", None), ("mpz/rootrem.c", None),
        ("mpz/perfsqr.c", None), ("mpz/perfpow.c", None), ("mpir.h", "mpz_perfect_square_p"), ("errno.c", None)]

def nontrivial(line):
    op = line.split(" ", 1)[0]
    return line if len(line) > len(op) + 6 else None
