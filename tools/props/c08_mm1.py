"""C08 part: mpn_mulmod_2expm1 / mpn_mulmod_bnm1 at the limb level (the wrap-around product inside mpn_redc_n) and
mpn_mulmod_bnm1_next_size — the former hypotheses of the redc_n / mpn_powm theorems.  Merged into c08.py."""
from genlib import *

LEAN_MODULES = ["MpirProofs.Props.C08_mm1"]
THEOREMS = [
    "Mpir.Mm1.basecase_val",
    "Mpir.Mm1.mulmod_2expm1_val",
    "Mpir.Mm1.mpn_mulmod_bnm1_val",
    "Mpir.Mm1.next_size_bounds",
    "Mpir.Mm1.redc_n_unconditional",
    "Mpir.Mm1.reduceLR_eq",
    "Mpir.Mm1.mpn_powm_correct_all_sizes",
    "Mpir.Mm1.mpn_powm_correct_pinned",
    "Mpir.Mm1.next_size_mono",
    "Mpir.Mm1.mpz_powm_scratch_ok_even",
    "Mpir.Mm1.mpz_powm_crt_indices_ok",
    "Mpir.Mm1.mpz_powm_crt_mem_correct",
]
TRUSTED = ["hand-written model lean/Mpir/Model/Mulmod2expm1.lean: mpn_mulmod_2expm1_basecase, mpn_mulmod_2expm1 (split into the "
           "2^h-1 / 2^h+1 halves on both the k == 0 and k != 0 paths, recursion, flags c1*2+c2, recombination, final halving), "
           "mpn_mulmod_bnm1; tied by the exact ops mpn_mulmod_2expm1_x, mpn_mulmod_bnm1_x, mpn_mulmod_bnm1_next_size"]
ASSUMPTIONS = ["mpn_mul_n by its mathematical meaning (C01); mpn_mulmod_2expp1_basecase is the model Fft.mulmod_2expp1_basecase "
               "(theorem mulmod_2expp1_basecase_val, part c01_fftring): its non-FFT branch; for h = 64m with "
               "m > FFT_MULMOD_2EXPP1_CUTOFF and m = mpir_fft_adjust_limbs(m) the C enters mpir_fft_mulmod_2expp1, whose result "
               "is the same fully reduced residue (C01 FFT theorems) — mulmod_2expm1_val is stated for ANY +1 half that meets "
               "that contract"]
RULE = ("mpn_mulmod_2expm1: b odd / even, below and above MULMOD_2EXPM1_THRESHOLD limbs, half sizes h = 64m - k for k in "
        "{0,1,31,32,33,62,63}, b = 64n for n = 100..256; operands built backwards (CRT) from the residues of the product modulo "
        "2^h - 1 and 2^h + 1: 0, -1, 1, random, the pairs (A, 2^h - A) (borrow out of S) and (S, S + 1) (carry out of D); operand "
        "halves = -1 (upper half = lower half + 1) for y, z, both, neither; 0; 2^b - 1")

PINS = [("mpz/powm.c", "mpz_powm"), ("mpn/generic/binvert.c", "mpn_binvert_itch"), ("mpn/generic/mulmod_2expm1.c", None), ("gmp-impl.h", "mpn_mulmod_bnm1_next_size"), ("gmp-impl.h", "mpn_mulmod_bnm1_itch"),
        ("gmp-impl.h", "mpn_half"),
        ("mpn/generic/mulmod_2expp1_basecase.c", "mpn_mulmod_2expp1_basecase")]

def crt(za, zb, h):
    """z with z = za mod 2^h-1, z = zb mod 2^h+1, 0 <= z < 2^(2h)-1"""
    M1, M2 = (1 << h) - 1, (1 << h) + 1
    if M1 == 1: return zb % M2
    za %= M1
    return za + M1 * (((zb - za) * pow(M1, -1, M2)) % M2)

def line(b, y, z):
    n = (b + 63) // 64
    return "mpn_mulmod_2expm1_x %x %s %s" % (b, vec(limbs_of(y, n)), vec(limbs_of(z, n)))

def operand(rng, b, h, cls):
    H = 1 << h
    if cls == "rand": return rng.getrandbits(b)
    if cls == "zero": return 0
    if cls == "ones": return (1 << b) - 1
    if cls == "neg1p":                                # = -1 mod 2^h+1: upper half = lower half + 1
        lo = rng.getrandbits(h) % (H - 1); return (lo + 1) << h | lo
    if cls == "zerom":                                # = 0 mod 2^h-1, not 0: halves add to 2^h-1
        lo = rng.getrandbits(h); return ((H - 1 - lo) << h) | lo
    if cls == "neg1p0":                               # -1 mod 2^h+1 with lower half 0
        return 1 << h
    if cls == "small": return rng.getrandbits(rng.choice([1, 8, 64, h]))
    raise ValueError(cls)

def targeted(rng, b):
    """products with chosen residues modulo the two half moduli"""
    h = b // 2; H = 1 << h; M1, M2 = H - 1, H + 1
    A = rng.getrandbits(h - 1) if h > 1 else 0
    Sg = (H >> 1) | rng.getrandbits(h - 1) if h > 1 else 1
    pairs = [(0, 0), (0, 1), (1, 0), (M1 - 1, H), (rng.randrange(M1), H), (0, H), (M1 - 1, rng.randrange(M2)), (1, 1),
             (A, H - A), (A % M1, (H - A - 1) % M2), (Sg % M1, (Sg + 1) % M2), (Sg % M1, Sg % M2), (rng.randrange(M1), rng.randrange(M2)),
             (H - 2, H - 1), (0, H - 1), (H - 2, 0), (A, A), (A, A + 1)]
    for ra, rb in pairs:
        for _ in range(4):
            y = rng.getrandbits(b) % (M1 * M2)
            try: ia, ib = pow(y, -1, M1), pow(y, -1, M2)
            except ValueError: continue
            yield line(b, y, crt(ra * ia, rb * ib, h))
            break

def bsizes(rng, tier, thr):
    thor = tier == "thorough"
    out = []
    lo = 64 * (thr - 1)                                # b with n >= thr limbs starts above this
    for m in ([thr // 2, thr // 2 + 1, thr, thr + 3, 25] if not thor else list(range(thr // 2, 2 * thr + 2)) + [25, 33, 50]):
        for k in (0, 1, 31, 32, 33, 62, 63) if not thor else (0, 1, 2, 30, 31, 32, 33, 34, 61, 62, 63):
            h = 64 * m - k
            if h >= 1: out.append(2 * h)
    out += [lo + 2, lo + 4, lo + 64, lo + 66]
    out += [64 * n for n in ((100, 101, 104, 128, 160, 200, 255, 256) if not thor else range(100, 257))]
    out += [64 * n for n in ((24, 32, 48, 64, 96) if not thor else range(12, 100))]
    out += [64 * n for n in ((320, 448) if not thor else (258, 320, 448, 544, 608))]     # +1 half through the FFT
    return sorted(set(out))

def gen_ops(rng, tier, ctx=None):
    import props.c08_limb as L
    T = L.thresholds(ctx)
    thr = T.get("MULMOD_2EXPM1_THRESHOLD", 12)
    thor = tier == "thorough"
    # basecase: every small b, odd b of every size class
    for b in list(range(1, 70)) + [127, 128, 129, 191, 193, 64 * thr - 1, 64 * thr + 1, 64 * 20 + 1, 6399, 64 * 256 - 1]:
        h = max(b // 2, 1)
        for cy, cz in (("rand", "rand"), ("ones", "ones"), ("ones", "rand"), ("zero", "rand"), ("small", "ones"), ("zerom", "zerom")):
            y = operand(rng, b, h, cy) % (1 << b); z = operand(rng, b, h, cz) % (1 << b)
            yield line(b, y, z)
        if b > 1:                                       # product = 0 and = -1 modulo 2^b - 1
            Mb = (1 << b) - 1
            y = rng.randrange(1, Mb)
            try:
                yield line(b, y, (Mb - 1) * pow(y, -1, Mb) % Mb)
                yield line(b, y, pow(y, -1, Mb))
            except ValueError: pass
    # recursive path
    cls = ["rand", "zero", "ones", "neg1p", "zerom", "neg1p0", "small"]
    for b in bsizes(rng, tier, thr):
        h = b // 2
        big = b > 64 * 64
        combos = [("rand", "rand"), ("neg1p", "rand"), ("rand", "neg1p"), ("neg1p", "neg1p"), ("neg1p0", "neg1p"), ("zerom", "rand"),
                  ("zerom", "zerom"), ("ones", "ones"), ("zero", "rand"), ("rand", "zero"), ("ones", "neg1p"), ("small", "small")]
        for cy, cz in (combos if not big or thor else rng.sample(combos, 5) + [("neg1p", "neg1p")]):
            yield line(b, operand(rng, b, h, cy), operand(rng, b, h, cz))
        if not big or thor or rng.random() < 0.5:
            for l in targeted(rng, b): yield l
    # mpn_mulmod_bnm1: padding, the an + bn < rn copy, rn = next_size
    for rn in [1, 2, 3, 11, 12, 13, 24, 25, 100, 256] + ([320] if thor else []):
        for an, bn in ((rn, rn), (rn, 1), (max(1, rn // 2), max(1, rn // 3)), (max(1, rn - 1), 1), (max(1, (rn + 1) // 2), max(1, rn // 2))):
            if not (0 < bn <= an <= rn): continue
            yield "mpn_mulmod_bnm1_x %x %s %s" % (rn, vec(rand_limbs(rng, an, rng.choice(["uniform", "ones", "runs"]))),
                                                 vec(rand_limbs(rng, bn, rng.choice(["uniform", "ones", "runs"]))))
    # mpn_redc_n / mpn_powm answered by the model with the real mpn_mulmod_bnm1: the generators of part c08_limb
    k = 0
    for l in L.gen_redc_n(rng, tier, T):
        if l.startswith("mpn_redc_n_l "):
            u, m, ip = [int("".join("%016x" % int(x, 16) for x in reversed(t.strip("[]").split(","))), 16) for t in l.split()[1:]]
            n = len(l.split()[2].split(","))
            if (ip * m) % (1 << (64 * n)) == 1:
                k += 1
                if thor or k % 3 == 0: yield "mpn_redc_n_r" + l[len("mpn_redc_n_l"):]
    for l in L.ripple_small(rng): yield "mpn_redc_n_r" + l[len("mpn_redc_n_l"):]
    k = 0
    for l in L.gen_powm(rng, tier, T):
        if l.startswith("mpn_powm_m "):
            k += 1
            if thor or k % 4 == 0 or len(l) > 4000: yield "mpn_powm_r" + l[len("mpn_powm_m"):]
    # moduli whose halves differ by one (the flags c1, c2 inside redc_n's wrap-around product)
    for n in ([100, 128] if not thor else [100, 101, 128, 150, 200, 256]):
        hb = 32 * n
        Lo = rng.getrandbits(hb - 2) | 1
        m = (Lo + 1) << hb | Lo
        for b, e in ((rng.getrandbits(64 * n - 5), 2), (3, 0x10001)):
            yield "mpn_powm_r %s %s %s" % (vec(limbs_of(b)), vec(limbs_of(e)), vec(limbs_of(m, n)))
    # next_size: every n up to 700, then samples (FFT table regimes) up to 2^30
    for n in list(range(1, 701)) + [rng.randrange(700, 1 << 14) for _ in range(300)] + \
            [rng.randrange(1 << s, 1 << (s + 1)) for s in range(14, 30) for _ in range(20)] + \
            [(1 << s) + d for s in range(9, 30) for d in (-1, 0, 1)]:
        yield "mpn_mulmod_bnm1_next_size %x" % n
