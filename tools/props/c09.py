"""C09 — main module (parts: c09_*.py are merged automatically)."""
LEVEL = "proof"
LEAN_MODULES = []
THEOREMS = []
TRUSTED = []
ASSUMPTIONS = []
LEVEL_TEXT = 'Lean theorems: one-limb square root (table seed regenerated and checked), normalisation wrapper, residue filters are sound (never reject a square), final root adjustment; perfect-power logic. Differential run on k^n, k^n±1 for all small and many large k.'
LEVEL_NOTE = "Operands beyond 2^61 bits (the C's sizes[65] schedule array bounds them), scratch capacities EXTRA/PP_ALLOC and the carries inside the mpn kernels are outside the theorems."
PLACEHOLDER = True
