"""C09 — main module (parts: c09_*.py are merged automatically)."""
LEVEL = "proof"
LEAN_MODULES = []
THEOREMS = []
TRUSTED = []
ASSUMPTIONS = []
LEVEL_TEXT = 'Lean theorems: one-limb square root (table seed regenerated and checked), normalisation wrapper, residue filters are sound (never reject a square), final root adjustment; perfect-power logic. Differential run on k^n, k^n±1 for all small and many large k.'
LEVEL_NOTE = "mpn_rootrem above the basecase range: one Newton round is proved, the induction over the size schedule is not, so RootremSpec remains a hypothesis of the mpz_root/rootrem/perfect_power theorems there; Zimmermann square root is value-level."
PLACEHOLDER = True
