"""C04 part allocsafe5 (fourth continuation of c04_allocsafe..4): size-aware models of mpz/import.c (`MPZ_REALLOC (z, zsize)` with
zsize = ceil (count * (8*size - nail) / 64) against the limbs the generic byte loop stores through `*zp++` — one per 64 accumulated bits
plus the final partial limb — and the `count` limbs of the three fast paths MPN_COPY / MPN_BSWAP / MPN_REVERSE; the final MPN_NORMALIZE),
mpz/gcd.c (zero arms with the size stored BEFORE the realloc, one-limb arms without any realloc, the general arm: low zero limbs / bits
stripped into TMP copies, mpn_gcd by its contract "at most min (usize, vsize) limbs, count returned", the re-shift with the `cy_limb`
extra limb and `MPZ_REALLOC (g, gsize)`), mpz/lcm.c (one-limb arm: `MPZ_REALLOC (r, usize+1)` and the carry limb; general arm: mpz_gcd /
mpz_divexact / mpz_mul on a temporary g of MAX (usize, vsize) TMP limbs that must never be reallocated) and mpz/divexact.c (as lcm uses it)
in lean/Mpir/Model/AllocSafeMpz5.lean.  Ops `as5_*` (harness/ops_allocsafe5.c) run the real function on objects of the GIVEN
allocations in every alias mode and compare ALLOC(w), SIZ(w) and the value with the model's run."""
from genlib import *

LEAN_MODULES = ["MpirProofs.Props.C04_allocsafe5"]
THEOREMS = ["Mpir.AllocSafe5." + t for t in ("mpz_import_alloc_safe", "importLimbs_length", "importLimbs_limbs", "mpz_lcm_one_alloc_safe_partial", "lcmOne_refines", "Spec.lcmOne_spec", "mpz_gcd_small_alloc_safe_partial", "gcdOne_refines", "gcdZero_refines", "mpz_lcm_small_alloc_safe_partial", "lcmOne_safe", "mpz_gcd_tail_alloc_safe_partial", "lshift_carry", "stripLow_fits", "mpz_gcd_alloc_safe", "gcdGeneral_refines", "gcdTail_refines", "stripLow_spec", "gcd_odd_shift", "mpz_lcm_alloc_safe", "lcmGeneral_safe", "divexact_tmp", "mpz_gcd_genOk")]
TRUSTED = ["hand-written size-aware models lean/Mpir/Model/AllocSafeMpz5.lean (mpz/import.c, gcd.c, lcm.c, divexact.c on the memory model of "
           "AllocSafe.lean; TMP_ALLOC_LIMBS (n) = a block of its own that no variable points to; mpn_gcd_1 / mpn_gcd / mpn_divexact = their "
           "contracts: the value, at most min (usize, vsize) resp. exactly nn - dn + 1 limbs stored (C07 / C02)), tied by exact comparison of "
           "ALLOC(w), SIZ(w), value in every alias mode, and by source pins"]
ASSUMPTIONS = ["callee contracts as the models state them: mpn_gcd (gp, up, un, vp, vn) leaves natLimbs (gcd (U, V)) at gp and returns their count "
               "(value: C07 mpn_gcd_correct; that these limbs fit the operand block is PROVED in gcdGeneral_refines, not assumed); mpn_gcd_1 returns "
               "gcd (U, vl); mpn_divexact stores exactly nn - dn + 1 limbs holding N / D",
               "mpz_import: `count * (8*size - nail)` does not overflow size_t; the caller's data has count * size bytes (the model's byte indices "
               "staying inside them is checked on every run by the driver, not proved)",
               "the `while (*up == 0) up++` loops of gcd.c:82, 97 are checked as a read of the |size| limbs of the (non-zero) operand"]
RULE = ("allocsafe5: import with every order / endian / nail 0..8*size / word size 1..17 / count 0..9, aligned (fast paths) and misaligned data, "
        "all-zero and all-ones data, high words zero (normalisation), destination allocation need-1 / need / generous; gcd and lcm with zero, "
        "one-limb and multi-limb operands in either position, common low zero limbs and bits in every relation (u more / fewer / as many zero "
        "limbs as v; zero bits 0, 1, 63), gcd whose re-shift carries into an extra limb or just not, gcd = 1, u | v, u = ±v, all five alias modes")

PINS = [("mpz/import.c", None), ("mpz/gcd.c", None), ("mpz/lcm.c", None), ("mpz/divexact.c", None)]

def nl(x): return (abs(x).bit_length() + 63) // 64

def obj(rng, v, need=None):
    n = max(nl(v), 1)
    cands = [n, n, n + 1, n + rng.randrange(0, 4)]
    if need: cands += [max(n, need - 1), max(n, need), max(n, need + 1)]
    return "%x %s" % (rng.choice(cands), hx(v))

def special(rng, k=None):
    k = k if k is not None else rng.randrange(1, 5)
    m = rng.randrange(0, 64 * k)
    return rng.choice([B ** k - 1, B ** (k - 1), B ** k - (1 << m), 1 << m, 1 << (64 * k - 1), B ** (k - 1) + 1,
                       rng.getrandbits(64 * k), rng.getrandbits(64 * k) | (1 << (64 * k - 1)), rng.getrandbits(64) << (64 * (k - 1)),
                       (B ** k - 1) // 3, B ** k - 2]) or 1

def sgnd(rng, v): return v * rng.choice([1, -1])

def gen_import(rng):
    c = rng.randrange(10)
    size = rng.choice([1, 1, 2, 3, 4, 7, 8, 8, 8, 9, 16, rng.randrange(1, 18)])
    count = rng.choice([0, 1, 1, 2, 3, 4, rng.randrange(0, 10)])
    nail = rng.choice([0, 0, 0, 1, 7, 8, 9, 8 * size - 1, 8 * size, rng.randrange(0, 8 * size + 1)])
    nail = min(nail, 8 * size)
    order = rng.choice([1, -1]); endian = rng.choice([1, 0, -1])
    align = rng.choice([0, 0, 0, 1, 4, rng.randrange(8)])
    if c == 0: size = 8; nail = 0; align = 0                                    # the fast paths
    n = count * size
    if c == 1: data = bytes(n)
    elif c == 2: data = bytes([255]) * n
    elif c == 3: data = bytes(rng.getrandbits(8) if rng.random() < 0.2 else 0 for _ in range(n))
    else: data = bytes(rng.getrandbits(8) for _ in range(n))
    if c == 4 and count >= 2:                                                   # most significant word(s) zero
        z = bytes(size * rng.randrange(1, count))
        data = (z + data[len(z):]) if order == 1 else (data[:n - len(z)] + z)
    need = (count * (8 * size - nail) + 63) // 64
    w = sgnd(rng, special(rng, rng.randrange(1, 4)))
    return "as5_import %s %x %s %x %s %x %x %s" % (obj(rng, w, need), count, hx(order), size, hx(endian), nail, align, sbytes(data))

def gl_case(rng):
    """(u, v) for gcd / lcm, rare branches on purpose"""
    c = rng.randrange(16)
    k = rng.randrange(1, 5)
    g = special(rng, rng.randrange(1, 3))
    a = special(rng, rng.randrange(1, 4)); b = special(rng, rng.randrange(1, 4))
    zl = lambda: 64 * rng.randrange(0, 3) + rng.choice([0, 0, 1, 63, rng.randrange(64)])
    if c == 0: return 0, special(rng, k)
    if c == 1: return special(rng, k), 0
    if c == 2: return 0, 0
    if c == 3: return special(rng, 1), special(rng, k)                          # one-limb u
    if c == 4: return special(rng, k), special(rng, 1)                          # one-limb v
    if c == 5: return (a * g) << zl(), (b * g) << zl()                          # independent low zeros
    if c == 6: z = zl(); return (a * g) << z, (b * g) << z                      # the same low zeros
    if c == 7: z = rng.randrange(1, 64); return ((B ** k - 1) * a) << (z + 64), (B ** k - 1) << z   # re-shift carries into a new limb
    if c == 8: z = rng.randrange(1, 64); return ((B ** k - 1) >> z << z) * 3, ((B ** k - 1) >> z) << z   # … just not
    if c == 9: return a, a * b                                                  # u | v
    if c == 10: return a * b, a
    if c == 11: return a << 64, b << 128                                        # whole zero limbs only
    if c == 12: return (a | 1), (b | 1) << zl()                                 # odd u
    if c == 13: return 1 << zl(), b << zl()                                     # power of two
    if c == 14: return B ** k - 1, B ** rng.randrange(1, 5) - 1
    return abs(rand_int(rng, 5)), abs(rand_int(rng, 5))

def gen_gl(rng, name):
    u, v = gl_case(rng)
    u = sgnd(rng, u); v = sgnd(rng, v)
    m = rng.choice([0, 0, 0, 1, 1, 2, 2, 3, 4])
    if m >= 3: v = u
    need = min(nl(u), nl(v)) if name == "as5_gcd" else nl(u) + nl(v)
    if name == "as5_gcd" and (u == 0 or v == 0): need = max(nl(u), nl(v))
    w = sgnd(rng, special(rng, rng.randrange(1, 4)))
    return "%s %x %s %s %s" % (name, m, obj(rng, w, need), obj(rng, u, need), obj(rng, v, need))

def gen_ops(rng, tier, ctx=None):
    n = 700 if tier == "quick" else 10000
    for _ in range(n):
        yield gen_import(rng)
        yield gen_import(rng)
        yield gen_gl(rng, "as5_gcd")
        yield gen_gl(rng, "as5_gcd")
        yield gen_gl(rng, "as5_lcm")

def nontrivial(line):
    return line if line.startswith("as5_") else None
