"""C11 (part: mpz / mpf comparisons, C-type conversions, doubles).  Doubles are 64-bit patterns."""
import struct
from genlib import *

LEAN_MODULES = ["MpirProofs.Props.C11"]
THEOREMS = ["Mpir.Conv." + t for t in """
cmp_total_order cmp_antisymm cmp_trans sgn_spec cmp_ui_consistent cmp_si_consistent cmp_macros_consistent cmpabs_spec cmpabs_ui_spec
fits_s_iff_range fits_u_iff_range fits_iff_range get_ui_spec get_si_spec get_sx_spec set_ui_spec set_si_spec
get_d_bits_spec truncate53_clauses shiftZ_floor mpz_get_d_spec mpz_get_d_2exp_spec
dblNum_decode extract_double_spec set_d_spec cmp_d_spec
mpf_get_d_spec mpf_get_d_2exp_spec mpf_cmp_spec mpf_set_d_spec mpf_cmp_d_spec mpf_cmp_z_spec mpf_cmp_ui_spec mpf_cmp_si_spec
mpf_fits_s_iff_range mpf_fits_u_iff_range mpf_fits_iff_range mpf_get_si_ui_spec mpf_integer_p_spec
""".split()]
TRUSTED = ["hand-written word-level models of mpn_get_d (IEEE branch), __gmp_extract_double and of the mpz/mpf comparison and "
           "conversion functions in lean/Mpir/Model/Conv.lean (tied by correspondence on every run, not by translation)",
           "count_leading_zeros = 63 - log2 (bsrq)"]
ASSUMPTIONS = ["64-bit limbs, no nails, IEEE little-endian binary64, long = intmax_t = 64 bits",
               "mpf_get_d_2exp: the returned exponent EXP*64 - cnt is a long, so operands need |EXP| < 2^57 (inherent in the interface); "
               "generated mpf exponents for that function stay below 2^56, for all other mpf functions they go up to 2^62",
               "get_d_bits_spec / mpz_get_d_spec assume fewer than 2^57 limbs (64 * size must not overflow; an address-space bound)"]
RULE = ("conv: integers +-(2^k + {-1,0,1}) for k in {0,15,16,31,32,52,53,54,63,64,65,1022,1023,1024,1074}; 54..200-bit values whose "
        "discarded part is <1/2, =1/2, >1/2 ulp; every class of double (+-0, min/max subnormal, min normal, 2^53+-1, max finite, "
        "+-inf, NaNs) and doubles adjacent to integers and limb boundaries; all pairs of a mixed value set through "
        "cmp/cmp_ui/cmp_si/cmp_d/cmpabs* (transitivity/antisymmetry via the exact model); fits/get/set at every C type boundary; "
        "mpn_get_d at the overflow, denormal and underflow thresholds and at exp = LONG_MIN/LONG_MAX; mpf operands around the same "
        "boundaries with several precisions, exponents and low zero limbs")

KS = [0, 15, 16, 31, 32, 52, 53, 54, 63, 64, 65, 1022, 1023, 1024, 1074]
BOUND = [0, 1, 1 << 15, 1 << 16, 1 << 31, 1 << 32, 1 << 63, 1 << 64]
LONG_MAX = (1 << 63) - 1
LONG_MIN = -(1 << 63)
INF = 0x7ff0000000000000
NEGB = 1 << 63

def dbits(x):
    return struct.unpack("<Q", struct.pack("<d", x))[0]

def mkd(sign, e, m):
    return (sign << 63) | (e << 52) | m

def dbl_of_int_trunc(v):
    """bits of |v| truncated to 53 bits (finite range only), sign applied"""
    s = 1 if v < 0 else 0; v = abs(v)
    if v == 0: return 0
    L = v.bit_length()
    if L > 1024: return mkd(s, 2047, 0)
    m = v >> (L - 53) if L > 53 else v << (53 - L)
    return mkd(s, L - 1 + 1023, m - (1 << 52))

def special_doubles():
    out = [0, NEGB, 1, NEGB | 1, 2, (1 << 52) - 1, NEGB | ((1 << 52) - 1),           # zeros, min / max subnormal
           1 << 52, (1 << 52) + 1, NEGB | (1 << 52),                                # min normal
           INF - 1, NEGB | (INF - 1), INF, NEGB | INF,                             # max finite, infinities
           INF | 1, INF | (1 << 51), NEGB | INF | (1 << 51), INF | ((1 << 52) - 1), NEGB | INF | 1,   # NaNs
           dbits(0.5), dbits(1.0), dbits(1.0) - 1, dbits(1.0) + 1, dbits(-1.0), dbits(-1.0) - 1, dbits(-1.0) + 1,
           dbits(1.5), dbits(2.0), dbits(-0.5), dbits(0.9999999), dbits(-0.9999999)]
    for k in (15, 16, 31, 32, 52, 53, 54, 62, 63, 64, 65, 126, 127, 128, 129, 191, 192, 1022, 1023):
        b = dbits(2.0 ** k)
        for s in (0, NEGB):
            out += [s | b, s | (b - 1), s | (b + 1)]
    for v in ((1 << 53) - 1, 1 << 53, (1 << 53) + 2, (1 << 63), (1 << 64) - 2048, 1 << 64):
        b = dbits(float(v)); out += [b, NEGB | b]
    return out

def rand_double(rng):
    c = rng.random()
    s = rng.getrandbits(1)
    if c < 0.15: e = rng.choice([0, 1, 2046, 1022, 1023, 1024, 1075, 1076, 1086, 1087, 1088, 1150, 1151, 1152])
    elif c < 0.55: e = rng.randrange(1015, 1100)       # around integers of 1..2 limbs
    elif c < 0.75: e = rng.randrange(1023, 1023 + 300)
    else: e = rng.randrange(0, 2047)
    m = rng.choice([0, 1, (1 << 52) - 1, 1 << 51, rng.getrandbits(52), rng.getrandbits(52), rrandomb(rng, 52),
                    rng.getrandbits(rng.randrange(1, 53)) << rng.randrange(0, 20) & ((1 << 52) - 1)])
    return mkd(s, e, m)

def doubles_near_int(v):
    """patterns of the doubles around integer v (its truncation, the neighbours)"""
    b = dbl_of_int_trunc(v)
    out = [b]
    if (b & ~NEGB) not in (0, INF):
        out += [b - 1, b + 1]
    return [x for x in out if (x & ~NEGB) <= INF]

def mpf_tok(rng, v, shift, prec=None, pad=None, neg=False):
    """tokens `prec size exp [limbs]` of the mpf with value (+-) v * 2^shift (v >= 0)"""
    if v == 0: return "%x 0 0 []" % (prec if prec is not None else rng.choice([0, 53, 64, 128, 500]))
    q, r = divmod(shift, 64)
    l = limbs_of(v << r)
    exp = len(l) + q
    if pad is None: pad = rng.choice([0, 0, 0, 1, 2])
    l = [0] * pad + l
    n = len(l)
    if prec is None: prec = max(0, 64 * (n - 1) - rng.choice([0, 0, 1, 63])) + rng.choice([0, 0, 64, 200])
    while (max(53, prec) + 127) // 64 + 1 < n: prec += 64
    return "%x %s %s %s" % (prec, hx(-n if neg else n), hx(exp), vec(l))

def rand_mpf(rng):
    c = rng.random()
    if c < 0.05: return mpf_tok(rng, 0, 0)
    bits = rng.choice([1, 2, 10, 53, 54, 63, 64, 65, 100, 128, 129, 200])
    v = rng.choice([rng.getrandbits(bits) | (1 << (bits - 1)), rrandomb(rng, bits) | 1, (1 << bits) - 1, 1 << (bits - 1)])
    if c < 0.5: shift = rng.randrange(-bits - 70, 70)                  # around the radix point
    elif c < 0.8: shift = rng.randrange(-1300, 1300) - bits             # double range
    else: shift = rng.choice([-1, 1]) * rng.randrange(0, 5000)
    return mpf_tok(rng, v, shift, neg=rng.random() < 0.45)

def gen_ops(rng, tier, ctx=None):
    reps = 1 if tier == "quick" else 25
    yield "mpz_cmp_sizes 40000000 -40000000"            # the historical failures (see corpus/C11) and friends
    yield "mpz_cmp_sizes -40000000 40000000"
    yield "mpz_cmp_sizes 7fffffff -7fffffff"
    yield "mpz_cmp_sizes -7fffffff 7fffffff"
    yield "mpz_cmp_sizes 7fffffff -1"
    yield "mpz_cmp_sizes 7fffffff 0"
    yield "mpz_cmp_sizes 2 3"
    yield "mpz_cmp_sizes -2 -3"
    yield "mpz_cmp_si_size 7fffffff -1"
    yield "mpz_cmp_si_size -7fffffff 1"
    yield "mpz_cmp_si_size 7fffffff 1"
    yield "mpz_cmp_si_size -7fffffff -8000000000000000"
    yield "mpz_cmp_si_size 2 7fffffffffffffff"

    # ---- 1. integers +-(2^k + {-1,0,1}) through every integer-side function
    ints = []
    for k in KS:
        for dlt in (-1, 0, 1):
            for s in (1, -1):
                ints.append(s * ((1 << k) + dlt))
    ints = sorted(set(ints))
    for b in BOUND:
        for dlt in (-2, -1, 0, 1, 2):
            for s in (1, -1):
                ints.append(s * (b + dlt))
    ints = sorted(set(ints))
    for v in ints:
        yield "mpz_get_d %s" % hx(v)
        yield "mpz_get_d_2exp %s" % hx(v)
        yield "mpz_fits %s" % hx(v)
        yield "mpz_get %s" % hx(v)
        yield "mpz_sgn %s" % hx(v)
        for k in range(5): yield "mpz_cmp_ui_c %s %x" % (hx(v), k)
        for k in range(9): yield "mpz_cmp_si_c %s %x" % (hx(v), k)
        for d in doubles_near_int(v) + doubles_near_int(-v):
            yield "mpz_cmp_d %s %x" % (hx(v), d)
            yield "mpz_cmpabs_d %s %x" % (hx(v), d)
        if 0 <= v < B:
            yield "mpz_set_ui %x" % v; yield "mpz_set_ux %x" % v
            yield "mpz_init_set_ui %x" % v; yield "mpz_init_set_ux %x" % v
        if LONG_MIN <= v <= LONG_MAX:
            yield "mpz_set_si %s" % hx(v); yield "mpz_set_sx %s" % hx(v)
            yield "mpz_init_set_si %s" % hx(v); yield "mpz_init_set_sx %s" % hx(v)
        yield "mpf_get %s" % mpf_tok(rng, abs(v), 0, neg=v < 0)
        yield "mpf_fits %s" % mpf_tok(rng, abs(v), 0, neg=v < 0)
        yield "mpf_get_d %s" % mpf_tok(rng, abs(v), 0, neg=v < 0)
        yield "mpf_cmp_z %s %s" % (mpf_tok(rng, abs(v), 0, neg=v < 0), hx(v))

    # ---- 2. truncation versus rounding: 54..200 significant bits, discarded part <1/2, =1/2, >1/2 ulp
    for nb in list(range(54, 70)) + [100, 118, 127, 128, 129, 191, 192, 193, 200] + [rng.randrange(54, 201) for _ in range(10 * reps)]:
        t = nb - 53
        for m in ((1 << 52), (1 << 53) - 1, (1 << 52) | rng.getrandbits(52), (1 << 52) | rng.getrandbits(52) | 1):
            rs = [0, 1, (1 << t) - 1, 1 << (t - 1)]
            if t >= 2: rs += [(1 << (t - 1)) - 1, (1 << (t - 1)) + 1, rng.getrandbits(t)]
            for r in rs:
                v = (m << t) + r
                for s in (1, -1):
                    yield "mpz_get_d %s" % hx(s * v)
                    yield "mpz_get_d_2exp %s" % hx(s * v)
                    sh = rng.choice([0, -t, -nb, rng.randrange(-300, 300)])
                    yield "mpf_get_d %s" % mpf_tok(rng, v, sh, neg=s < 0)
                    yield "mpf_get_d_2exp %s" % mpf_tok(rng, v, sh, neg=s < 0)
                d = dbl_of_int_trunc(v)
                yield "mpz_cmp_d %s %x" % (hx(v), d)
                yield "mpz_cmp_d %s %x" % (hx(v), d + 1)
                yield "mpz_cmp_d %s %x" % (hx(-v), NEGB | d)
                yield "mpz_cmpabs_d %s %x" % (hx(-v), d + 1)

    # ---- 3. mpn_get_d at its thresholds, all sizes 1..5 and some larger
    for n in [1, 2, 3, 4, 5, 17, 40] + [rng.randrange(1, 60) for _ in range(4 * reps)]:
        for cls in ("uniform", "ones", "onebit", "top", "runs"):
            l = rand_limbs(rng, n, cls)
            if l[-1] == 0: l[-1] = rng.choice([1, 1 << 63, M, rng.getrandbits(64) | 1])
            L = 64 * (n - 1) + l[-1].bit_length()
            exps = [0, 1, -1, LONG_MAX, LONG_MIN, LONG_MAX - 64 * n, LONG_MAX - 64 * n + 1, LONG_MAX - 64 * n - 1,
                    LONG_MIN + 1, -64 * n, rng.randrange(-1200, 1200) - L]
            for E in (1023, 1024, 1025, 1026, -1020, -1021, -1022, -1023, -1024, -1050, -1072, -1073, -1074, -1075, -1076, -1077, -1127, 0, 1, 53, 64):
                exps.append(E - L)
            for e in exps:
                if LONG_MIN <= e <= LONG_MAX:
                    yield "mpn_get_d %s %s %s" % (vec(l), rng.choice(["1", "-1", "0", "5", "-7fffffffffffffff"]), hx(e))
    yield "mpn_get_d [] 0 0"
    yield "mpn_get_d [] -1 5"

    # ---- 4. every class of double through set_d / extract / cmp_d
    dbls = special_doubles() + [rand_double(rng) for _ in range(300 * reps)]
    zs = [0, 1, -1, 2, -2, (1 << 53) - 1, 1 << 53, (1 << 53) + 1, (1 << 63) - 1, 1 << 63, (1 << 64) - 1, 1 << 64, (1 << 64) + 1,
          -(1 << 63), -(1 << 64), (1 << 1023), (1 << 1024) - 1, 1 << 1024, -(1 << 1024), 1 << 1074]
    for d in dbls:
        yield "mpz_set_d %x" % d
        if rng.random() < 0.3: yield "mpz_init_set_d %x" % d
        yield "mpf_set_d %x %x" % (rng.choice([0, 53, 64, 65, 128, 1000]), d)
        if d < INF: yield "extract_double %x" % d
        for z in rng.sample(zs, 4) + [rand_int(rng, 3)]:
            yield "mpz_cmp_d %s %x" % (hx(z), d)
            yield "mpz_cmpabs_d %s %x" % (hx(z), d)
        yield "mpf_cmp_d %s %x" % (rand_mpf(rng), d)
        # the integer nearest below the double, and its neighbours, against the double
        e = (d >> 52) & 2047; m = d & ((1 << 52) - 1)
        if 1023 <= e < 2047:
            full = (1 << 52) | m; sh = e - 1075
            v = full << sh if sh >= 0 else full >> -sh
            if d >> 63: v = -v
            for w in (v - 1, v, v + 1, -v, v + (1 << max(0, sh - 1)), v ^ (1 << rng.randrange(0, max(1, abs(v).bit_length())))):
                yield "mpz_cmp_d %s %x" % (hx(w), d)
                yield "mpz_cmpabs_d %s %x" % (hx(w), d)
            yield "mpf_cmp_d %s %x" % (mpf_tok(rng, full, sh, neg=bool(d >> 63)), d)
            yield "mpf_cmp_d %s %x" % (mpf_tok(rng, full + 1, sh, neg=bool(d >> 63)), d)
            yield "mpf_cmp_d %s %x" % (mpf_tok(rng, 2 * full + 1, sh - 1, neg=bool(d >> 63)), d)
        elif e < 1023 and (d & ~NEGB):
            full = ((1 << 52) | m) if e else m; sh = (e - 1075) if e else -1074
            for a, b_ in ((full, sh), (2 * full + 1, sh - 1), (2 * full - 1, sh - 1)):
                yield "mpf_cmp_d %s %x" % (mpf_tok(rng, a, b_, neg=bool(d >> 63)), d)

    # ---- 5. comparison consistency: all pairs of a mixed set through every comparison entry point
    for _ in range(3 * reps):
        base = rng.choice([0, 1, 1 << 15, 1 << 31, 1 << 32, (1 << 53), (1 << 63), (1 << 64), rand_int(rng, 3, signed=False)])
        S = sorted(set([0, base, -base, base + 1, base - 1, -base - 1, 1 - base, rng.choice(ints), rng.choice(ints),
                        rand_int(rng, 2), rand_int(rng, 2), rand_int(rng, 4)]))
        for a in S:
            for b in S:
                yield "mpz_cmp %s %s" % (hx(a), hx(b))
                yield "mpz_cmpabs %s %s" % (hx(a), hx(b))
                if 0 <= b < B:
                    yield "mpz_cmp_ui %s %x" % (hx(a), b)
                    yield "mpz_cmpabs_ui %s %x" % (hx(a), b)
                    yield "mpf_cmp_ui %s %x" % (mpf_tok(rng, abs(a), 0, neg=a < 0), b)
                if LONG_MIN <= b <= LONG_MAX:
                    yield "mpz_cmp_si %s %s" % (hx(a), hx(b))
                    yield "mpf_cmp_si %s %s" % (mpf_tok(rng, abs(a), 0, neg=a < 0), hx(b))
                if abs(b).bit_length() <= 53:
                    yield "mpz_cmp_d %s %x" % (hx(a), dbl_of_int_trunc(b))
                    yield "mpz_cmpabs_d %s %x" % (hx(a), dbl_of_int_trunc(b))
                yield "mpf_cmp %s %s" % (mpf_tok(rng, abs(a), 0, neg=a < 0), mpf_tok(rng, abs(b), 0, neg=b < 0))
    for _ in range(400 * reps):
        a = rand_int(rng, 4); b = rng.choice([a, -a, a + 1, a - 1, rand_int(rng, 4), a ^ (1 << rng.randrange(0, 200))])
        yield "mpz_cmp %s %s" % (hx(a), hx(b))
        yield "mpz_cmpabs %s %s" % (hx(a), hx(b))
        u = rng.choice([rand_limb(rng), abs(a) & M, (abs(a) & M) ^ 1])
        yield "mpz_cmp_ui %s %x" % (hx(a), u)
        yield "mpz_cmpabs_ui %s %x" % (hx(a), u)
        s = rng.choice([LONG_MIN, LONG_MAX, 0, 1, -1, rng.randrange(LONG_MIN, LONG_MAX + 1), max(LONG_MIN, min(LONG_MAX, a))])
        yield "mpz_cmp_si %s %s" % (hx(a), hx(s))
        yield "mpz_fits %s" % hx(a)
        yield "mpz_get %s" % hx(a)
        yield "mpz_get_d %s" % hx(a)
        yield "mpz_get_d_2exp %s" % hx(a)
    for _ in range(100 * reps):
        u = rand_limb(rng); s = rng.choice([LONG_MIN, LONG_MAX, 0, 1, -1, rng.randrange(LONG_MIN, LONG_MAX + 1), -rng.getrandbits(rng.randrange(1, 63))])
        yield "mpz_set_ui %x" % u; yield "mpz_set_ux %x" % u
        yield "mpz_set_si %s" % hx(s); yield "mpz_set_sx %s" % hx(s)

    # ---- 6. mpf around the C type boundaries: integer +- a fraction, several precisions / exponents / zero padding
    for b in BOUND + [(1 << 15) - 1, (1 << 31) - 1, (1 << 63) - 1, (1 << 64) - 1, (1 << 16) - 1, (1 << 32) - 1]:
        for dlt in (-1, 0, 1):
            for fr in (0, 1, 2):               # value = (b + dlt) + fr/4 as (4(b+dlt) + fr) * 2^-2, or scaled by 2^-70
                for neg in (False, True):
                    v = 4 * (b + dlt) + fr
                    if v < 0: continue
                    for sh in (-2, -72):
                        w = v << 70 if sh == -72 else v
                        f = mpf_tok(rng, w, sh, neg=neg)
                        yield "mpf_fits %s" % f
                        yield "mpf_get %s" % f
                        yield "mpf_integer_p %s" % f
                        yield "mpf_sgn %s" % f
                        yield "mpf_get_d %s" % f
                        yield "mpf_cmp_ui %s %x" % (f, min(M, b + dlt if b + dlt >= 0 else 0))
                        yield "mpf_cmp_si %s %s" % (f, hx(max(LONG_MIN, min(LONG_MAX, (-1 if neg else 1) * (b + dlt)))))
                        yield "mpf_cmp_z %s %s" % (f, hx((-1 if neg else 1) * (b + dlt)))
    for _ in range(600 * reps):
        f = rand_mpf(rng); g = rng.choice([f, rand_mpf(rng), rand_mpf(rng)])
        yield "mpf_cmp %s %s" % (f, g)
        yield "mpf_get_d %s" % f
        yield "mpf_get_d_2exp %s" % f
        yield "mpf_get %s" % f
        yield "mpf_fits %s" % f
        yield "mpf_integer_p %s" % f
        yield "mpf_cmp_ui %s %x" % (f, rand_limb(rng))
        yield "mpf_cmp_si %s %s" % (f, hx(rng.choice([LONG_MIN, LONG_MAX, 0, 1, -1, rng.randrange(LONG_MIN, LONG_MAX + 1)])))
        yield "mpf_cmp_d %s %x" % (f, rand_double(rng))
        yield "mpf_cmp_z %s %s" % (f, hx(rand_int(rng, 3)))
    # mpf_cmp: same value in different shapes (low zero limbs, shorter/longer mantissas differing far down)
    for _ in range(150 * reps):
        bits = rng.choice([1, 64, 65, 128, 190])
        v = rng.getrandbits(bits) | (1 << (bits - 1)); sh = rng.randrange(-200, 200); neg = rng.random() < 0.5
        f = mpf_tok(rng, v, sh, pad=0, neg=neg)
        for g in (mpf_tok(rng, v, sh, pad=2, neg=neg), mpf_tok(rng, (v << 130) + 1, sh - 130, neg=neg), mpf_tok(rng, (v << 130) - 1, sh - 130, neg=neg),
                  mpf_tok(rng, v, sh + 64, neg=neg), mpf_tok(rng, v, sh, neg=not neg), mpf_tok(rng, v + 1, sh, neg=neg)):
            yield "mpf_cmp %s %s" % (f, g)
            yield "mpf_cmp %s %s" % (g, f)
    # mpf_get_d at the overflow / denormal / underflow thresholds
    for E in (1023, 1024, 1025, -1021, -1022, -1023, -1050, -1073, -1074, -1075, -1076):
        for _ in range(3 * reps):
            bits = rng.choice([1, 53, 54, 64, 100])
            v = rng.choice([rng.getrandbits(bits) | (1 << (bits - 1)), (1 << bits) - 1, 1 << (bits - 1)])
            f = mpf_tok(rng, v, E - bits, neg=rng.random() < 0.5)
            yield "mpf_get_d %s" % f
            yield "mpf_get_d_2exp %s" % f
    # huge exponents: (EXP - size) * 64 does not fit a long beyond 2^57 (mpf_get_d saturates, mpf/get_d.c:39-44)
    for e in ((1 << 57) - 1, 1 << 57, (1 << 57) + 1, (1 << 57) + 2, -(1 << 57), -(1 << 57) - 1, -(1 << 57) + 1, (1 << 58) + 1, 1 << 59,
              -((1 << 58) - 1), (1 << 62) - 1, -(1 << 62), 1 << 61, rng.randrange(1 << 57, 1 << 62), -rng.randrange(1 << 57, 1 << 62)):
        yield "mpf_get_d 40 1 %s [1]" % hx(e)
        yield "mpf_get_d 40 -1 %s [8000000000000000]" % hx(e)
        yield "mpf_get_d 80 2 %s [5,ffffffffffffffff]" % hx(e)
        yield "mpf_get_d c0 -3 %s [0,1,3]" % hx(e)
        yield "mpf_get %s" % ("40 1 %s [5]" % hx(e))
        yield "mpf_fits 40 -1 %s [5]" % hx(e)
        yield "mpf_integer_p 40 1 %s [5]" % hx(e)
        yield "mpf_cmp 40 1 %s [5] 40 1 %s [5]" % (hx(e), hx(e + 1))
        yield "mpf_cmp_ui 40 1 %s [5] 5" % hx(e)
        yield "mpf_cmp_si 40 -1 %s [5] -5" % hx(e)
        yield "mpf_cmp_d 40 1 %s [5] 7fefffffffffffff" % hx(e)
    # large exponents for which the exponent of get_d_2exp still fits a long
    for e in ((1 << 56) - 1, -(1 << 56), (1 << 40), -(1 << 40)):
        yield "mpf_get_d 40 1 %s [1]" % hx(e)
        yield "mpf_get_d_2exp 40 -1 %s [8000000000000000]" % hx(e)
        yield "mpf_get 40 1 %s [5]" % hx(e)
        yield "mpf_fits 40 -1 %s [5]" % hx(e)
        yield "mpf_cmp 40 1 %s [5] 40 1 %s [5]" % (hx(e), hx(e + 1))
        yield "mpf_cmp_ui 40 1 %s [5] 5" % hx(e)
        yield "mpf_integer_p 40 1 %s [5]" % hx(e)

# source pins: the C the Lean model mirrors (see tools/pins.py)
PINS = [('mpn/generic/get_d.c', None), ('extract-dbl.c', None), ('mpz/cmp.c', None), ('mpz/cmpabs.c', None), ('mpz/cmp_ui.c', None), ('mpz/cmp_si.c', None), ('mpz/cmpabs_ui.c', None), ('mpz/cmp_d.c', None), ('mpz/cmpabs_d.c', None), ('mpz/get_d.c', None), ('mpz/get_d_2exp.c', None), ('mpz/set_d.c', None), ('mpz/fits_s.h', None), ('mpz/get_si.c', None), ('mpz/get_ui.c', None), ('mpz/set_si.c', None), ('mpz/set_ui.c', None), ('mpf/cmp.c', None), ('mpf/cmp_ui.c', None), ('mpf/cmp_si.c', None), ('mpf/cmp_d.c', None), ('mpf/get_d.c', None), ('mpf/get_d_2exp.c', None), ('mpf/get_si.c', None), ('mpf/get_ui.c', None), ('mpf/fits_s.h', None), ('mpf/fits_u.h', None), ('mpf/set_d.c', None), ('mpf/int_p.c', None)]
