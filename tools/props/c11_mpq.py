"""C11 part: mpq comparisons (mpq_cmp with its limb/bit-count pre-checks, cmp_ui, cmp_si, cmp_z, equal)."""
from math import gcd
from genlib import *
from props.c12_mpq import rand_q, canon, pos, sgn, limbsize, coprime_to, q3

LEAN_MODULES = ["MpirProofs.Props.C11Mpq"]
THEOREMS = ["Mpir.Mpq." + t for t in ("mpq_cmp_spec", "mpq_cmp_prechecks_sound", "mpq_cmp_z_spec", "mpq_cmp_ui_spec", "mpq_cmp_si_spec", "mpq_get_d_spec")]
TRUSTED = ["hand-written value-level model of mpq/cmp.c, cmp_ui.c, cmp_si.c, equal.c, get_d.c (+ the IEEE path of mpn/generic/get_d.c) in lean/Mpir/Model/Mpq.lean (tied by correspondence on every run)"]
ASSUMPTIONS = ["limb and bit counts of the operands are computed from their values (Nat.log2); the limb-level cross products are taken at their value"]
RULE = ("mpq_cmp pairs with num1*den2 and num2*den1 of equal / adjacent / distant limb and bit lengths (each pre-check and the cross-multiplication), "
        "equal values, values differing by one unit in the cross product, opposite signs, zero, integers on one or both sides, same variable; "
        "cmp_ui/cmp_si with den 0, zero, sign cases, size pre-check boundaries, exact equality through non-canonical n/d; distinct = distinct op lines")

def withbits(rng, b):
    """positive integer with exactly b >= 1 bits"""
    if b <= 1: return 1
    return (1 << (b - 1)) | rng.getrandbits(b - 1) if rng.random() < 0.7 else rng.choice([1 << (b - 1), (1 << b) - 1])

def near_pair(rng, tier):
    """canonical a, b with |n1*d2 - n2*d1| tiny"""
    a = rand_q(rng, tier, "gen")
    k = pos(rng, rng.randrange(1, 4))
    e = rng.choice([-2, -1, 1, 2])
    return a, canon(a[0] * k + e, a[1] * k)

def boundary_pair(rng):
    """bit lengths chosen so that bits(n1)+bits(d2) - bits(n2)-bits(d1) in -3..3, around limb boundaries"""
    base = rng.choice([1, 30, 63, 64, 65, 127, 128, 129, 192, 200, 320])
    bn1 = max(1, base + rng.randrange(-2, 3)); bd1 = max(1, rng.choice([1, 2, 63, 64, 65, base]) + rng.randrange(0, 2))
    bd2 = max(1, rng.choice([1, 1, 2, 63, 64, 65, base]) + rng.randrange(0, 2))
    bn2 = max(1, bn1 + bd2 - bd1 + rng.randrange(-3, 4))
    s = sgn(rng, 1)
    return canon(s * withbits(rng, bn1), withbits(rng, bd1)), canon(s * withbits(rng, bn2), withbits(rng, bd2))

def gen_ops(rng, tier, ctx=None):
    N = 1 if tier == "quick" else 6
    small = [(0, 1), (1, 1), (-1, 1), (1, 2), (-1, 2), (2, 3), (3, 2), (-3, 2), (B, 1), (B - 1, 1), (-B, 1), (1, B), (1, B - 1), (B + 1, B), (B * B, 1), (1, B * B)]
    for a in small:
        for b in small:
            yield q3("mpq_cmp", 0, a, b); yield q3("mpq_equal", 0, a, b)
        yield q3("mpq_cmp", 1, a, a); yield q3("mpq_equal", 1, a, a)
        for n in (0, 1, 2, 3, M, 1 << 63):
            for d in (0, 1, 2, 3, M):
                yield "mpq_cmp_ui %s %s %x %x" % (hx(a[0]), hx(a[1]), n, d)
                for s in (1, -1):
                    if -(1 << 63) <= s * n < (1 << 63): yield "mpq_cmp_si %s %s %s %x" % (hx(a[0]), hx(a[1]), hx(s * n), d)
    for _ in range(1500 * N):
        r = rng.random()
        if r < 0.25: a, b = rand_q(rng, tier), rand_q(rng, tier)
        elif r < 0.50: a, b = near_pair(rng, tier)
        elif r < 0.85: a, b = boundary_pair(rng)
        elif r < 0.92: a = rand_q(rng, tier); b = a
        else: a = rand_q(rng, tier, "int"); b = rand_q(rng, tier, rng.choice(["int", "gen", "small"]))
        yield q3("mpq_cmp", 0, a, b); yield q3("mpq_cmp", 0, b, a)
        yield q3("mpq_cmp", 0, a, (-b[0], b[1])); yield q3("mpq_cmp", 0, (-a[0], a[1]), (-b[0], b[1]))
        yield q3("mpq_equal", 0, a, b)
        yield q3("mpq_equal", 0, a, rng.choice([a, (a[0], b[1]), (b[0], a[1]), (-a[0], a[1])]))
        yield q3("mpq_cmp", 1, a, a); yield q3("mpq_equal", 1, a, a)
        yield "mpq_cmp_z %s %s %s" % (hx(a[0]), hx(a[1]), hx(b[0]))
        if a[1] != 1: yield "mpq_cmp_z %s %s %s" % (hx(a[0]), hx(a[1]), hx(a[0] // a[1] + rng.choice([0, 1])))
    # cmp_ui / cmp_si
    for _ in range(1500 * N):
        r = rng.random()
        n = rng.choice([0, 1, 2, M, 1 << 63, (1 << 63) - 1, rng.getrandbits(64), rng.getrandbits(rng.randrange(1, 65))])
        d = rng.choice([0, 1, 1, 2, M, 1 << 63, rng.getrandbits(64) | 1, rng.getrandbits(rng.randrange(1, 65)) | 1])
        if r < 0.3: a = rand_q(rng, tier)
        elif r < 0.6 and d:                                    # exactly equal or off by a hair
            k = rng.choice([1, 1, 2, 3, rng.getrandbits(20) | 1])
            a = canon(n * k + rng.choice([0, 0, 1, -1]), d * k)
        else:                                                  # limb-count boundaries: sizes differ by -2..2
            ln = rng.randrange(1, 5); ld = max(1, ln + rng.randrange(-2, 3))
            a = canon(pos(rng, ln, rng.choice(["uniform", "top", "ones", "lowbit"])), pos(rng, ld, rng.choice(["uniform", "top", "ones", "lowbit"])))
        yield "mpq_cmp_ui %s %s %x %x" % (hx(a[0]), hx(a[1]), n, d)
        yield "mpq_cmp_ui %s %s %x %x" % (hx(-a[0]), hx(a[1]), n, d)
        ns = rng.choice([n & ((1 << 63) - 1), -(n & ((1 << 63) - 1)), -(1 << 63), (1 << 63) - 1])
        if r >= 0.3 and r < 0.6 and d:
            k = rng.choice([1, 2, 3]); a = canon(ns * k + rng.choice([0, 0, 1, -1]), d * k)
        yield "mpq_cmp_si %s %s %s %x" % (hx(a[0]), hx(a[1]), hx(ns), d)
        yield "mpq_cmp_si %s %s %s %x" % (hx(-a[0]), hx(a[1]), hx(ns), d)

    # mpq_get_d: truncation to 53 bits, binade boundaries, overflow to infinity, denormals, underflow to 0
    def gd(q): return "mpq_get_d %s %s" % (hx(q[0]), hx(q[1]))
    for k in (0, 1, 52, 53, 54, 63, 64, 65, 127, 128, 1000, 1021, 1022, 1023, 1024, 1025, 1074, 1075, 1076, 1100, 1200):
        for m in (1, 3, (1 << 53) - 1, (1 << 53) + 1, (1 << 54) - 1, (1 << 64) - 1, (1 << 64) + 1, (1 << 100) - 1):
            for s in (1, -1):
                yield gd(canon(s * m << k, 1)); yield gd(canon(s * m, 1 << k)); yield gd(canon(s * m << k, 3)); yield gd(canon(s * m, 3 << k))
    yield gd((0, 1))
    for _ in range(1500 * N):
        r = rng.random()
        if r < 0.3: q = rand_q(rng, tier)
        elif r < 0.6:                                          # exact doubles and one-ulp-ish neighbours
            m = rng.getrandbits(53) | (1 << 52); e = rng.randrange(-1130, 1030)
            extra = rng.choice([0, 0, 1, -1, rng.getrandbits(40)])
            big = (m << 60) + extra
            q = canon(sgn(rng, big) << max(e, 0), 1 << (60 + max(-e, 0)))
        elif r < 0.8:                                          # n/d with quotient near a power of two
            d = pos(rng, rng.randrange(1, 5)); k = rng.randrange(0, 200)
            q = canon(sgn(rng, (d << k) + rng.choice([-1, 0, 1])), d) if rng.random() < 0.5 else canon(sgn(rng, d), (d << k) + rng.choice([-1, 0, 1]))
        else:                                                  # limb-size differences driving zeros/chop
            q = canon(sgn(rng, pos(rng, rng.randrange(1, 9), "uniform")), pos(rng, rng.randrange(1, 9), "uniform"))
        yield gd(q)

def nontrivial(line):
    return line if line.startswith("mpq_") else None

# source pins: the C the Lean model mirrors (see tools/pins.py)
PINS = [('mpq/cmp.c', None), ('mpq/cmp_ui.c', None), ('mpq/cmp_si.c', None), ('mpq/get_d.c', None)]
