"""C07 part: closing the gcdext chain (lean/MpirProofs/Props/C07_gcdextdc2.lean, lemmas Lemmas/GcdextCanon.lean, HgcdNorm*.lean).
The canonical cofactor `gcdextS` meets the contract of mpn_gcdext and is the unique solution, so the hypothesis MpnGcdextContractDC of the
mpz theorems is discharged (mpz_gcdext_correct / mpz_invert_correct without hypothesis); the sized mirror `mpnGcdextS` of gcdext.c returns
exactly the value-level (G, S) on the proved range, so mpz_gcdext / mpz_invert THROUGH THE MIRROR are correct with no contract hypothesis
for operands whose smaller one has at most 10276 limbs.  No new ops: the sized model is compared by mpn_gcdext_sz / mpn_gcdext_sz_p
(parts c07_gcdext, c07_gcdextdc), the mpz layer by mpz_gcdext_x / mpz_invert_x; this part adds mpz-level inputs around GCDEXT_DC_THRESHOLD."""
from props import c07_gcd as base
from props import c07_gcdext as gx
from genlib import *

LEAN_MODULES = ["MpirProofs.Props.C07_gcdextdc2"]
THEOREMS = ["Mpir.C07z.gcdextS_spec", "Mpir.C07z.mpn_gcdext_contract_unique", "Mpir.C07z.mpn_gcdext_contract_dc", "Mpir.C07z.mpn_gcdext_contract",
            "Mpir.C07z.mpn_gcdext_sized_eq_value_partial", "Mpir.C07z.mpz_gcdext_correct", "Mpir.C07z.mpz_invert_correct",
            "Mpir.C07z.mpz_gcdext_sized_correct_partial", "Mpir.C07z.mpz_gcdext_sized_build_partial"]
TRUSTED = []
ASSUMPTIONS = ["mpz_gcdext_correct / mpz_invert_correct are about the value-level models, in which mpn_gcdext for n >= GCDEXT_DC_THRESHOLD is the canonical "
               "cofactor by definition; the statement-by-statement mirror of the divide-and-conquer code (mpnGcdextS) is PROVED equal to it for divisors with "
               "n - n/3 < HGCD_REDUCE_THRESHOLD (n <= 10276 limbs on this build: mpn_gcdext_sized_eq_value_partial, mpz_gcdext_sized_correct_partial) and rests on the "
               "run beyond (mpn_hgcd_appr's truncation analysis is not proved)"]
PINS = [("mpz/gcdext.c", None), ("mpz/invert.c", None)]

def gen_ops(rng, tier, ctx=None):
    th = base.thresholds(ctx)
    DC = th["GCDEXT_DC_THRESHOLD"]
    if DC > 1200: return
    def rl(n): return rng.getrandbits(64 * n) | 1 << (64 * n - 1) | 1
    for n in (DC, DC + 1) if tier == "quick" else (DC - 1, DC, DC + 1, DC + 9, 2 * DC):
        a, b = gx.chain(rng, n, huge=0.05)
        g = rl(2)
        for sa, sb in ((1, 1), (-1, 1), (1, -1), (-1, -1)):
            yield "mpz_gcdext_x %x %s %s" % (rng.randrange(13), hx(sa * a), hx(sb * b))
            yield "mpz_gcdext_x %x %s %s" % (rng.randrange(13), hx(sb * b), hx(sa * a))
        yield "mpz_gcdext_x 0 %s %s" % (hx(a * g), hx(-b * g))
        yield "mpz_invert_x %x %s %s" % (rng.randrange(3), hx(a), hx(-b))
        yield "mpz_invert_x %x %s %s" % (rng.randrange(3), hx(-b), hx(a))
        yield "mpz_invert_x 0 %s %s" % (hx(a * g), hx(b * g))
