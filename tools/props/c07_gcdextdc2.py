"""C07 part: closing the gcdext chain (lean/MpirProofs/Props/C07_gcdextdc2.lean, lemmas Lemmas/GcdextCanon.lean, HgcdNorm*.lean).
The canonical cofactor `gcdextS` meets the contract of mpn_gcdext and is the unique solution, so the hypothesis MpnGcdextContractDC of the
mpz theorems is discharged (mpz_gcdext_correct / mpz_invert_correct without hypothesis); the sized mirror `mpnGcdextS` of gcdext.c returns
exactly the value-level (G, S) on the proved range, so mpz_gcdext / mpz_invert THROUGH THE MIRROR are correct with no contract hypothesis
for operands whose smaller one has at most 10276 limbs.  No new ops: the sized model is compared by mpn_gcdext_sz / mpn_gcdext_sz_p
(parts c07_gcdext, c07_gcdextdc), the mpz layer by mpz_gcdext_x / mpz_invert_x; this part adds mpz-level inputs around GCDEXT_DC_THRESHOLD."""
from props import c07_gcd as base
from props import c07_gcdext as gx
from genlib import *

LEAN_MODULES = ["MpirProofs.Props.C07_gcdextdc2", "MpirProofs.Props.C07_hgcdnorm"]
THEOREMS = ["Mpir.C07z.gcdextS_spec", "Mpir.C07z.mpn_gcdext_contract_unique", "Mpir.C07z.mpn_gcdext_contract_dc", "Mpir.C07z.mpn_gcdext_contract",
            "Mpir.C07z.mpn_gcdext_sized_eq_value_partial", "Mpir.C07z.mpz_gcdext_correct", "Mpir.C07z.mpz_invert_correct",
            "Mpir.C07z.mpz_gcdext_sized_correct_partial", "Mpir.C07z.mpz_gcdext_sized_build_partial",
            "Mpir.C07n.hgcd_matrix_norm_preserved", "Mpir.C07n.mpn_hgcd_mn_of_norm", "Mpir.C07n.mpn_hgcd_mn_base", "Mpir.C07n.mpn_gcdext_dc_ok_of_norm_partial", "Mpir.C07n.hgcd_matrix_mul_tight_of_balance"]
TRUSTED = []
ASSUMPTIONS = ["mpz_gcdext_correct / mpz_invert_correct are about the value-level models, in which mpn_gcdext for n >= GCDEXT_DC_THRESHOLD is the canonical "
               "cofactor by definition; the statement-by-statement mirror of the divide-and-conquer code (mpnGcdextS) is PROVED equal to it for divisors with "
               "n - n/3 < HGCD_REDUCE_THRESHOLD (n <= 10276 limbs on this build: mpn_gcdext_sized_eq_value_partial, mpz_gcdext_sized_correct_partial) and rests on the "
               "run beyond (mpn_hgcd_appr's truncation analysis is not proved)",
               "HgcdMn (M->n <= (n-p-1)/2 on mpn_hgcd's result, gcdext.c:296/:347) is proved for n <= HGCD_THRESHOLD (mpn_hgcd_mn_base) and reduced, for every size, to "
               "tightness of the returned matrix's size field (HgcdNorm = the ASSERT of mpn_hgcd_matrix_mul; tightness is proved preserved by update_q, mul_1, "
               "every branch of mpn_hgcd_step and the loops); that mpn_hgcd_matrix_mul keeps it (product of normalised size >= M->n + M1->n - 2) is proved only GIVEN balance of the state w.r.t. the last factor of M (hgcd_matrix_mul_tight_of_balance); the balance invariant through mpn_hgcd2 / the recursion is not proved — "
               "both facts are evaluated on the real mpn_hgcd's output by the predicate op mpn_hgcd_tight on every run"]
PINS = [("mpz/gcdext.c", None), ("mpz/invert.c", None), ("mpn/generic/hgcd_matrix.c", None), ("mpn/generic/hgcd_step.c", None),
        ("mpn/generic/gcd_subdiv_step.c", None), ("mpn/generic/hgcd.c", "mpn_hgcd")]

def nl(x): return (x.bit_length() + 63) // 64

def gen_ops(rng, tier, ctx=None):
    th = base.thresholds(ctx)
    DC = th["GCDEXT_DC_THRESHOLD"]
    if DC > 1200: return
    def rl(n): return rng.getrandbits(64 * n) | 1 << (64 * n - 1) | 1
    for n in (DC, DC + 1) if tier == "quick" else (DC - 1, DC, DC + 1, DC + 9, 2 * DC):
        a, b = gx.chain(rng, n, huge=0.05)
        g = rl(2)
        for sa, sb in ((1, 1), (-1, 1), (1, -1), (-1, -1)):
            yield "mpz_gcdext_x %x %s %s" % (rng.randrange(13), hx(sa * a), hx(sb * b))
            yield "mpz_gcdext_x %x %s %s" % (rng.randrange(13), hx(sb * b), hx(sa * a))
        yield "mpz_gcdext_x 0 %s %s" % (hx(a * g), hx(-b * g))
        yield "mpz_invert_x %x %s %s" % (rng.randrange(3), hx(a), hx(-b))
        yield "mpz_invert_x %x %s %s" % (rng.randrange(3), hx(-b), hx(a))
        yield "mpz_invert_x 0 %s %s" % (hx(a * g), hx(b * g))

    # the size field of the hgcd matrix on the REAL mpn_hgcd: tight and M->n <= (n-1)/2 (predicate op mpn_hgcd_tight)
    HT = th["HGCD_THRESHOLD"]
    sizes = [3, 4, 5, 6, 7, 9, 12, 16, 25, 40] + [HT - 1, HT, HT + 1, HT + 2, 2 * HT + 1, DC - DC // 2, DC - DC // 3, DC]
    if tier != "quick": sizes += [2 * DC // 3 + 1, 2 * DC, 3 * HT + 2, 4 * HT + 3, 1000]
    for n in sizes:
        if n < 3: continue
        for k in range(4 if n < 50 else 2 if tier == "quick" else 6):
            kind = k % 4
            if kind == 0: a, b = rl(n), rl(n) >> rng.randrange(0, 64)
            elif kind == 1: a, b = gx.chain(rng, n, huge=0.0)                    # small quotients only
            elif kind == 2: a, b = gx.chain(rng, n, huge=0.3)                    # multi-limb quotients: update_q's general branch
            else:
                b = rl(n - max(1, n // 4)); a = b * rl(max(1, n // 4)) + rng.getrandbits(64 * (n // 2))   # one huge first quotient
            if nl(a) < nl(b): a, b = b, a
            n2 = nl(a)
            if n2 < 3 or b <= 0: continue
            yield "mpn_hgcd_tight %s %s" % (gx.V(a, n2), gx.V(b, n2))
            yield "mpn_hgcd_tight %s %s" % (gx.V(b, n2), gx.V(a, n2))
