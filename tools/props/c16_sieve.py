"""C16 part: the prime sieve (primesieve.c) and the sieve-based internals of factorial / primorial / binomial,
next-prime candidate (merged into c16.py automatically)."""
import os, sys
from genlib import *

LEAN_MODULES = ["MpirProofs.Props.C16_sieve"]
THEOREMS = ["Mpir.Sieve.sieve_index_maps", "Mpir.Sieve.gmp_primesieve_spec", "Mpir.Sieve.sieve_bit_eq_isPrimeTD",
            "Mpir.Sieve.first_block_primesieve_spec", "Mpir.Sieve.block_resieve_spec'",
            "Mpir.Numth.swing_exponent", "Mpir.Numth.swing_prime_ranges", "Mpir.Numth.swing_products_fit", "Mpir.Numth.multiswing_spec",
            "Mpir.Numth.oddfac_1_spec", "Mpir.Numth.fac_ui_spec", "Mpir.Numth.two_fac_ui_spec",
            "Mpir.Numth.kummer_borrow_chain", "Mpir.Numth.goetgheluck_prime_ranges", "Mpir.Numth.goetgheluck_bin_uiui_spec",
            "Mpir.Numth.bin_uiui_goetgheluck_spec"]
TRUSTED = ["hand-written limb-level model lean/Mpir/Model/Sieve.lean of primesieve.c (tied by the ops gmp_primesieve / first_block_primesieve / "
           "block_resieve: whole bit array and count compared; the two static functions are reached by compiling the tree's primesieve.c "
           "into harness/ops_sieve.c under other names, and that copy is compared with the library object on every gmp_primesieve op)"]
ASSUMPTIONS = ["sieve model: mp_limb_t quantities other than the rotating masks are written in unbounded naturals; for n < 2^64 every "
               "index/stride the C computes is < 2^64 (bit indices < n/3, strides < 2^34) except possibly the `lindex > bits` break test of a "
               "prime just above 2^32.9, which needs a sieve of > 2^60 limbs"]
RULE = ("gmp_primesieve / first_block_primesieve: every n in 5..420 (all of the seed-only range and SEED_LIMIT +-), n = p^2 and p^2 +-1..+-6, "
        "n at every limb boundary of the bit array (bits+1 = 0, +-1 mod 64), first/last n of block mode (size = 2*BLOCK_SIZE, +1) and sizes with "
        "size % BLOCK_SIZE in {0, 1, BLOCK_SIZE-1} (quick: a few, thorough: more and larger); block_resieve directly on small windows whose top "
        "is p^2-2..p^2+2, p*p'-2..p*p' (the `continue` path with __mask left behind), windows reached only by exhausting the sieve, random windows")

# ------------------------------------------------------------------ helpers (input construction only)
def bit_to_n(b): return (3 * b + 4) | 1
def n_to_bit(n): return ((n - 5) | 1) // 3

_comp = {}
def comp_limbs(nlimbs):
    """reference bit array (set = composite) for bits 0 .. 64*nlimbs-1, by a plain Eratosthenes sieve"""
    if nlimbs in _comp: return _comp[nlimbs]
    nbits = 64 * nlimbs
    N = bit_to_n(nbits) + 1
    s = bytearray([1]) * (N + 1); s[0] = s[1] = 0
    i = 2
    while i * i <= N:
        if s[i]: s[i * i::i] = bytes(len(range(i * i, N + 1, i)))
        i += 1
    out = []
    for l in range(nlimbs):
        v = 0
        for j in range(64):
            if not s[bit_to_n(64 * l + j)]: v |= 1 << j
        out.append(v)
    _comp[nlimbs] = out
    return out

def small_primes(lim):
    s = bytearray([1]) * (lim + 1); s[0] = s[1] = 0
    for i in range(2, int(lim ** 0.5) + 1):
        if s[i]: s[i * i::i] = bytes(len(range(i * i, lim + 1, i)))
    return [i for i in range(lim + 1) if s[i]]

# ------------------------------------------------------------------ generators
def gen_sieve(rng, tier):
    ns = set(range(5, 421))
    ps = small_primes(1100 if tier == "quick" else 4000)
    for p in ps:
        if p < 5: continue
        if tier == "quick" and p > 120 and rng.random() < 0.9: continue
        for d in (range(-6, 7) if p <= 120 or tier != "quick" else (-6, -2, -1, 0, 1, 2, 6)): ns.add(p * p + d)
        q = p + 2 if p % 6 == 5 else p + 4                      # p * (next number coprime to 6)
        for d in (-2, -1, 0, 1): ns.add(p * q + d)
    for k in list(range(1, 12)) + [16, 31, 32, 33, 64, 100, 128] + ([512, 1000, 2048, 4095] if tier != "quick" else []):
        for b in (64 * k - 2, 64 * k - 1, 64 * k, 64 * k + 1):     # last bit of the array around a limb boundary
            ns.add(bit_to_n(b)); ns.add(bit_to_n(b) + 1); ns.add(bit_to_n(b + 1) - 1)
    for _ in range(40 if tier == "quick" else 400):
        ns.add(rng.randrange(5, 1 << rng.randrange(4, 19)))
    for n in sorted(ns):
        if n > 4:
            yield "gmp_primesieve %x" % n
            if n < 3000 or rng.random() < 0.3: yield "first_block_primesieve %x" % n
    # block mode: size = bits/64+1 > 2*BLOCK_SIZE = 4096
    BS = 2048
    sizes = [2 * BS, 2 * BS + 1] + ([3 * BS - 1, 3 * BS, 3 * BS + 1] if tier == "quick" else
                                    [2 * BS + 2, 3 * BS - 1, 3 * BS, 3 * BS + 1, 4 * BS, 4 * BS + 1, 5 * BS - 1, 2 * BS + 777, 8 * BS + 3, 16 * BS, 33 * BS + 5])
    for size in sizes:
        lo, hi = bit_to_n(64 * (size - 1)), bit_to_n(64 * size - 1)      # the n with primesieve_size(n) = size
        pts = [lo, hi + 1] if tier == "quick" else [lo, lo + 1, hi, hi + 1, rng.randrange(lo, hi + 2)]
        for n in pts: yield "gmp_primesieve %x" % n
    if tier != "quick":
        for n in (10 ** 6, 10 ** 6 + 3, 1299709, 1299709 ** 1, 2 ** 21, 3 * 10 ** 6, 10 ** 7):
            yield "gmp_primesieve %x" % n
        # a block whose top is a prime square / p*p': n chosen so that some block ends there is not controllable
        # (blocks end at multiples of BLOCK_SIZE limbs); the direct block_resieve lines below construct it.
    # block_resieve directly
    def line(limbs, off, sb):
        sv = comp_limbs(sb // 64 + 1)
        return "block_resieve %x %x %s %x" % (limbs, off, vec(sv), sb)
    for off_l in (1, 2, 3, 5, 8, 13):
        for limbs in (1, 2, 3):
            yield line(limbs, off_l * 64, off_l * 64 - 1)
    for p in ps:
        if p < 5 or p > (80 if tier == "quick" else 400): continue
        q = p + 2 if p % 6 == 5 else p + 4
        for m in (p * p - 2, p * p, p * p + 2, p * q - 2, p * q - 1, p * q, p * q + 2):
            last = n_to_bit(m)                                  # top bit of the window
            for limbs in (1, 2):
                off = last - (limbs * 64 - 1)
                if off < 1: continue
                yield line(limbs, off, off - 1)                # `break` / `continue` decided by the top
                sb = n_to_bit(p)                               # sieve ends at p itself: loop ends by exhaustion right after p
                if sb < off: yield line(limbs, off, sb)
    for _ in range(40 if tier == "quick" else 400):
        limbs = rng.randrange(1, 6); off = rng.randrange(1, 3000); sb = rng.randrange(0, off)
        yield line(limbs, off, sb)

def gen_ops(rng, tier, ctx=None):
    yield from gen_sieve(rng, tier)

def nontrivial(line):
    return line if line.split(" ", 1)[0] in ("gmp_primesieve", "first_block_primesieve", "block_resieve") else None

# source pins: the C the Lean models of this part mirror (see tools/pins.py)
PINS = [("primesieve.c", None)]
