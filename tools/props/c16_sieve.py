"""C16 part: the prime sieve (primesieve.c) and the sieve-based internals of factorial / primorial / binomial,
next-prime candidate (merged into c16.py automatically)."""
import os, sys
from genlib import *

LEAN_MODULES = ["MpirProofs.Props.C16_sieve"]
THEOREMS = ["Mpir.Sieve.sieve_index_maps", "Mpir.Sieve.gmp_primesieve_spec", "Mpir.Sieve.sieve_bit_eq_isPrimeTD",
            "Mpir.Sieve.first_block_primesieve_spec", "Mpir.Sieve.block_resieve_spec'",
            "Mpir.Numth.swing_exponent", "Mpir.Numth.swing_prime_ranges", "Mpir.Numth.swing_products_fit", "Mpir.Numth.multiswing_spec",
            "Mpir.Numth.oddfac_1_spec", "Mpir.Numth.fac_ui_spec", "Mpir.Numth.two_fac_ui_spec",
            "Mpir.Numth.kummer_borrow_chain", "Mpir.Numth.goetgheluck_prime_ranges", "Mpir.Numth.goetgheluck_bin_uiui_spec",
            "Mpir.Numth.bin_uiui_goetgheluck_spec", "Mpir.Numth.primorial_ui_spec",
            "Mpir.Sieve.npc_residue_invariant", "Mpir.Sieve.npc_small_path_spec", "Mpir.Sieve.npc_candidate_spec",
            "Mpir.Sieve.nextprimeLoop_spec", "Mpir.Sieve.nextprime_no_prime_skipped", "Mpir.Sieve.sieve_users_on_real_sieve"]
TRUSTED = ["hand-written limb-level model lean/Mpir/Model/Sieve.lean of primesieve.c (tied by the ops gmp_primesieve / first_block_primesieve / "
           "block_resieve: whole bit array and count compared; the two static functions are reached by compiling the tree's primesieve.c "
           "into harness/ops_sieve.c under other names, and that copy is compared with the library object on every gmp_primesieve op)"]
ASSUMPTIONS = ["sieve model: mp_limb_t quantities other than the rotating masks are written in unbounded naturals; for n < 2^64 every "
               "index/stride the C computes is < 2^64 (bit indices < n/3, strides < 2^34) except possibly the `lindex > bits` break test of a "
               "prime just above 2^32.9, which needs a sieve of > 2^60 limbs"]
RULE = ("gmp_primesieve / first_block_primesieve: every n in 5..420 (all of the seed-only range and SEED_LIMIT +-), n = p^2 and p^2 +-1..+-6, "
        "n at every limb boundary of the bit array (bits+1 = 0, +-1 mod 64), first/last n of block mode (size = 2*BLOCK_SIZE, +1) and sizes with "
        "size % BLOCK_SIZE in {0, 1, BLOCK_SIZE-1} (quick: a few, thorough: more and larger); block_resieve directly on small windows whose top "
        "is p^2-2..p^2+2, p*p'-2..p*p' (the `continue` path with __mask left behind), windows reached only by exhausting the sieve, random windows")

# ------------------------------------------------------------------ helpers (input construction only)
def bit_to_n(b): return (3 * b + 4) | 1
def n_to_bit(n): return ((n - 5) | 1) // 3

_comp = {}
def comp_limbs(nlimbs):
    """reference bit array (set = composite) for bits 0 .. 64*nlimbs-1, by a plain Eratosthenes sieve"""
    if nlimbs in _comp: return _comp[nlimbs]
    nbits = 64 * nlimbs
    N = bit_to_n(nbits) + 1
    s = bytearray([1]) * (N + 1); s[0] = s[1] = 0
    i = 2
    while i * i <= N:
        if s[i]: s[i * i::i] = bytes(len(range(i * i, N + 1, i)))
        i += 1
    out = []
    for l in range(nlimbs):
        v = 0
        for j in range(64):
            if not s[bit_to_n(64 * l + j)]: v |= 1 << j
        out.append(v)
    _comp[nlimbs] = out
    return out

def small_primes(lim):
    s = bytearray([1]) * (lim + 1); s[0] = s[1] = 0
    for i in range(2, int(lim ** 0.5) + 1):
        if s[i]: s[i * i::i] = bytes(len(range(i * i, lim + 1, i)))
    return [i for i in range(lim + 1) if s[i]]

# ------------------------------------------------------------------ generators
def gen_sieve(rng, tier):
    ns = set(range(5, 421))
    ps = small_primes(1100 if tier == "quick" else 2000)
    for p in ps:
        if p < 5: continue
        if p > 120 and rng.random() < (0.9 if tier == "quick" else 0.8): continue       # the lines grow with n/192 limbs each
        for d in (range(-6, 7) if p <= 120 else (-6, -2, -1, 0, 1, 2, 6)): ns.add(p * p + d)
        q = p + 2 if p % 6 == 5 else p + 4                      # p * (next number coprime to 6)
        for d in (-2, -1, 0, 1): ns.add(p * q + d)
    for k in list(range(1, 12)) + [16, 31, 32, 33, 64, 100, 128] + ([512, 2048, 4095] if tier != "quick" else []):
        for b in (64 * k - 2, 64 * k - 1, 64 * k, 64 * k + 1):     # last bit of the array around a limb boundary
            ns.add(bit_to_n(b)); ns.add(bit_to_n(b) + 1); ns.add(bit_to_n(b + 1) - 1)
    for _ in range(40 if tier == "quick" else 400):
        ns.add(rng.randrange(5, 1 << rng.randrange(4, 19)))
    for n in sorted(ns):
        if n > 4:
            yield "gmp_primesieve %x" % n
            if n < 3000 or rng.random() < 0.3: yield "first_block_primesieve %x" % n
    # block mode: size = bits/64+1 > 2*BLOCK_SIZE = 4096
    BS = 2048
    sizes = [2 * BS, 2 * BS + 1] + ([3 * BS - 1, 3 * BS, 3 * BS + 1] if tier == "quick" else
                                    [2 * BS + 2, 3 * BS - 1, 3 * BS, 3 * BS + 1, 4 * BS, 4 * BS + 1, 5 * BS - 1, 2 * BS + 777, 8 * BS + 3, 16 * BS, 33 * BS + 5])
    for size in sizes:
        lo, hi = bit_to_n(64 * (size - 1)), bit_to_n(64 * size - 1)      # the n with primesieve_size(n) = size
        pts = [lo, hi + 1] if tier == "quick" else [lo, lo + 1, hi, hi + 1, rng.randrange(lo, hi + 2)]
        for n in pts: yield "gmp_primesieve %x" % n
    if tier != "quick":
        for n in (10 ** 6, 10 ** 6 + 3, 1299709, 2 ** 21, 3 * 10 ** 6, 10 ** 7):
            yield "gmp_primesieve %x" % n
        # a block whose top is a prime square / p*p': n chosen so that some block ends there is not controllable
        # (blocks end at multiples of BLOCK_SIZE limbs); the direct block_resieve lines below construct it.
    # block_resieve directly
    def line(limbs, off, sb):
        sv = comp_limbs(sb // 64 + 1)
        return "block_resieve %x %x %s %x" % (limbs, off, vec(sv), sb)
    for off_l in (1, 2, 3, 5, 8, 13):
        for limbs in (1, 2, 3):
            yield line(limbs, off_l * 64, off_l * 64 - 1)
    for p in ps:
        if p < 5 or p > (80 if tier == "quick" else 400): continue
        q = p + 2 if p % 6 == 5 else p + 4
        for m in (p * p - 2, p * p, p * p + 2, p * q - 2, p * q - 1, p * q, p * q + 2):
            last = n_to_bit(m)                                  # top bit of the window
            for limbs in (1, 2):
                off = last - (limbs * 64 - 1)
                if off < 1: continue
                yield line(limbs, off, off - 1)                # `break` / `continue` decided by the top
                sb = n_to_bit(p)                               # sieve ends at p itself: loop ends by exhaustion right after p
                if sb < off: yield line(limbs, off, sb)
    for _ in range(40 if tier == "quick" else 400):
        limbs = rng.randrange(1, 6); off = rng.randrange(1, 3000); sb = rng.randrange(0, off)
        yield line(limbs, off, sb)

_cc = {}
def consts(ctx):
    """thresholds / table limits of the tree being checked (defaults = pinned tree)"""
    key = getattr(ctx, "build", None)
    if key not in _cc:
        d = dict(FAC_DSC_THRESHOLD=898, ODD_FACTORIAL_TABLE_LIMIT=25, ODD_FACTORIAL_EXTTABLE_LIMIT=67, ODD_DOUBLEFACTORIAL_TABLE_LIMIT=33,
                 ODD_CENTRAL_BINOMIAL_TABLE_LIMIT=35, BIN_GOETGHELUCK_THRESHOLD=1000, BIN_UIUI_ENABLE_SMALLDC=1, BIN_UIUI_RECURSIVE_SMALLDC=1)
        if key:
            try:
                sys.path.insert(0, os.path.dirname(os.path.dirname(os.path.abspath(__file__))))
                from gen_numth_tabs import extract
                tabs, vals = extract(key); d.update({k: v for k, v in vals.items() if k in d})
            except Exception:
                pass
        _cc[key] = d
    return _cc[key]

ALG = {"zero": 0, "tiny": 1, "bc": 2, "smallk": 3, "smallkdc": 4, "goetgheluck": 5, "bdiv": 6}
def dispatch(n, k0, C):
    """the algorithm mpz_bin_uiui selects (bin_uiui.c:713-741) -- the Lean side checks this against its own dispatch model"""
    if n < k0: return "zero"
    k = min(k0, n - k0)
    if k < 2: return "tiny"
    if n <= C["ODD_FACTORIAL_EXTTABLE_LIMIT"]: return "bc"
    if k <= C["ODD_FACTORIAL_TABLE_LIMIT"]: return "smallk"
    if C["BIN_UIUI_ENABLE_SMALLDC"] and k <= (C["ODD_CENTRAL_BINOMIAL_TABLE_LIMIT"] if C["BIN_UIUI_RECURSIVE_SMALLDC"] else C["ODD_FACTORIAL_TABLE_LIMIT"]) * 2: return "smallkdc"
    gt = C["BIN_GOETGHELUCK_THRESHOLD"]
    if (gt == 0 or k >= gt) and k > (n >> 4): return "goetgheluck"
    return "bdiv"

def gen_fac(rng, tier, C):
    dsc = C["FAC_DSC_THRESHOLD"]
    ends = [C["ODD_FACTORIAL_TABLE_LIMIT"], C["ODD_DOUBLEFACTORIAL_TABLE_LIMIT"] + 1, dsc, 2 * dsc, 4 * dsc, 8 * dsc, 2 * dsc + 1, 4 * dsc + 3]
    ns = set(range(0, 80))
    for e in ends:
        for d in range(-3, 4):
            if e + d >= 0: ns.add(e + d)
    for _ in range(40 if tier == "quick" else 300): ns.add(rng.randrange(80, 6000 if tier == "quick" else 60000))
    for n in sorted(ns):
        yield "mpz_oddfac_1 %x 0" % n
        if n >= dsc and n > C["ODD_FACTORIAL_TABLE_LIMIT"]: yield "mpz_oddfac_1 %x 1" % n      # ASSERT domain of flag = 1
    for n in ([16 * dsc + 1, 20011] if tier == "quick" else [64 * dsc + 1, 100003, 131071, 200003]):
        yield "mpz_oddfac_1 %x 0" % n
        yield "mpz_oddfac_1 %x 1" % n
    # mpz_2multiswing_1: ASSERT (n >= 26); limb_apprsqrt changes where n - 1 crosses a power of two; the three prime ranges move with
    # n/3, n/2, n: n = 2p, 3p, p, p^2 and neighbours
    ms = set(range(26, 140))
    for s in range(5, 22):
        for d in (-1, 0, 1, 2, 3): ms.add((1 << s) + d)
    ps = small_primes(300)
    for q in ps[2:]:
        for m in (q * q, 2 * q, 3 * q, 6 * q):
            for d in (-2, -1, 0, 1, 2):
                if m + d >= 26 and (tier != "quick" or q < 60 or d == 0): ms.add(m + d)
    for _ in range(60 if tier == "quick" else 500): ms.add(rng.randrange(26, 30000 if tier == "quick" else 400000))
    if tier != "quick": ms |= {786437, 786500, 1000003, 2 ** 21 + 1}        # sieve built in block mode
    for n in sorted(ms): yield "mpz_2multiswing_1 %x" % n
    # mpz_prodlimbs: the "stack of products"; lengths across RECURSIVE_PROD_THRESHOLD, limbs of every size
    for ln in list(range(2, 12)) + [13, 14, 15, 16, 17, 25, 31, 32, 33, 40] + ([64, 100, 200] if tier != "quick" else []):
        for cls in ("small", "max", "mixed"):
            if cls == "small": v = [rng.randrange(1, 1 << rng.randrange(1, 20)) for _ in range(ln)]
            elif cls == "max": v = [M - rng.randrange(0, 3) for _ in range(ln)]
            else: v = [rng.randrange(1, 1 << rng.randrange(1, 65)) for _ in range(ln)]
            yield "mpz_prodlimbs %s" % vec(v)

def gen_bin(rng, tier, C):
    ext = C["ODD_FACTORIAL_EXTTABLE_LIMIT"]; kt = C["ODD_FACTORIAL_TABLE_LIMIT"]; kdc = 2 * C["ODD_CENTRAL_BINOMIAL_TABLE_LIMIT"]
    gt = C["BIN_GOETGHELUCK_THRESHOLD"]
    def sel(n, k):
        return "bin_uiui_sel %x %x %x" % (n, k, ALG[dispatch(n, k, C)])
    pts = set()
    # every algorithm switch: k = 1|2, kt|kt+1, kdc|kdc+1, gt-1|gt, k = n/16 | n/16+1, n = ext|ext+1, k > n
    for n in (ext - 1, ext, ext + 1, ext + 2, 100, 141, 2 * kdc + 2, 4096, 16 * gt - 1, 16 * gt, 16 * gt + 15, 16 * gt + 16, 16 * gt + 17, 20000, 32768, 65536, 1 << 20, (1 << 32) + 5, M - 3, M):
        for k in (0, 1, 2, 3, kt - 1, kt, kt + 1, kt + 2, kdc - 1, kdc, kdc + 1, kdc + 2, gt - 1, gt, gt + 1, (n >> 4) - 1, n >> 4, (n >> 4) + 1, (n >> 4) + 2, n // 2, n // 2 + 1):
            if 0 <= k <= n and (min(k, n - k) < 3 * gt or n < (1 << 17)): pts.add((n, k)); pts.add((n, n - k))
        pts.add((n, n)); 
        if n < M: pts.add((n, n + 1))
    # Goetgheluck region: a prime power p^e just below / at n so that the subtraction borrows in every digit of base p
    for p, e in ((3, 8), (3, 9), (5, 5), (5, 6), (7, 4), (7, 5), (11, 4), (13, 4), (2, 14), (2, 15), (17, 3), (19, 3), (23, 3), (37, 3), (127, 2), (181, 2)):
        q = p ** e
        for n in (q, q + 1, q + p - 1, q - 1, 2 * q - 1):
            if n < 3 * gt: continue
            for k in ((n >> 4) + 1, gt, gt + 1, (n // 2) - (n // 2) % p + 1, n // 3, n // 2):
                if gt <= k <= n // 2 and k > (n >> 4) and k < 3 * gt + (0 if tier == "quick" else 20000): pts.add((n, k))
    for _ in range(60 if tier == "quick" else 600):
        reg = rng.randrange(5)
        if reg == 0: n, k = rng.randrange(ext + 1, 1 << rng.randrange(8, 64)), rng.randrange(2, kt + 1)
        elif reg == 1: n, k = rng.randrange(kdc + 1, 1 << rng.randrange(8, 64)), rng.randrange(kt + 1, kdc + 1)
        elif reg == 2: n, k = rng.randrange(2 * kdc + 2, 1 << rng.randrange(9, 64)), rng.randrange(kdc + 1, min(gt, 400))
        elif reg == 3: k = rng.randrange(gt, 2 * gt); n = rng.randrange(2 * k, 16 * k)
        else: k = rng.randrange(gt, gt + 300); n = rng.randrange(16 * k + 16, 40 * k)
        if 2 * k <= n: pts.add((n, k))
    for n, k in sorted(pts): yield sel(n, k)
    # the static algorithms directly, also far outside the region where the dispatcher would use them
    for n in list(range(25, 70)) + [97, 121, 125, 128, 169, 243, 256, 343, 512, 625, 729, 1000, 1024, 2187, 2401, 3125, 4096, 6561]:
        ks = range(0, n // 2 + 1) if n < 70 else sorted(set([0, 1, 2, 3, 5, 6, 7, n // 16, n // 5, n // 3, n // 2 - 1, n // 2] + [rng.randrange(0, n // 2 + 1) for _ in range(6)]))
        for k in ks:
            if n_to_bit(n - k) < n_to_bit(n): yield "goetgheluck_bin_uiui %x %x" % (n, k)
    for _ in range(40 if tier == "quick" else 400):
        n = rng.randrange(25, 1 << rng.randrange(6, 17 if tier == "quick" else 21)); k = rng.randrange(0, min(n // 2, 2500) + 1)
        if n_to_bit(n - k) < n_to_bit(n): yield "goetgheluck_bin_uiui %x %x" % (n, k)
    # smallk: nmax = log_n_max(n) changes at the limb roots; k = 2..kt
    roots = [M, 1 << 32, 4294967295, 2642245, 2642246, 65535, 65536, 7131, 7132, 1625, 1626, 565, 566, 255, 256]
    for n in roots + [rng.randrange(60, 1 << rng.randrange(7, 64)) for _ in range(20 if tier == "quick" else 200)]:
        for k in (range(2, kt + 1) if n in roots[:9] or tier != "quick" else (2, 3, 7, 8, 9, 16, 17, kt - 1, kt)):
            if 2 * k <= n: yield "smallk_bin_uiui %x %x" % (n, k)
    for n in [ext + 1, 2 * kdc, 2 * kdc + 1, 200, 1000, 65536, 1 << 32, M] + [rng.randrange(ext + 1, 1 << rng.randrange(8, 64)) for _ in range(10 if tier == "quick" else 100)]:
        for k in (range(kt + 1, kdc + 1) if tier != "quick" or n in (ext + 1, M, 1000) else (kt + 1, kt + 2, 33, 34, 35, 36, 51, kdc - 1, kdc)):
            if 2 * k <= n: yield "smallkdc_bin_uiui %x %x" % (n, k)
    for n, k in [(200, 71), (200, 100), (1000, 71), (1000, 500), (4096, 256), (16 * gt + 16, gt), (40000, 1001), (1 << 20, 999), (1 << 32, 300), (M, 71), (M, 999), (M - 5, 128)] + \
                [(rng.randrange(60, 1 << rng.randrange(7, 40)), rng.randrange(kt + 1, 700)) for _ in range(30 if tier == "quick" else 300)]:
        if 2 * k <= n: yield "bdiv_bin_uiui %x %x" % (n, k)

def gen_npc(rng, tier):
    seeds = lambda: rng.randrange(1, 1 << 32)
    pts = list(range(-3, 40)) + list(range(40, 1100, 3)) + [991, 992, 995, 996, 997, 998, 999, 1000, 1008, 1009]
    pts += [997 * 997 - 3, 997 * 997 - 2, 997 * 997 - 1, 997 * 997, 991 * 997 - 1, 997 * 1009 - 2, 1009 * 1009 - 1, 10 ** 6 - 18, 10 ** 6 - 1, 10 ** 6,
            (1 << 32) - 6, (1 << 32), (1 << 63) - 26, M - 60, M - 58, M, B, B + 12, (1 << 127) - 2, (1 << 128) + 50]
    # long runs of candidates that all have a small factor: just after a primorial-like multiple
    import math
    P = 1
    for q in small_primes(60): P *= q
    pts += [P - 61, P - 1, P, P + 1, 2 * P - 1, 2 * P + 1]
    for g in (1349533, 2010733, 17051707, 20831323, 1294268491, 304599508537, 1693182318746371, 1425172824437699411):   # maximal gaps
        pts += [g - 1, g, g + 1]
    for _ in range(60 if tier == "quick" else 800): pts.append(rng.getrandbits(rng.randrange(11, 65)))
    for _ in range(5 if tier == "quick" else 60): pts.append(rng.getrandbits(rng.randrange(65, 200)))
    for n in pts: yield "npc_walk %s %x" % (hx(n), seeds())

def gen_ops(rng, tier, ctx=None):
    C = consts(ctx)
    yield from gen_sieve(rng, tier)
    yield from gen_fac(rng, tier, C)
    yield from gen_bin(rng, tier, C)
    yield from gen_npc(rng, tier)

_MINE = ("gmp_primesieve", "first_block_primesieve", "block_resieve", "mpz_oddfac_1", "mpz_2multiswing_1", "mpz_prodlimbs", "bin_uiui_sel",
         "goetgheluck_bin_uiui", "smallk_bin_uiui", "smallkdc_bin_uiui", "bdiv_bin_uiui", "npc_walk")
def nontrivial(line):
    return line if line.split(" ", 1)[0] in _MINE else None

# source pins: the C the Lean models of this part mirror (see tools/pins.py)
PINS = [("primesieve.c", None), ("mpz/oddfac_1.c", "mpz_2multiswing_1"), ("mpz/oddfac_1.c", "SWING_A_PRIME#2"), ("mpz/oddfac_1.c", "SH_SWING_A_PRIME"),
        ("mpz/oddfac_1.c", "limb_apprsqrt"), ("mpz/oddfac_1.c", "LOOP_ON_SIEVE_BEGIN"), ("mpz/oddfac_1.c", "LOOP_ON_SIEVE_CONTINUE"),
        ("mpz/oddfac_1.c", "LOOP_ON_SIEVE_STOP"), ("mpz/oddfac_1.c", "FACTOR_LIST_STORE"), ("mpz/oddfac_1.c", "FACTOR_LIST_APPEND"),
        ("mpz/bin_uiui.c", "mpz_goetgheluck_bin_uiui"), ("mpz/bin_uiui.c", "COUNT_A_PRIME"), ("mpz/bin_uiui.c", "SH_COUNT_A_PRIME"),
        ("mpz/bin_uiui.c", "mpz_bin_uiui"), ("mpz/primorial_ui.c", "mpz_primorial_ui"), ("mpz/next_prime_candidate.c", None), ("mpz/nextprime.c", None)]
