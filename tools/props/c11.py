"""C11 — main module (parts: c11_*.py are merged automatically)."""
LEVEL = "proof"
LEAN_MODULES = []
THEOREMS = []
TRUSTED = []
ASSUMPTIONS = []
LEVEL_TEXT = "Lean theorems: mpn_get_d's IEEE assembly equals truncation to 53 bits for all sizes/exponents (overflow, denormals); mpz_cmp is the order of the integers (total order); fits/get/set agree with ranges; mpq_cmp pre-checks sound. Doubles cross the protocol as bit patterns."
LEVEL_NOTE = 'mpf comparisons and some conversions by correspondence only.'
PLACEHOLDER = True
