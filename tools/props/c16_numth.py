"""C16 part: factorials, binomials, Fibonacci/Lucas numbers, mpz_remove, primality (merged into c16.py automatically)."""
import os, sys
from genlib import *
sys.path.insert(0, os.path.dirname(os.path.dirname(os.path.abspath(__file__))))
from gen_numth_tabs import gen_numth_tabs, extract

LEAN_MODULES = ["MpirProofs.Props.C16"]
THEOREMS = ["Mpir.Numth.fib_table_ok", "Mpir.Numth.fib_table_limits_ok", "Mpir.Numth.fac_table_ok",
            "Mpir.Numth.oddfac_table_ok", "Mpir.Numth.odd2fac_table_ok", "Mpir.Numth.fac2cnt_table_ok",
            "Mpir.Numth.limbroots_table_ok", "Mpir.Numth.fac_inverse_table_ok", "Mpir.Numth.bin2kk_table_ok",
            "Mpir.Numth.primes_table_ok", "Mpir.Numth.pp_table_ok", "Mpir.Numth.sqres_tables_ok",
            "Mpir.Numth.primorial_table_ok", "Mpir.Numth.fib2_ui_spec", "Mpir.Numth.fib2_ui_spec_pred",
            "Mpir.Numth.fib_low_limb_claim", "Mpir.Numth.fib_ui_spec", "Mpir.Numth.lucnum_ui_spec",
            "Mpir.Numth.lucnum2_ui_spec", "Mpir.Numth.strong_prp_prime",
            "Mpir.Numth.miller_rabin_never_rejects_prime", "Mpir.Numth.isPrime_complete",
            "Mpir.Numth.factorial_odd_part_mul_two_pow", "Mpir.Numth.fac_ui_structure",
            "Mpir.Numth.oddfac_1_spec_below_dsc", "Mpir.Numth.fac_ui_spec_below_dsc",
            "Mpir.Numth.fac_ui_spec_partial", "Mpir.Numth.two_fac_ui_spec_below_dsc",
            "Mpir.Numth.two_fac_ui_spec_partial", "Mpir.Numth.multiFactorial_spec",
            "Mpir.Numth.mfac_uiui_small_spec", "Mpir.Numth.primorial_spec", "Mpir.Numth.primorial_ui_small_spec",
            "Mpir.Numth.remove_spec", "Mpir.Numth.remove_exceptions", "Mpir.Numth.bin_ui_spec",
            "Mpir.Numth.binom_spec", "Mpir.Numth.bin_uiui_small_spec", "Mpir.Numth.nextprime_pred_sound",
            "Mpir.Numth.prime_code_pred_sound"]
GEN = [gen_numth_tabs]
TRUSTED = ["hand-written value-level models lean/Mpir/Model/Numth.lean (tied by correspondence and a run-time model==spec comparison on every op)",
           "table translator tools/gen_numth_tabs.py (gcc -E -dM / -E -P + a compiled dump program)",
           "spec primality `isPrime`: trial division below 2^20, Miller-Rabin with the first twelve primes as bases above; "
           "that this is a primality proof below 2^64 is the published result of Sorenson & Webster (2015), not a Lean theorem"]
ASSUMPTIONS = ["gmp_primesieve, mpz_prodlimbs, mpn_sqr/mpn_mul, mpz_powm, mpz_tdiv_qr, mpn_sb_bdiv_q are replaced in the models by their meaning",
               "probabilistic clauses (composites rejected with >= 25 repetitions, nextprime minimality) are checked on the generated inputs only"]
RULE = ("n (and k, m) 0..300 exhaustively, +-2 around every table end and threshold (FIB_TABLE_LIMIT, ONE_LIMB_*_TABLE sizes, FAC_DSC_THRESHOLD*2^j, "
        "FAC_2DSC_THRESHOLD, BIN_GOETGHELUCK_THRESHOLD), sampled to 3000 (thorough: to 10^5); bin_uiui all (n,k) for n<=140 and a grid over every dispatch "
        "region and border with n up to 2^64-1; bin_ui with negative / multi-limb n; remove with f in {2,3,2^64,multi-limb,x,>x} and exponents around powers of two; "
        "primality: every n<2000, Carmichael numbers, strong pseudoprimes to many bases, prime squares, semiprimes of close primes, "
        "neighbourhoods of 10^6, 2^20, 2^31, 2^32, 2^53, 2^63, 2^64, Mersenne numbers; nextprime at maximal prime gaps; distinct = distinct op lines")

# ------------------------------------------------------------------ helpers (input construction only)
def _mr(n, a):
    if n % a == 0: return n == a
    d, s = n - 1, 0
    while d % 2 == 0: d //= 2; s += 1
    x = pow(a, d, n)
    if x == 1 or x == n - 1: return True
    for _ in range(s - 1):
        x = x * x % n
        if x == n - 1: return True
    return False

def is_prime(n):
    if n < 2: return False
    for p in (2, 3, 5, 7, 11, 13, 17, 19, 23, 29, 31, 37):
        if n % p == 0: return n == p
    return all(_mr(n, a) for a in (2, 3, 5, 7, 11, 13, 17, 19, 23, 29, 31, 37))

def prev_prime(n):
    n -= 1
    while not is_prime(n): n -= 1
    return n
def next_prime(n):
    n += 1
    while not is_prime(n): n += 1
    return n

CARMICHAEL = [561, 1105, 1729, 2465, 2821, 6601, 8911, 10585, 15841, 29341, 41041, 46657, 52633, 62745, 63973, 75361, 101101,
              115921, 126217, 162401, 172081, 188461, 252601, 278545, 294409, 314821, 334153, 340561, 399001, 410041, 449065,
              488881, 512461, 1024651, 1152271, 9890881, 9999109081, 3215031751]
# strong pseudoprimes: to base 2; to the first k primes (Jaeschke / Zhang / Jiang-Deng minimal examples)
SPSP = [2047, 3277, 4033, 4681, 8321, 15841, 29341, 42799, 49141, 52633, 65281, 74665, 80581, 85489, 88357, 90751,
        1373653, 25326001, 3215031751, 2152302898747, 3474749660383, 341550071728321, 3825123056546413051,
        1194649, 12327121,           # Wieferich squares 1093^2, 3511^2 (Fermat and strong pseudoprimes to base 2)
        4759123141, 1122004669633, 47636622961201, 3770579582154547]
MAXGAP_STARTS = [113, 523, 887, 1129, 1327, 9551, 15683, 19609, 31397, 155921, 360653, 370261, 492113, 1349533, 1357201, 2010733,
                 4652353, 17051707, 20831323, 47326693, 122164747, 189695659, 191912783, 387096133, 436273009, 1294268491,
                 1453168141, 2300942549, 3842610773, 4302407359, 10726904659, 20678048297, 22367084959, 25056082087,
                 42652618343, 127976334671, 182226896239, 241160624143, 297501075799, 303371455241, 304599508537,
                 416608695821, 461690510011, 614487453523, 738832927927, 1346294310749, 1408695493609, 1968188556461,
                 2614941710599, 7177162611713, 13829048559701, 19581334192423, 42842283925351, 90874329411493,
                 171231342420521, 218209405436543, 1189459969825483, 1686994940955803, 1693182318746371,
                 43841547845541059, 55350776431903243, 80873624627234849, 203986478517455989, 218034721194214273,
                 305405826521087869, 352521223451364323, 401429925999153707, 418032645936712127, 804212830686677669,
                 1425172824437699411]

_consts = {}
def consts(ctx):
    """thresholds and table sizes of the tree being checked (defaults = pinned tree if no build is known)"""
    key = getattr(ctx, "build", None)
    if key not in _consts:
        d = dict(FIB_TABLE_LIMIT=93, FIB_TABLE_LUCNUM_LIMIT=92, FAC_ODD_THRESHOLD=0, FAC_DSC_THRESHOLD=898, NFAC=21,
                 ODD_FACTORIAL_TABLE_LIMIT=25, ODD_FACTORIAL_EXTTABLE_LIMIT=67, ODD_DOUBLEFACTORIAL_TABLE_LIMIT=33,
                 TABLE_LIMIT_2N_MINUS_POPC_2N=81, ODD_CENTRAL_BINOMIAL_TABLE_LIMIT=35, ODD_CENTRAL_BINOMIAL_OFFSET=13,
                 BIN_GOETGHELUCK_THRESHOLD=1000, SOME_THRESHOLD=20)
        if key:
            try:
                tabs, vals = extract(key)
                d.update(vals); d["NFAC"] = len(tabs["facTable"])
            except Exception:
                pass
        _consts[key] = d
    return _consts[key]

def around(xs, lo=0, r=2):
    out = set()
    for x in xs:
        for d in range(-r, r + 1):
            if x + d >= lo: out.add(x + d)
    return sorted(out)

def sweep(rng, tier, full, top, nsamp, special):
    s = set(range(0, full + 1)) | set(special)
    for _ in range(nsamp if tier == "quick" else nsamp * 4):
        s.add(rng.randrange(full, top + 1))
    return sorted(x for x in s if x >= 0)

# ------------------------------------------------------------------ generators
def gen_fib(rng, tier, C):
    L = C["FIB_TABLE_LIMIT"]
    special = around([L, L + 1, 2 * L, 2 * L + 2, 4 * L, 4 * L + 4, 8 * L, 16 * L, 32 * L] + [1 << k for k in range(1, 13)] + [3 * (1 << k) for k in range(1, 11)], r=2)
    ns = sweep(rng, tier, 300, 3000, 120, special)
    for n in ns:
        yield "mpz_fib_ui %x" % n
        yield "mpz_fib2_ui %x" % n
        yield "mpz_lucnum_ui %x" % n
        yield "mpz_lucnum2_ui %x" % n
        yield "mpn_fib2_ui %x" % n
    big = [5000, 9999, 10000, 16383, 16384, 16385, 20001, 3 * 4096 - 3, 3 * 4096 + 1] + ([50000, 65535, 65536, 100003, 3 * (1 << 16) + 1, 250001] if tier != "quick" else [])
    for n in big:
        for op in ("mpz_fib_ui", "mpz_fib2_ui", "mpz_lucnum_ui", "mpz_lucnum2_ui", "mpn_fib2_ui"):
            yield "%s %x" % (op, n)
    # lucnum_ui strips trailing zeros: odd * 2^z with the odd part on both sides of the table limit
    for z in range(1, 9):
        for odd in (1, 3, 45, 91, 93, 95, 185, 187, 1001):
            yield "mpz_lucnum_ui %x" % (odd << z)

def gen_fac(rng, tier, C):
    dsc = C["FAC_DSC_THRESHOLD"]; odd = C["FAC_ODD_THRESHOLD"]
    ends = [C["NFAC"], C["ODD_FACTORIAL_TABLE_LIMIT"], C["ODD_DOUBLEFACTORIAL_TABLE_LIMIT"], C["ODD_DOUBLEFACTORIAL_TABLE_LIMIT"] * 2,
            C["ODD_FACTORIAL_EXTTABLE_LIMIT"], C["TABLE_LIMIT_2N_MINUS_POPC_2N"], 2 * C["TABLE_LIMIT_2N_MINUS_POPC_2N"], odd,
            dsc, 2 * dsc, 2 * dsc + 1, 4 * dsc, 8 * dsc, 2 * dsc - 1, 4 * dsc - 1, 4 * dsc + 2]
    special = around(ends, r=3) + [1 << k for k in range(1, 12)] + [(1 << k) - 1 for k in range(1, 13)]
    top = 3000 if tier == "quick" else 20000
    for n in sweep(rng, tier, 300, top, 150, special):
        yield "mpz_fac_ui %x" % n
        yield "mpz_2fac_ui %x" % n
        yield "mpz_primorial_ui %x" % n
    for n in ([4093, 4099, 7919, 10007, 16 * dsc + 1] if tier == "quick" else [30011, 65521, 65537, 100003, 64 * dsc + 1, 131071]):
        yield "mpz_fac_ui %x" % n
        yield "mpz_2fac_ui %x" % n
        yield "mpz_2fac_ui %x" % (n + 1)
        yield "mpz_primorial_ui %x" % n
    # multifactorials: every (n, m) small, then gcd structure g = gcd(n, m) in {1, 2, >2} with m/g in {1, 2, >=3}
    for n in range(0, 70):
        for m in range(1, 24):
            yield "mpz_mfac_uiui %x %x" % (n, m)
    for _ in range(400 if tier == "quick" else 2500):
        g = rng.choice([1, 1, 2, 2, 3, 4, 5, 6, 7, 12, 30, rng.randrange(1, 60)])
        m0 = rng.choice([1, 1, 2, 2, 3, 3, 4, 5, 7, 11, rng.randrange(1, 40)])
        n0 = rng.choice([rng.randrange(0, 60), rng.randrange(0, 400), rng.randrange(0, 3000), dsc + rng.randrange(-2, 3), 2 * dsc + rng.randrange(-2, 3)])
        yield "mpz_mfac_uiui %x %x" % (n0 * g, m0 * g)
    for n in (0, 1, 2, 3, 4, 5, 100, 1000):
        for m in (n - 2, n - 1, n, n + 1, n + 2, M, M - 1, 1 << 63):
            if m >= 1: yield "mpz_mfac_uiui %x %x" % (n, m)
    for n in (M, M - 1, 1 << 63, (1 << 32) + 1):          # huge n with m so large that only a few factors remain
        for q in (1, 2, 3):
            m = n // q - rng.randrange(0, 3)
            yield "mpz_mfac_uiui %x %x" % (n, m)

def gen_bin(rng, tier, C):
    ext = C["ODD_FACTORIAL_EXTTABLE_LIMIT"]; kt = C["ODD_FACTORIAL_TABLE_LIMIT"]; kdc = 2 * C["ODD_CENTRAL_BINOMIAL_TABLE_LIMIT"]
    gt = C["BIN_GOETGHELUCK_THRESHOLD"]
    for n in range(0, 141 if tier == "quick" else 260):
        for k in range(0, n + 3):
            yield "mpz_bin_uiui %x %x" % (n, k)
    ks = around([0, 2, kt, kdc, kdc // 2, 2 * C["ODD_CENTRAL_BINOMIAL_OFFSET"], C["SOME_THRESHOLD"] * 8 + kt, 256, 500, gt], r=2)
    ns = around([ext, 200, 255, 256, 1000, 4095, 4096, 65535, 65536, 1 << 21, 0x285145, 1 << 24, 1 << 31, 1 << 32, 0xffffffff, 1 << 33, 1 << 48, 1 << 53, 1 << 62, 1 << 63], r=1)
    ns += [M, M - 1, M - 2, M - 70, M - 71, M - 1000]
    for n in ns:
        for k in ks:
            if k <= n:
                yield "mpz_bin_uiui %x %x" % (n, k)
                if n - k > k and (n < (1 << 20) or k < 3): yield "mpz_bin_uiui %x %x" % (n, n - k)     # mirrored k -> n-k
    for n in (M, M - 1, 1 << 32, 12345678901234567):      # k > n, k = n, k = n-1 with huge n
        for k in (n, n - 1, n - 2, n + 1 if n < M else n):
            yield "mpz_bin_uiui %x %x" % (n, k)
    # Goetgheluck region k >= gt, k > n/16 and its borders with the bdiv region
    pts = [(2 * gt, gt), (2 * gt + 1, gt), (2 * gt - 2, gt - 1), (16 * gt - 1, gt), (16 * gt, gt), (16 * gt + 15, gt), (16 * gt + 16, gt), (16 * gt + 16, gt + 1),
           (3 * gt, gt + gt // 2), (5 * gt, gt + 1), (4 * gt + 1, 2 * gt), (20000, 1250), (20000, 1251), (20015, 1250), (32768, 2048), (32767, 2047), (32784, 2049)]
    if tier != "quick": pts += [(100000, 50000), (65536, 30000), (200001, 12501), (200000, 12500), (1000003, 62501)]
    for n, k in pts:
        yield "mpz_bin_uiui %x %x" % (n, k)
        yield "mpz_bin_uiui %x %x" % (n, n - k)
    for _ in range(150 if tier == "quick" else 1200):
        reg = rng.randrange(5)
        if reg == 0: n, k = rng.randrange(ext + 1, 1 << rng.randrange(8, 64)), rng.randrange(2, kt + 1)
        elif reg == 1: n, k = rng.randrange(kdc + 1, 1 << rng.randrange(8, 64)), rng.randrange(kt + 1, kdc + 1)
        elif reg == 2: n, k = rng.randrange(2 * kdc + 2, 1 << rng.randrange(9, 64)), rng.randrange(kdc + 1, min(gt, 400))
        elif reg == 3: k = rng.randrange(gt, 2 * gt); n = rng.randrange(2 * k, 16 * k)
        else: k = rng.randrange(gt, gt + 300); n = rng.randrange(16 * k + 16, 40 * k)
        if 2 * k <= n: yield "mpz_bin_uiui %x %x" % (n, k)
    # bin_ui: negative, multi-limb, the bin(n,k) -> bin(n,n-k) rewrite, k > n
    for n in range(-40, 41):
        for k in range(0, 26):
            yield "mpz_bin_ui %s %x" % (hx(n), k)
    bigs = [B - 1, B, B + 1, (1 << 127) - 1, 1 << 128, (1 << 128) + 12345, (1 << 192) - 3, 1 << 200]
    for v in bigs:
        for s in (1, -1):
            for k in (0, 1, 2, 3, 5, 10, 20, 21, 22, 40, 63, 64, 65, 100, 200 if tier == "quick" else 700):
                yield "mpz_bin_ui %s %x" % (hx(s * v), k)
    for _ in range(200 if tier == "quick" else 1500):
        n = rand_int(rng, 4); k = rng.choice([rng.randrange(0, 30), rng.randrange(0, 120), rng.randrange(0, 400)])
        yield "mpz_bin_ui %s %x" % (hx(n), k)
    for n in (100, 1000, 4096, 70000):                      # n - k < k : the rewrite to the smaller denominator
        for d in (0, 1, 2, 3, 17, 40):
            yield "mpz_bin_ui %x %x" % (n, n - d)
            yield "mpz_bin_ui %x %x" % (n, n + d + 1)
    for n in (-3, -7, -100, -1000):                         # -n-1 < k : the rewrite in the negative branch
        for k in (50, 101, 150, 999, 1000, 1001):
            yield "mpz_bin_ui %s %x" % (hx(n), k)

def gen_remove(rng, tier):
    fs = [2, 3, 4, 5, 6, 7, 10, 12, 255, 256, 65537, (1 << 32) - 1, 1 << 32, B - 1, B, B + 1, (1 << 65), 3 << 64, (1 << 127) - 1, (1 << 128) + 1]
    vs = [0, 1, 2, 3, 4, 5, 6, 7, 8, 9, 14, 15, 16, 17, 30, 31, 32, 33, 63, 64, 65]
    for f in fs:
        for v in vs:
            if f.bit_length() * v > 40000: continue
            for c in (1, -1, 5, f + 1, -(f - 1) if f > 2 else 7, rng.getrandbits(70) | 1, f * f + 1):
                if c % f == 0: c += 1
                yield "mpz_remove %s %s" % (hx(c * f ** v), hx(f))
    for _ in range(200 if tier == "quick" else 2000):
        f = abs(rand_int(rng, 3, signed=False)) + 2
        v = rng.choice([0, 1, 2, 3, 4, 7, 8, 9, rng.randrange(0, 40)])
        c = rand_int(rng, 3)
        yield "mpz_remove %s %s" % (hx(c * f ** v), hx(f))          # c may itself contain f: the spec decides
    for x in (0, 1, -1, 2, 8, -8, 1 << 64, -(1 << 64), 3 ** 40, 6 ** 30, B ** 3, (B - 1) ** 4):
        for f in (0, 1, -1, -2, -3, 2, 3, x if abs(x) > 1 else 5, abs(x) + 1, abs(x) * 2 + 2, -abs(x) - 5):
            yield "mpz_remove %s %s" % (hx(x), hx(f))

def gen_prime(rng, tier):
    seeds = lambda: rng.randrange(1, 1 << 32)
    def all_tests(n, heavy=True):
        yield "mpz_probab_prime_p %x %x" % (n, rng.choice([25, 25, 25, 26, 30, 40, 50]))
        yield "mpz_probable_prime_p %x %x %x" % (n, rng.choice([25, 25, 26, 30, 50, 64]), seeds())
        yield "mpz_likely_prime_p %x %x" % (n, seeds())
        if heavy:
            yield "mpz_probab_prime_p %x %x" % (n, rng.choice([0, 1, 2, 5, 10, 24]))
            yield "mpz_probable_prime_p %x %x %x" % (n, rng.choice([0, 1, 2, 3, 10, 24]), seeds())
            yield "mpz_miller_rabin %x %x %x" % (n, rng.choice([0, 1, 2, 5, 10, 25]), seeds())
    for n in range(0, 2000):
        yield from all_tests(n, heavy=(n < 200 or n % 7 == 0))
    for n in range(0, 40):
        yield "mpz_miller_rabin %x %x %x" % (n, rng.choice([1, 2, 10]), seeds())
        yield "mpz_millerrabin %x %x" % (n, rng.choice([1, 2, 10]))
    special = list(CARMICHAEL) + list(SPSP)
    ps = [2, 3, 5, 7, 11, 13, 31, 37, 41, 53, 59, 61, 97, 251, 257, 991, 997, 1009, 1021, 1031, 65521, 65537, 999983, 1000003,
          prev_prime(1 << 20), next_prime(1 << 20), prev_prime(1 << 26), prev_prime(1 << 31), next_prime(1 << 31), prev_prime(1 << 32), next_prime(1 << 32)]
    special += [p * p for p in ps if p * p < B] + [p * next_prime(p) for p in ps if p > 7]            # prime squares, close semiprimes
    p32 = prev_prime(1 << 32); special += [p32 * prev_prime(p32), p32 * p32, prev_prime(p32) ** 2]
    for k in (20, 24, 26, 27, 28, 30, 31):                     # p * (2p-1), p * (4p-3): many strong liars
        p = next_prime(rng.randrange(1 << k, 1 << (k + 1)))
        for _ in range(200):
            if is_prime(2 * p - 1): special.append(p * (2 * p - 1)); break
            p = next_prime(p)
    for c in (10 ** 6, 1 << 20, 1024 * 1024 + 1, 1 << 31, 1 << 32, 1 << 53, 1 << 63, B):
        special += range(max(0, c - 24), c + 25)
    special += range(B - 130, B) ; special += [18446744073709551557, 18446744073709551533, (1 << 61) - 1, (1 << 31) - 1, (1 << 62) - 57, (1 << 63) - 25]
    # Carmichael numbers (6k+1)(12k+1)(18k+1) between 2^53 and 2^64: Fermat pseudoprimes to every coprime base
    k = rng.randrange(60000, 200000); found = 0
    while found < (12 if tier == "quick" else 80) and k < 330000:
        a, b, c = 6 * k + 1, 12 * k + 1, 18 * k + 1
        if a * b * c < B and is_prime(a) and is_prime(b) and is_prime(c): special.append(a * b * c); found += 1
        k += 1
    # likely_prime_p above 2^53 (the n_mulmod2 / Lucas branch): primes and semiprimes of every residue class mod 10
    for _ in range(60 if tier == "quick" else 600):
        bits = rng.randrange(54, 65)
        n = rng.getrandbits(bits) | (1 << (bits - 1)) | 1
        special.append(next_prime(n) if n < B - 1000 else prev_prime(n))
        h = bits // 2; p = next_prime(rng.getrandbits(h) | (1 << (h - 1))); q = next_prime(rng.getrandbits(bits - h) | (1 << (bits - h - 1)))
        if p * q < B: special.append(p * q)
    # base-2 strong pseudoprimes above 2^53 are rare; p*(2p-1) with p = 3 mod 4 are base-2 Fermat/strong candidates
    for n in special:
        if n >= 0: yield from all_tests(n)
    # multi-limb values of special form (spec = 12-base Miller-Rabin, exact for primes by theorem strong_prp_prime)
    big = [(1 << 89) - 1, (1 << 107) - 1, (1 << 127) - 1, (1 << 67) - 1, (1 << 128) + 1, B + 13, B + 15, (B + 13) * (B + 37),
           ((1 << 61) - 1) * ((1 << 31) - 1), ((1 << 89) - 1) * ((1 << 61) - 1), (1 << 521) - 1, (1 << 257) - 1, 10 ** 40 + 121, 10 ** 40 + 123]
    for n in big:
        yield from all_tests(n, heavy=False)
    # nextprime / next_prime_candidate
    for n in range(-3, 1100):
        yield "mpz_nextprime %s" % hx(n)
        if n % 3 == 0 or n < 60: yield "mpz_next_prime_candidate %s %x" % (hx(n), seeds())
    pts = around([997 * 997, 991 * 997, 997 * 1009, 10 ** 6, 1 << 20, 1 << 31, 1 << 32, 1 << 53, 1 << 63], r=3)
    pts += [B - 60, B - 59, B - 58, B - 2, B - 1, B, B + 12, B + 13, prev_prime(997 * 997), prev_prime(997 * 997) - 1]
    gaps = MAXGAP_STARTS if tier != "quick" else MAXGAP_STARTS[:40] + MAXGAP_STARTS[40::4]
    for g in gaps: pts += [g - 1, g, g + 1]
    for _ in range(60 if tier == "quick" else 600):
        pts.append(rng.getrandbits(rng.randrange(11, 64)))
    for n in pts:
        yield "mpz_nextprime %x" % n
        yield "mpz_next_prime_candidate %x %x" % (n, seeds())

def gen_ops(rng, tier, ctx=None):
    C = consts(ctx)
    yield from gen_fib(rng, tier, C)
    yield from gen_fac(rng, tier, C)
    yield from gen_bin(rng, tier, C)
    yield from gen_remove(rng, tier)
    yield from gen_prime(rng, tier)

def nontrivial(line):
    return line
