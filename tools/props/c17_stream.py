"""C17 (part) — finishing the stream layer: mpf_out_str / mpf_inp_str on objects against the bit-exact
mpf_get_str / mpf_set_str models (round trip in every base, byte counts), mpz_import / mpz_export on objects (fast
paths vs. byte loop, normalisation on every path, zero), output functions over sinks that accept a PREFIX of a write
call (dead afterwards / recovering / capping every call), raw format beyond the 4-byte header.
Merged into tools/props/c17.py by check.py.  Every random choice comes from `rng`."""
import os, sys
sys.path.insert(0, os.path.dirname(os.path.dirname(os.path.abspath(__file__))))
from genlib import *
import gen_bases as _gb

GEN = [_gb.gen_bases]            # Mpir/Model/MpfStr.lean reads mp_bases[].chars_per_bit_exactly and the digit value table
LEAN_MODULES = ["MpirProofs.Props.C17_stream"]
THEOREMS = ["Mpir.Io." + t for t in """
    str_stream_roundtrip mpf_integer_roundtrip_exact str_stream_roundtrip_base0 import_fast_eq_generic import_obj_spec export_fast_eq_generic
    out_fault_at_byte fprintf_fault_at_byte raw_beyond_header
""".split()]
TRUSTED = ["hand-written models lean/Mpir/Model/IoStream.lean (mpf_out_str / mpf_inp_str on objects = stream part of Model/Io.lean composed "
           "with the C13 models MpfStr.get_str / MpfStr.set_str; mpz_import / mpz_export on objects) — tied by correspondence, byte for byte",
           "glibc: an unbuffered stream issues exactly one write callback per fwrite / fputc / fprintf of the library; a callback result "
           "below the requested length sets the error indicator and is what fwrite returns (OStream.write)"]
ASSUMPTIONS = ["mpf round trip: stated for input bases that read a DECIMAL exponent (negative base, or 10 / 0 when |base| = 10), as the manual "
               "promises; with a positive base other than 10 mpf_inp_str reads the exponent digits in that base (modelled, compared by the "
               "ops mpf_out_inp_str_x with rbase = |base|, documented as a caveat, not a defect)",
               "the value read back by mpf_inp_str is mpf_set_str's conversion of exactly the digits mpf_get_str delivered (C13 theorems give "
               "its accuracy / exactness); mpf_get_str rounds to n_digits, so equality with the operand holds when the digits denote it",
               "raw format: magnitudes of 2^31 bytes or more (2 GiB) are not generated unless VERIF_BIGRAW=1 (op mpz_raw_big, about 7 GB of "
               "memory); theorem raw_beyond_header states what the code does there"]
RULE = ("mpf: every base 2..62 / -2..-36 / 0 x digit counts 0,1,5,40 x operands (zero, integers, fractions, both signs, long), read "
        "back with -|base|, |base| and 0; tokens of every length around 100 (buffer growth); import/export: every (order, endian) x "
        "alignment 0..7 on size 8 nails 0, zero top words (1..all), destinations fresh / oversized / exact, sources with junk above SIZ, "
        "zero; sinks: three sink kinds x EVERY byte position of every sample output; distinct = distinct op lines")

PINS = [("mpf/out_str.c", None), ("mpf/inp_str.c", None), ("mpz/import.c", None), ("mpz/export.c", None),
        ("mpz/out_raw.c", None), ("mpz/inp_raw.c", None), ("mpz/out_str.c", None), ("mpq/out_str.c", None),
        ("printf/printffuns.c", None), ("gmp-impl.h", "MPN_SIZEINBASE_2EXP")]

OUT_BASES = list(range(2, 63)) + list(range(-36, -1)) + [0]

def fmpf(o): return "%x %s %s %s" % (o[0], hx(o[1]), hx(o[2]), vec(o[3]))

def mpf_operands(rng, tier):
    """(prec, size, exp, limbs)"""
    ops = [(2, 0, 0, []), (2, 1, 1, [1]), (2, -1, 1, [0x7b]), (2, 2, 1, [1 << 63, 0x4d2]), (2, -2, 1, [1 << 63, 0x4d2]),
           (2, 1, 0, [1 << 63]), (2, 1, -1, [1]), (2, 1, 3, [5]), (3, 3, 2, [1, 2, 3]), (3, 4, 2, [9, 1, 2, 3]),
           (2, 3, 1, [M, M, M]), (4, 1, 1, [10 ** 15]), (4, 2, 2, [0, 1]), (2, 1, 40, [3]), (2, 1, -40, [3]),
           (2, 1, 1, [1 << 40]), (2, -1, 1, [12345]), (3, 1, 1, [10 ** 18]), (2, 1, 1, [9]), (2, 1, 1, [10]), (2, 1, 1, [99])]
    for _ in range(8 if tier == "quick" else 40):
        prec = rng.randrange(2, 7); n = rng.randrange(1, prec + 2)
        l = rand_limbs(rng, n, rng.choice(["uniform", "runs", "onebit", "top", "ones"]))
        if l[-1] == 0: l[-1] = 1
        ops.append((prec, rng.choice([n, -n]), rng.randrange(-4, 6), l))
    return ops

def gen_mpf(rng, tier):
    opsl = mpf_operands(rng, tier)
    for base in OUT_BASES:
        b = abs(base) if base else 10
        for o in (opsl if tier != "quick" else rng.sample(opsl, 5) + opsl[:1] + opsl[4:5]):
            nd = rng.choice([0, 0, 1, 5, 40])
            yield "mpf_out_str_x %s %x %s" % (hx(base), nd, fmpf(o))
            yield "mpf_out_inp_str_x %s %x %s %s" % (hx(base), nd, hx(-b), fmpf(o))      # the promised combination
            if rng.random() < 0.5:
                yield "mpf_out_inp_str_x %s %x %s %s" % (hx(base), nd, hx(b), fmpf(o))   # exponent read in base b
            if b == 10:
                yield "mpf_out_inp_str_x %s %x 0 %s" % (hx(base), nd, fmpf(o))
    # exponents of two and more digits in every base: the caveat is visible (and modelled)
    for base in (2, 3, 8, 9, 10, 11, 16, 36, 37, 62, -2, -16, -36):
        for e in (0, 9, 10, 11, 63, 100, -1, -10, -37):
            o = (2, rng.choice([1, -1]), e, [rng.getrandbits(64) | 1])
            for rb in (-abs(base), abs(base)):
                yield "mpf_out_inp_str_x %s 0 %s %s" % (hx(base), hx(rb), fmpf(o))
    # tokens of every length around the first buffer growth of mpf_inp_str (100 bytes) and the second (150)
    for L in list(range(95, 106)) + [149, 150, 151, 225]:
        digs = "".join(rng.choice("123456789") for _ in range(L - 4))
        t = ("0." + digs + "e7").encode()
        for k in (-1, L - 1, L // 2):
            yield "mpf_inp_str_x -a %x %s %s" % (rng.randrange(2, 6), sbytes(t + rng.choice([b"", b" ", b"\n7"])), hx(k))
    texts = [b"  1.25e2 ", b"-0.5@3", b"1e", b".", b"..5", b"-", b"", b"1.2.3", b" \t\n-12.5e-3x y", b"0.e0", b"-0.1235e3", b"ff.8@1 ",
             b"1e5 2e6", b"\x0b\x0c\r 7", b"12\x003", b"@5", b"e5", b"1@", b"-0.FF@11", b"0.zZ@-3", b"0.1e+5", b"0.1e-", b"--1", b"0.0e99"]
    for t in texts:
        for base in (10, 16, 0, -10, -16, 2, 62, 63, 1):
            for k in ([-1] + list(range(len(t) + 1)) if tier != "quick" else [-1, rng.randrange(len(t) + 1)]):
                yield "mpf_inp_str_x %s %x %s %s" % (hx(base), rng.randrange(2, 5), sbytes(t), hx(k))

# ---------------------------------------------------------------- import / export on objects
def words_bytes(words, size, order, be):
    seq = words if order == -1 else words[::-1]
    return b"".join(w.to_bytes(size, "big" if be else "little") for w in seq)

def gen_import_export(rng, tier):
    vals = [0, 1, 0xff, (1 << 63), (1 << 64) - 1, 1 << 64, (1 << 64) + 1, (1 << 128) - 1, 1 << 191,
            abs(rand_int(rng, 6, False)), abs(rand_int(rng, 20, False)) | 1 << 640]
    # the four fast-path combinations x every alignment x destinations x zero top words
    for order in (1, -1):
        for endian in (-1, 0, 1):
            for align in range(8):
                for total in (1, 2, 3, 5):
                    for zw in sorted({0, 1, total - 1, total}):
                        if zw < 0: continue
                        words = [rng.getrandbits(64) | 1 for _ in range(total - zw)] + [0] * zw          # least significant first
                        b = words_bytes(words, 8, order, endian == 1)
                        yield "mpz_import_obj %x %s 8 %s 0 %x %s %x" % (rng.randrange(3), hx(order), hx(endian), align, sbytes(b), total)
                yield "mpz_import_obj %x %s 8 %s 0 %x s 0" % (rng.randrange(3), hx(order), hx(endian), align)   # count 0
                for x in rng.sample(vals, 4) + [0]:
                    yield "mpz_export_obj %s 8 %s 0 %x %x %s" % (hx(order), hx(endian), align, rng.choice([0, 1, 3]), hx(rng.choice([x, -x])))
    # neighbours of the fast paths: size 8 with nails, size 4 / 16 without, and general parameters
    for _ in range(150 if tier == "quick" else 1500):
        size = rng.choice([1, 2, 3, 4, 7, 8, 8, 8, 9, 16]); nails = rng.choice([0, 0, 1, 7, 8, rng.randrange(8 * size)])
        if nails >= 8 * size: nails = 0
        order = rng.choice([1, -1]); endian = rng.choice([-1, 0, 1]); align = rng.randrange(8)
        count = rng.choice([0, 1, 2, 3, 8, 17])
        b = bytes(rng.choice([0, 0xff, rng.getrandbits(8)]) for _ in range(count * size))
        if rng.random() < 0.4 and count:        # most significant words zero
            z = rng.randrange(1, count + 1); ws = [b[i * size:(i + 1) * size] for i in range(count)]
            for i in range(z):
                ws[i if order == 1 else count - 1 - i] = bytes(size)
            b = b"".join(ws)
        yield "mpz_import_obj %x %s %x %s %x %x %s %x" % (rng.randrange(3), hx(order), size, hx(endian), nails, align, sbytes(b), count)
        x = rng.choice(vals)
        yield "mpz_export_obj %s %x %s %x %x %x %s" % (hx(order), size, hx(endian), nails, align, rng.choice([0, 1, 5]), hx(rng.choice([x, -x])))

# ---------------------------------------------------------------- sinks
DIG62 = "0123456789ABCDEFGHIJKLMNOPQRSTUVWXYZabcdefghijklmnopqrstuvwxyz"
def text(base, x):
    if base == 0: base = 10
    tab = DIG62 if base > 36 else ("0123456789abcdefghijklmnopqrstuvwxyz" if base > 0 else "0123456789ABCDEFGHIJKLMNOPQRSTUVWXYZ")
    b = abs(base); m = abs(x); s = ""
    while m: s = tab[m % b] + s; m //= b
    return ("-" if x < 0 else "") + (s or "0")

def positions(rng, L, cap=70):
    return list(range(L + 2)) if L <= cap else list(range(10)) + sorted(rng.sample(range(10, L), 25)) + [L - 1, L, L + 1]

def gen_sinks(rng, tier):
    xs = [0, 1, -1, 0x7f, -0x80, 0xffff, -(1 << 64), (1 << 64) + 1, rand_int(rng, 4), -abs(rand_int(rng, 9, False)) - 1]
    for x in xs:
        n = (abs(x).bit_length() + 7) // 8
        for mode in (0, 1, 2):
            for k in positions(rng, 4 + n) + [-1]:
                yield "mpz_out_raw_sink %s %x %s" % (hx(x), mode, hx(k))
    for base in [10, 16, 2, 62, -36, 0, 63] + rng.sample(OUT_BASES, 3 if tier == "quick" else 12):
        for x in rng.sample(xs, 4) + [0, -1]:
            L = len(text(base, x)) if abs(base) <= 62 else 0
            for mode in (0, 1, 2):
                for k in positions(rng, L) + [-1]:
                    yield "mpz_out_str_sink %s %s %x %s" % (hx(base), hx(x), mode, hx(k))
        for (n, d) in [(0, 1), (-3, 1), (22, 7), (-22, 7), (rand_int(rng, 2), abs(rand_int(rng, 2, False)) + 2), (5, 0), (3, -4)]:
            L = (len(text(base, n)) + (0 if d == 1 else 1 + len(text(base, d)))) if abs(base) <= 62 else 0
            for mode in (0, 1, 2):
                for k in positions(rng, L, 45) + [-1]:
                    yield "mpq_out_str_sink %s %s %s %x %s" % (hx(base), hx(n), hx(d), mode, hx(k))
    opsl = mpf_operands(rng, tier)
    for o in opsl[:8] + rng.sample(opsl[8:], 4 if tier == "quick" else 20):
        for base in (10, 16, -36, 0, 62):
            nd = rng.choice([0, 3, 12])
            for mode in (0, 1, 2):
                for k in list(range(36 if tier == "quick" else 60)) + [-1]:
                    if tier == "quick" and rng.random() < 0.5: continue
                    yield "mpf_out_str_sink %s %x %x %s %s" % (hx(base), nd, mode, hx(k), fmpf(o))
    fx = [0, 5, -5, 12345, -12345, 123456789012345678901234567890, -(1 << 64), rand_int(rng, 4)]
    for pre in (b"", b"ab"):
        for post in ((b"", b"cd") if tier == "quick" else (b"", b"\n", b"cd")):
            for width in ((0, 5, 300, 600) if tier == "quick" else (0, 5, 40, 300, 600)):
                for base in (10, 16):
                    for x in rng.sample(fx, 2 if tier == "quick" else len(fx)):
                        L = len(pre) + max(width, len(text(base, x))) + len(post)
                        ks = range(L + 1) if L <= 50 else list(range(6)) + sorted(rng.sample(range(6, L), 8 if tier == "quick" else 14)) + [255, 256, 257, 258, 511, 512, 513, L - 1, L]
                        for mode in (0, 1, 2):
                            for k in list(ks) + [-1]:
                                yield "gmp_fprintf_sink %s %x %x %s %s %x %s" % (sbytes(pre), width, base, hx(x), sbytes(post), mode, hx(k))

def gen_raw_big(rng, tier):
    # the same op on small sizes ties its formulas to the executable model; header classes around 2^8k
    for nb in [1, 2, 3, 8, 9, 255, 256, 257, 4095, 4096] + [rng.randrange(1, 4097) for _ in range(6)]:
        for neg in (0, 1):
            yield "mpz_raw_big %x %x" % (neg, nb)
    for nb in (65536, 1 << 20) if tier != "quick" else (65536,):
        yield "mpz_raw_big %x %x" % (rng.randrange(2), nb)
    if os.environ.get("VERIF_BIGRAW") == "1":
        for neg, nb in ((0, (1 << 31) - 1), (0, 1 << 31), (1, 1 << 31), (0, (1 << 31) + 5)):
            yield "mpz_raw_big %x %x" % (neg, nb)

def gen_ops(rng, tier, ctx=None):
    yield from gen_raw_big(rng, tier)
    yield from gen_import_export(rng, tier)
    yield from gen_mpf(rng, tier)
    yield from gen_sinks(rng, tier)
