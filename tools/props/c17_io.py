"""C17 (part) — import/export, raw and text stream I/O with truncation and write-failure injection.
Merged into tools/props/c17.py by check.py.  Every random choice comes from `rng`."""
from genlib import *

LEAN_MODULES = ["MpirProofs.Props.C17"]
THEOREMS = ["Mpir.Io.out_raw_format", "Mpir.Io.raw_roundtrip", "Mpir.Io.inp_raw_total",
            "Mpir.Io.export_count", "Mpir.Io.export_nails_zero", "Mpir.Io.import_spec", "Mpir.Io.export_import_id",
            "Mpir.Io.exportSpec_importSpec",
            "Mpir.Io.out_fault_returns_0", "Mpir.Io.out_healthy_counts", "Mpir.Io.fprintf_fault_returns_m1", "Mpir.Io.in_fault_returns_0",
            "Mpir.Io.str_stream_roundtrip_partial"]
TRUSTED = ["hand-written models lean/Mpir/Model/Io.lean of mpz/{export,import,out_raw,inp_raw,out_str,inp_str}.c, "
           "mpq/{out_str,inp_str}.c, mpf/{out_str,inp_str}.c and the gmp_fprintf path (tied by correspondence on every run)",
           "libc stream semantics (fopencookie, setvbuf(_IONBF), fwrite/fputc/getc/ungetc, short write = short count + sticky ferror) as modelled by Stream/OStream",
           "mpf digit generation/parsing (mpf_get_str, mpf_set_str) is an input of the stream-level mpf model (checked by predicate ops)"]
ASSUMPTIONS = ["write faults: the write call containing byte k of an unbuffered stream accepts the bytes in front of k (a short write) and every later call nothing (part c17_stream: also a recovering sink and one that caps every call; the theorems hold for every sink); read faults are EOF after k bytes",
               "raw headers announcing more than 2^20 bytes are not sent to the library (it allocates before reading); they are covered by the theorem inp_raw_total only"]
RULE = ("export/import: every (size<=4, order, endian, nails) combination, size 5..16 with nails sampled at 0,1,7,8,9,8*size-1,random, "
        "all alignments 0..7 on the size=8 fast paths, values 0,1,2^k+-1,random to 50 limbs, import also on arbitrary bytes; "
        "raw: all header sign/size classes, counts disagreeing with the data, EVERY truncation point of every sample stream and EVERY "
        "write-failure position of every sample output (exhaustive in position, sampled in value); text: bases 2..62,-2..-36,0, every "
        "byte value as terminator; distinct = distinct op lines")

# ---------------------------------------------------------------- reference encoders (generator side only)
def bitlen(x): return x.bit_length()

def export_bytes(order, size, endian, nails, x):
    numb = 8 * size - nails
    cnt = (bitlen(x) + numb - 1) // numb
    ws = []
    for i in range(cnt):
        w = (x >> (numb * i)) & ((1 << numb) - 1)
        b = w.to_bytes(size, "little")
        ws.append(b[::-1] if endian == 1 else b)
    if order == 1: ws.reverse()
    return cnt, b"".join(ws)

def raw_bytes(x):
    m = abs(x); n = (bitlen(m) + 7) // 8
    return ((-n if x < 0 else n) & 0xffffffff).to_bytes(4, "big") + m.to_bytes(n, "big")

DIG62 = "0123456789ABCDEFGHIJKLMNOPQRSTUVWXYZabcdefghijklmnopqrstuvwxyz"
def text(base, x):
    """what mpz_out_str writes"""
    if base == 0: base = 10
    tab = DIG62 if base > 36 else ("0123456789abcdefghijklmnopqrstuvwxyz" if base > 0 else "0123456789ABCDEFGHIJKLMNOPQRSTUVWXYZ")
    b = abs(base); m = abs(x); s = ""
    while m: s = tab[m % b] + s; m //= b
    return ("-" if x < 0 else "") + (s or "0")

def values(rng, tier, big=True):
    v = [0, 1, 2, 255, 256, 65535, 65536, (1 << 63), (1 << 64) - 1, 1 << 64, (1 << 64) + 1, (1 << 128) - 1]
    for _ in range(6 if tier == "quick" else 20):
        k = rng.randrange(1, 700); v += [(1 << k) - 1, (1 << k) + 1, 1 << k]
    for _ in range(6 if tier == "quick" else 24): v.append(abs(rand_int(rng, 4, False)))
    if big:
        for _ in range(2 if tier == "quick" else 8):
            v.append(abs(rand_int(rng, 50, False)) | (1 << (64 * rng.randrange(20, 50))))
    return v

def nails_for(rng, size):
    if size <= 4: return list(range(8 * size))
    s = {0, 1, 7, 8, 9, 8 * size - 1, 8 * size - 8, rng.randrange(8 * size), rng.randrange(8 * size)}
    return sorted(s)

# ---------------------------------------------------------------- generators
def gen_export_import(rng, tier):
    vals = values(rng, tier)
    small = [0, 1, 0x80, 0x1ff, 0xdeadbeefcafe, (1 << 64) - 1, (1 << 65) + 3]
    for size in range(1, 17):
        for nails in nails_for(rng, size):
            for order in (1, -1):
                for endian in (-1, 0, 1):
                    aligns = range(8) if (size == 8 and nails == 0) else [rng.randrange(8)]
                    for align in aligns:
                        nv = 2 if tier == "quick" else 6
                        xs = [rng.choice(small) for _ in range(nv)] + [rng.choice(vals) for _ in range(nv)]
                        if size == 8 and nails == 0: xs += [rng.choice(vals), 0, (1 << 64) - 1, 1 << 64]
                        for x in xs:
                            if rng.random() < 0.3: x = -x          # sign is ignored by export
                            yield "mpz_export %s %x %s %x %x %s" % (hx(order), size, hx(endian), nails, align, hx(x))
                            cnt, b = export_bytes(order, size, 1 if endian == 1 else -1, nails, abs(x))
                            yield "mpz_import %s %x %s %x %x %s %x" % (hx(order), size, hx(endian), nails, rng.randrange(8) if not (size == 8 and nails == 0) else align, sbytes(b), cnt)
                        # arbitrary words: nail bits set, leading zero words, count 0
                        cnt = rng.choice([0, 1, 2, 3, 5, 9])
                        b = bytes(rng.choice([0, 0xff, rng.getrandbits(8)]) for _ in range(cnt * size))
                        yield "mpz_import %s %x %s %x %x %s %x" % (hx(order), size, hx(endian), nails, align, sbytes(b), cnt)
    # data == NULL: the library allocates count*size bytes
    for _ in range(20 if tier == "quick" else 100):
        size = rng.randrange(1, 17)
        yield "mpz_export %s %x %s %x -1 %s" % (hx(rng.choice([1, -1])), size, hx(rng.choice([-1, 0, 1])), rng.randrange(8 * size), hx(rng.choice(vals)))
    # all fast paths with large operands and every alignment
    for x in vals[-4:]:
        for order in (1, -1):
            for endian in (-1, 0, 1):
                for align in range(8):
                    yield "mpz_export %s 8 %s 0 %x %s" % (hx(order), hx(endian), align, hx(x))
                    cnt, b = export_bytes(order, 8, 1 if endian == 1 else -1, 0, x)
                    yield "mpz_import %s 8 %s 0 %x %s %x" % (hx(order), hx(endian), align, sbytes(b), cnt)
    # the same fast paths fed a fixed-width field: most significant words zero (one, several, all) — the result must be normalised
    for total in (2, 4, 9):
        for zw in range(1, total + 1):
            for order in (1, -1):
                for endian in (-1, 0, 1):
                    for align in (0, 3):
                        words = [rng.getrandbits(64) | 1 for _ in range(total - zw)] + [0] * zw            # least significant first
                        seq = words if order == -1 else words[::-1]
                        be = (endian == 1)
                        b = b"".join(w.to_bytes(8, "big" if be else "little") for w in seq)
                        yield "mpz_import %s 8 %s 0 %x %s %x" % (hx(order), hx(endian), align, sbytes(b), total)

def raw_samples(rng, tier):
    xs = [0, 1, -1, 0x7f, 0x80, -0x80, 0xff, 0x100, -0x100, (1 << 56) - 1, 1 << 56, (1 << 63), -(1 << 63), (1 << 64) - 1,
          1 << 64, -(1 << 64), (1 << 64) + 1, (1 << 120) + 5, -((1 << 128) - 1), 1 << 128]
    for _ in range(8 if tier == "quick" else 40): xs.append(rand_int(rng, 5))
    xs.append(abs(rand_int(rng, 50, False)) | (1 << 64 * 49)); xs.append(-(abs(rand_int(rng, 30, False)) | (1 << 64 * 20)))
    # magnitudes whose byte count has a zero low byte (256, 512 bytes; thorough: 65536) and their neighbours, both signs:
    # the 4-byte two's-complement size header then carries into its second byte
    for nb in [255, 256, 257, 511, 512, 513] + ([65535, 65536, 65537] if tier != "quick" else []):
        m = rng.getrandbits(8 * nb) | 1 << (8 * nb - 1)
        xs += [m, -m]
    return xs

def gen_raw(rng, tier):
    xs = raw_samples(rng, tier)
    for x in xs:
        yield "mpz_out_raw %s" % hx(x)
        yield "mpz_out_inp_raw %s" % hx(x)
        s = raw_bytes(x)
        yield "mpz_inp_raw %s" % sbytes(s)
        yield "mpz_inp_raw %s" % sbytes(s + bytes(rng.getrandbits(8) for _ in range(rng.randrange(1, 9))))   # trailing data stays unread
        # EVERY truncation point, EVERY write-failure position (long outputs: sampled past 80)
        L = len(s)
        ks = range(L + 2) if L <= 80 else list(range(12)) + sorted(rng.sample(range(12, L), min(30, L - 12))) + [L - 1, L, L + 1]
        for k in ks:
            yield "mpz_inp_raw_trunc %s %x" % (sbytes(s), k)
            yield "mpz_out_raw_fail %s %s" % (hx(x), hx(k))
        yield "mpz_out_raw_fail %s -1" % hx(x)
    # headers: every sign/size class, counts disagreeing with the data, GMP 1 style leading zero bytes
    hdrs = [0, 1, 2, 7, 8, 9, 15, 16, 17, 0x100, 0xffff, 0x10000, 0x100000,
            0xffffffff, 0xfffffffe, 0xfffffff8, 0xfffffff7, 0xffffff00, 0xfff00000,
            0x80000000, 0x7fffffff, 0x80000001, 0x01000000, 0x01000001, 0xff000000, 0xfeffffff]
    for h in hdrs:
        hb = h.to_bytes(4, "big")
        c = h if h < (1 << 31) else (1 << 32) - h
        datas = [b"", b"\x01", b"\x00", bytes(rng.getrandbits(8) for _ in range(7)), bytes(rng.getrandbits(8) for _ in range(20))]
        if c <= 64:
            full = bytes(rng.getrandbits(8) | 1 for _ in range(c))
            datas += [full, full + b"\xaa\xbb", b"\x00" * c, b"\x00" * (c // 2) + full[c // 2:], full[:-1] if c else b""]
        if c > 4096: datas = datas[:2] + datas[3:4]      # large announced sizes: short streams only (the library allocates first)
        for d in datas:
            s = hb + d
            yield "mpz_inp_raw %s" % sbytes(s)
            for k in (range(len(s) + 1) if c <= 4096 else (0, 3, 4, 5, len(s))):
                yield "mpz_inp_raw_trunc %s %x" % (sbytes(s), k)
    # the defect fixed by 23eb012, and neighbours: header says n bytes, fewer follow
    for n in (1, 2, 8, 9, 16, 17, 24, 40):
        for got in sorted({0, 1, n // 2, n - 1}):
            s = n.to_bytes(4, "big") + bytes(range(1, got + 1))
            yield "mpz_inp_raw %s" % sbytes(s)
            s = ((1 << 32) - n).to_bytes(4, "big") + bytes(range(1, got + 1))
            yield "mpz_inp_raw %s" % sbytes(s)
    # one large announced size (2^20 bytes) over a short stream; short header
    yield "mpz_inp_raw %s" % sbytes((1 << 20).to_bytes(4, "big") + b"\x01" * 100)
    for k in range(5):
        yield "mpz_inp_raw %s" % sbytes(b"\x00\x00\x00\x01\x05"[:k])

BASES = list(range(2, 63)) + list(range(-36, -1)) + [0]
def gen_text_out(rng, tier):
    xs = [0, 1, -1, 9, 10, -10, 35, 36, 61, 62, -12345678901234567890, (1 << 64) - 1, -(1 << 64), rand_int(rng, 3), rand_int(rng, 6)]
    bases = [2, 3, 8, 10, 16, 36, 37, 62, -2, -16, -36, 0, 63, 100] + rng.sample(BASES, 4 if tier == "quick" else 20)
    for base in bases:
        for x in rng.sample(xs, 5) + [0, -1]:
            L = len(text(base, x)) if abs(base) <= 62 else 0
            for k in list(range(min(L, 70) + 2)) + [-1]:
                yield "mpz_out_str_fail %s %s %s" % (hx(base), hx(x), hx(k))
        for (n, d) in [(0, 1), (1, 1), (-3, 1), (22, 7), (-22, 7), (rand_int(rng, 2), abs(rand_int(rng, 2, False)) + 2), (5, 0), (3, -4)]:
            L = (len(text(base, n)) + (0 if d == 1 else 1 + len(text(base, d)))) if abs(base) <= 62 else 0
            for k in list(range(min(L, 60) + 2)) + [-1]:
                yield "mpq_out_str_fail %s %s %s %s" % (hx(base), hx(n), hx(d), hx(k))
    # a long operand: failure positions sampled
    x = rng.choice([1, -1]) * (abs(rand_int(rng, 50, False)) | (1 << 3000))
    L = len(text(10, x))
    for k in list(range(5)) + sorted(rng.sample(range(5, L), min(40, L - 5))) + [L - 1, L, -1]:
        yield "mpz_out_str_fail a %s %s" % (hx(x), hx(k))

def mpf_operands(rng, tier):
    """(prec, size, exp, limbs): exactly printable small values and general ones"""
    ops = [(2, 0, 0, []), (2, 1, 1, [1]), (2, -1, 1, [0x7b]), (2, 2, 1, [1 << 63, 0x7b]), (2, -2, 1, [1 << 63, 0x7b]),
           (2, 1, 0, [1 << 63]), (2, 1, -1, [1]), (2, 1, 3, [5]), (3, 3, 2, [1, 2, 3]), (3, 4, 2, [9, 1, 2, 3]),
           (2, 3, 1, [M, M, M]), (4, 1, 1, [10 ** 15]), (4, 2, 2, [0, 1]), (2, 1, 40, [3]), (2, 1, -40, [3])]
    for _ in range(6 if tier == "quick" else 30):
        prec = rng.randrange(2, 6); n = rng.randrange(1, prec + 2)
        l = rand_limbs(rng, n, rng.choice(["uniform", "runs", "onebit", "top"]))
        if l[-1] == 0: l[-1] = 1
        ops.append((prec, rng.choice([n, -n]), rng.randrange(-3, 5), l))
    return ops

def fmpf(o): return "%x %s %s %s" % (o[0], hx(o[1]), hx(o[2]), vec(o[3]))

def gen_mpf(rng, tier):
    for o in mpf_operands(rng, tier):
        for base in (10, 2, 16, 0, 62, -36, 7):
            for nd in (0, 1, 5):
                if rng.random() < (0.35 if tier == "quick" else 1.0):
                    for k in list(range(45)) + [-1]:
                        yield "mpf_out_str_fail %s %x %s %s" % (hx(base), nd, fmpf(o), hx(k))
        for base in (2, 4, 8, 16, 32, 10, 0, 3, 36, 62, -16, -36):
            for nd in (0, 3):
                yield "mpf_out_inp_str %s %x %s" % (hx(base), nd, fmpf(o))
    texts = [b"  1.25e2 ", b"-0.5@3", b"1e", b".", b"..5", b"-", b"", b"1.2.3", b" \t\n-12.5e-3x y", b"0.e0", b"-0.1235e3", b"ff.8@1 ", b"1e5 2e6",
             b"\x0b\x0c\r 7", b"12\x003", b"@5", b"e5", b"1@"]
    for t in texts:
        for base in (10, 16, 0, -10, 2):
            for k in range(len(t) + 1):
                yield "mpf_inp_str_trunc %s %x %s %x" % (hx(base), rng.randrange(2, 5), sbytes(t), k)

def gen_text_in(rng, tier):
    # round trips in every base
    xs = [0, 1, -1, 35, 36, 61, 62, 63, -12345678901234567890, (1 << 64) - 1, -(1 << 64), rand_int(rng, 3), rand_int(rng, 8), rand_int(rng, 20)]
    for base in BASES + [63, 70]:
        for x in rng.sample(xs, 4 if tier == "quick" else len(xs)) + [0]:
            yield "mpz_out_inp_str %s %s" % (hx(base), hx(x))
        for _ in range(2):
            yield "mpq_out_inp_str %s %s %s" % (hx(base), hx(rand_int(rng, 2)), hx(rng.choice([1, 2, 7, abs(rand_int(rng, 2, False)) + 1])))
    # truncation at EVERY point of directed texts
    texts = [(10, b"  -12345 "), (10, b"12345"), (0, b" 0x1fG"), (0, b"0X1F"), (0, b"0b1012"), (0, b"0B1"), (0, b"0178"), (0, b"-0"), (0, b"0"), (0, b"0x"),
             (0, b"0b"), (16, b"-00ffz"), (16, b"0x10"), (36, b"Zz9!"), (37, b"Zz9!"), (62, b"-azAZ09~"), (2, b"1012"), (10, b"-"), (10, b" "), (10, b""),
             (10, b"--5"), (10, b"+5"), (10, b"\t\n\x0b\x0c\r 42\n"), (63, b"12"), (1, b"000"), (-5, b"12"), (10, b"000000"), (10, b"0000001"),
             (10, b"9" * 150), (16, b"f" * 120 + b" ")]
    for base, t in texts:
        for k in range(len(t) + 1):
            yield "mpz_inp_str_trunc %s %s %x" % (hx(base), sbytes(t), k)
    # every byte value as the terminator / as a would-be digit (digit value table)
    for base in (10, 16, 36, 37, 62, 0):
        for c in range(256):
            yield "mpz_inp_str_trunc %s %s %s" % (hx(base), sbytes(b"1" + bytes([c]) + b"2 "), hx(-1))
    qtexts = [(10, b" 12/5 "), (10, b"-12/-5"), (10, b"3/"), (10, b"3/x"), (10, b"/5"), (0, b"0x10/0x20"), (0, b"010/0b11 "), (10, b"6/4"), (10, b"3/0"),
              (10, b"3/ 4"), (10, b"3 /4"), (16, b"ff/-A,"), (10, b"0/5"), (10, b"-/5"), (10, b"7"), (62, b"zZ/Zz"), (10, b""), (10, b"12/00034x")]
    for base, t in qtexts:
        for k in range(len(t) + 1):
            yield "mpq_inp_str_trunc %s %s %x" % (hx(base), sbytes(t), k)
    # random valid texts, truncated everywhere
    for _ in range(10 if tier == "quick" else 60):
        base = rng.choice([2, 8, 10, 16, 36, 62, 0])
        x = rand_int(rng, 3)
        t = (b" " * rng.randrange(3)) + text(base, x).encode() + rng.choice([b"", b" ", b"\n", b"/", b"x"])
        for k in range(len(t) + 1):
            yield "mpz_inp_str_trunc %s %s %x" % (hx(base), sbytes(t), k)
        t2 = text(base, x).encode() + b"/" + text(base, abs(rand_int(rng, 2, False)) + 1).encode() + rng.choice([b"", b" "])
        for k in range(len(t2) + 1):
            yield "mpq_inp_str_trunc %s %s %x" % (hx(base), sbytes(t2), k)

def gen_fprintf(rng, tier):
    xs = [0, 5, -5, 12345, -12345, 123456789012345678901234567890, -(1 << 64), rand_int(rng, 4)]
    for pre in (b"", b"ab", b"x = "):
        for post in (b"", b"\n", b"cd"):
            for width in (0, 5, 40, 300):
                for base in (10, 16):
                    for x in rng.sample(xs, 2 if tier == "quick" else len(xs)):
                        body = text(base, x)
                        L = len(pre) + max(width, len(body)) + len(post)
                        ks = range(L + 1) if L <= 60 else list(range(8)) + sorted(rng.sample(range(8, L), min(25, L - 8))) + [255, 256, 257, L - 1, L]
                        for k in list(ks) + [-1]:
                            yield "gmp_fprintf_fail %s %x %x %s %s %s" % (sbytes(pre), width, base, hx(x), sbytes(post), hx(k))

def gen_ops(rng, tier, ctx=None):
    yield from gen_raw(rng, tier)
    yield from gen_export_import(rng, tier)
    yield from gen_text_out(rng, tier)
    yield from gen_text_in(rng, tier)
    yield from gen_mpf(rng, tier)
    yield from gen_fprintf(rng, tier)

def nontrivial(line):
    # zero operands and empty streams are the trivial cases
    t = line.split()
    if t[0] in ("mpz_export", "mpz_out_raw", "mpz_out_inp_raw") and t[-1] == "0": return None
    if t[0].startswith("mpz_inp_raw") and len(t[1]) <= 1: return None
    return line

# source pins: the C files the Lean model cites (see tools/pins.py)
PINS = [('mpf/inp_str.c', None), ('mpf/out_str.c', None), ('mpq/inp_str.c', None), ('mpq/out_str.c', None), ('mpz/export.c', None), ('mpz/import.c', None), ('mpz/inp_raw.c', None), ('mpz/inp_str.c', None), ('mpz/out_raw.c', None), ('mpz/out_str.c', None), ('mpz/realloc.c', None), ('printf/doprnt.c', None), ('printf/printffuns.c', None)]
