"""C01 (part: leaves) — mul_1, addmul_1, submul_1, mul_basecase: exact limb-vector functions.
Merged into property C01 by tools/check.py (load_property): lists concatenated, generators chained."""
from genlib import *
LEAN_MODULES = ["MpirProofs.Props.C01_leaves"]
THEOREMS = ["Mpir.mul_1_val", "Mpir.addmul_1_val", "Mpir.submul_1_val", "Mpir.mul_basecase_val"]
TRUSTED = ["hand-written limb-level models of mul_1/addmul_1/submul_1/mul_basecase in lean/Mpir/Model/Kernels.lean (tied by correspondence on every run)",
           "umul_ppmm modelled as the exact 64x64->128 product (the meaning of the mulq instruction)"]
ASSUMPTIONS = ["leaf models mirror mpn/generic/{mul_1,addmul_1,submul_1,mul_basecase}.c limb for limb; the build may select assembly for these entry points, the tie is differential"]
RULE = ("leaves: mul_1/mul_1_ip/addmul_1/submul_1 at every size 1..40 x every data class x special and random multiplier limbs, "
        "plus operands built backwards from the answer (exact cancellation, maximal carry/borrow limb); mul_basecase at every (un,vn) with 1<=vn<=un<=24")

MULTS = [0, 1, 2, 3, M, M - 1, 1 << 63, (1 << 63) - 1, (1 << 63) + 1, 1 << 32, (1 << 32) - 1, (1 << 32) + 1]

def _val(l):
    v = 0
    for i, x in enumerate(l): v |= x << (64 * i)
    return v

def _mults(rng, k):
    """all special multiplier limbs plus k random ones (full width and short)"""
    return MULTS + [rng.getrandbits(64) for _ in range(k)] + [rng.getrandbits(rng.randrange(1, 65)) for _ in range(k)]

def gen_ops(rng, tier, ctx=None):
    thorough = tier != "quick"
    nrand = 3 if thorough else 1
    # --- mul_1 family: every size 1..40, every data class, every special multiplier
    for n in range(1, 41):
        for cls in DATA_CLASSES:
            u = rand_limbs(rng, n, cls)
            mults = _mults(rng, nrand)
            if not thorough and n > 12:
                # quick tier: all specials at small sizes, a rotating subset above
                mults = [MULTS[(n + i) % len(MULTS)] for i in range(4)] + [M, rng.getrandbits(64)]
            for v in mults:
                yield "mpn_mul_1 %s %x" % (vec(u), v)
                if rng.random() < 0.5: yield "mpn_mul_1_ip %s %x" % (vec(u), v)
                r = rand_limbs(rng, n)
                yield "mpn_addmul_1 %s %s %x" % (vec(r), vec(u), v)
                yield "mpn_submul_1 %s %s %x" % (vec(r), vec(u), v)
        # extreme carries: everything all-ones (carry limb B-1 for addmul, borrow limb B-1 for submul from 0)
        ones = [M] * n; zero = [0] * n
        for v in (M, M - 1, 1 << 63, 1):
            yield "mpn_mul_1 %s %x" % (vec(ones), v)
            yield "mpn_mul_1_ip %s %x" % (vec(ones), v)
            yield "mpn_addmul_1 %s %s %x" % (vec(ones), vec(ones), v)
            yield "mpn_addmul_1 %s %s %x" % (vec(zero), vec(ones), v)
            yield "mpn_submul_1 %s %s %x" % (vec(zero), vec(ones), v)
            yield "mpn_submul_1 %s %s %x" % (vec(ones), vec(ones), v)
        # operands built backwards from the answer
        for _ in range(2 * nrand):
            u = rand_limbs(rng, n, rng.choice(["uniform", "runs", "sparse", "ones"]))
            v = rng.choice(MULTS[1:] + [rng.getrandbits(64) | 1])
            p = _val(u) * v
            lo, hi = limbs_of(p % (B ** n), n), p >> (64 * n)
            # submul: r = low n limbs of u*v  -> result 0, borrow = high limb of the product
            yield "mpn_submul_1 %s %s %x" % (vec(lo), vec(u), v)
            # r one less / one more than the low product: borrow chain through every limb / result 1
            yield "mpn_submul_1 %s %s %x" % (vec(limbs_of((p - 1) % (B ** n), n)), vec(u), v)
            yield "mpn_submul_1 %s %s %x" % (vec(limbs_of((p + 1) % (B ** n), n)), vec(u), v)
            # addmul: r = B^n - low product -> result 0 with a carry out of the low part; r = that - 1 -> all ones
            c = (B ** n - p) % (B ** n)
            yield "mpn_addmul_1 %s %s %x" % (vec(limbs_of(c, n)), vec(u), v)
            yield "mpn_addmul_1 %s %s %x" % (vec(limbs_of((c - 1) % (B ** n), n)), vec(u), v)
            # carry stopping at a chosen limb: r all ones below position k
            k = rng.randrange(n + 1)
            yield "mpn_addmul_1 %s %s %x" % (vec([M] * k + rand_limbs(rng, n - k, "uniform")), vec(u), v)
    # --- mul_basecase: every shape 1 <= vn <= un <= 24
    reps = 3 if thorough else 1
    for un in range(1, 25):
        for vn in range(1, un + 1):
            yield "mpn_mul_basecase %s %s" % (vec([M] * un), vec([M] * vn))
            for _ in range(reps):
                cu, cv = rng.choice(DATA_CLASSES), rng.choice(DATA_CLASSES)
                yield "mpn_mul_basecase %s %s" % (vec(rand_limbs(rng, un, cu)), vec(rand_limbs(rng, vn, cv)))
            yield "mpn_mul_basecase %s %s" % (vec(rand_limbs(rng, un, "uniform")), vec(rand_limbs(rng, vn, "uniform")))
            if un == vn:
                u = rand_limbs(rng, un, rng.choice(["uniform", "runs", "sparse"]))
                yield "mpn_mul_basecase %s %s" % (vec(u), vec(u))      # equal contents, distinct objects
    # a few longer basecase rows (still below any chunking), unbalanced
    for un, vn in ((40, 1), (40, 2), (40, 24), (33, 17), (64, 3)):
        for cls in ("ones", "uniform", "runs"):
            yield "mpn_mul_basecase %s %s" % (vec(rand_limbs(rng, un, cls)), vec(rand_limbs(rng, vn, cls)))

def nontrivial(line):
    return line if "," in line else None

# source pins: the C the Lean model mirrors (see tools/pins.py)
PINS = [('mpn/generic/mul_1.c', 'mpn_mul_1'), ('mpn/generic/addmul_1.c', 'mpn_addmul_1'), ('mpn/generic/submul_1.c', 'mpn_submul_1'), ('mpn/generic/mul_basecase.c', 'mpn_mul_basecase')]
