"""C15 part: escape analysis of the writable statics, documented shared cells, focused thread histories."""
import os, re, json
import vlib, gen_globals, gen_globaluses
from genlib import *

LEAN_MODULES = ["MpirProofs.Props.C15_globals"]
THEOREMS = ["Mpir.Gen.escaped_statics_harmless", "Mpir.Gen.documented_cells_writers", "Mpir.Gen.documented_cells_reach",
            "Mpir.Threads.interleaving_irrelevant_cells", "Mpir.Threads.read_shared_schedule_independent",
            "Mpir.Threads.apiStep_preserves", "Mpir.Threads.apiStep_respects", "Mpir.Threads.api_readers_schedule_independent",
            "Mpir.Threads.api_schedule_independent"]
GEN = [gen_globaluses.gen_globaluses]
PINS = [("mp_set_fns.c", None), ("mp_get_fns.c", None), ("mpf/set_dfl_prec.c", None), ("mpf/get_dfl_prec.c", None),
        ("mpf/init.c", None), ("rands.c", None), ("errno.c", None), ("gmp-impl.h", "RANDS"), ("gmp-impl.h", "RANDS_CLEAR"),
        ("gmp-impl.h", "__GMPF_BITS_TO_PREC"), ("gmp-impl.h", "__GMPF_PREC_TO_BITS"), ("mpn/generic/random.c", None)]
TRUSTED = ["tools/gen_globaluses.py: clang-14 AST (-ast-dump=json) of every translation unit whose object file references a writable static; "
           "the classification of each occurrence (read / write / constArg / mutArg / cmp / sizeof / stored / returned / other) with local pointer "
           "aliases followed inside the function; cross-checked against the relocations of the compiled library (every referencing member must show "
           "a source use, every storing member a source write)",
           "objdump -h/-t/-dr/-r of libmpir.a (section flags, local and global object symbols, instruction operands)"]
ASSUMPTIONS = ["a pointer-to-const parameter is followed into the callee's body (4 levels deep, also through casts that drop the const) when the callee is defined in the library; for callees outside the library (libc) the prototype is trusted",
               "functions reached only through function pointers are not followed by the writer scan (the generator tables take the state as an explicit argument)",
               "relocated constants (.data.rel.ro*) are written only by the loader, before any thread of the program exists"]
RULE = ("threadsx N seed nops profile: like `threads` with histories chosen by profile bits (printf/scanf, radix conversion around the precompute thresholds, "
        "factorial/binomial/fibonacci in table/sieve/prime-swing ranges, primality incl. the Miller-Rabin stage, one MT + one LC state per thread, reads of the "
        "default mpf precision set before thread creation; bit 6: thread 0 alone also uses the obsolete random functions on the global generator) and per-thread memory accounting (thread-local counters: balance zero, same totals as the sequential run); "
        "cells_trace [codes]: sequential API traces over the documented cells against the Lean cell model; distinct = distinct lines")

def _calls(rng, n, readers_only=False):
    out = []
    for _ in range(n):
        k = rng.choice([2, 4, 5, 6, 9] if readers_only else [1, 1, 2, 3, 3, 4, 5, 5, 6, 6, 7, 7, 8, 9])
        if k == 1: out += [1, rng.randrange(3), rng.randrange(3), rng.randrange(3)]
        elif k == 3: out += [3, rng.choice([0, 1, 52, 53, 54, 63, 64, 65, 127, 128, 129, 191, 192, 193, 1000, 4096, 1 << 20, rng.randrange(1, 5000)])]
        else: out.append(k)
    return out

def gen_ops(rng, tier, ctx=None):
    quick = tier == "quick"
    # --- documented cells: directed traces first
    directed = [
        [],                                              # nothing
        [2, 4, 5, 6, 9],                                 # fresh library
        [7, 7, 8, 8, 7],                                 # RANDS: initialise once, clear, clear again (no-op), re-initialise
        [1, 1, 1, 1, 7, 1, 2, 2, 2, 8, 7, 8],            # generator state allocated by family 1, freed by family 2
        [1, 1, 2, 0, 6, 2, 1, 0, 0, 0, 6, 2, 5],         # mixed families, NULL restores the defaults
        [3, 0, 4, 5, 3, 53, 4, 3, 54, 4, 3, 64, 4, 5, 3, 65, 4, 5, 3, 128, 4, 3, 129, 4, 5],   # __GMPF_BITS_TO_PREC boundaries
        [3, 1 << 20, 5, 4, 1, 2, 2, 2, 5, 6],
    ]
    for d in directed: yield "cells_trace %s" % vec(d)
    for i in range(40 if quick else 600):
        yield "cells_trace %s" % vec(_calls(rng, rng.choice([1, 2, 5, 12, 30]), readers_only=(i % 5 == 4)))
    # --- focused thread histories: every profile bit alone, then mixtures
    profs = [1, 2, 4, 8, 16, 32, 64 + 32 + 1] + ([63, 12, 127] if quick else [63] * 6 + [127] * 3 + [rng.randrange(1, 128) for _ in range(20)])
    for p in profs:
        n = rng.choice([2, 3, 4, 8]); nops = rng.choice([60, 120]) if quick else rng.choice([150, 400, 1000])
        if p in (2, 8): nops = min(nops, 80 if quick else 300)
        yield "threadsx %x %x %x %x" % (n, rng.randrange(1, 1 << 30), nops, p)

def nontrivial(line):
    return line if line.startswith(("cells_trace", "threadsx")) else None

def extra(ctx, cov):
    """(1) the evidence: objects and uses per category; (2) the focused histories on the ThreadSanitizer build."""
    rep = getattr(ctx, "globaluses_report", None)
    if rep:
        cov["static_objects_uses"] = rep
        try:
            objs, refs, initaddrs, anon = gen_globals.scan2(ctx.build)
            cov["static_objects"] = {"total": len(objs), "local_symbols": sorted("%s (%s, %s)" % (k[1], k[0], o["sect"]) for k, o in objs.items() if o["local"]),
                                     "global_symbols": sorted("%s (%s, %s)" % (k[1], k[0], o["sect"]) for k, o in objs.items() if not o["local"])}
        except Exception as e: cov["static_objects"] = "scan failed: %s" % e
    build = vlib.get_build("tsan"); exe = vlib.get_harness(build, "tsan")
    import random
    rng = random.Random("C15x-tsan-%d" % ctx.seed)
    quick = ctx.tier == "quick"
    profs = [1, 2, 4, 8, 16, 32, 63, 64 + 16] if quick else [1, 2, 4, 8, 16, 32, 64 + 1, 64 + 32] * 3 + [127] * 6
    lines = []
    for p in profs:
        nops = rng.choice([40, 80]) if quick else rng.choice([100, 300])
        if p in (2, 8): nops = min(nops, 50 if quick else 150)
        lines.append("threadsx %x %x %x %x" % (rng.choice([2, 4, 8]), rng.randrange(1, 1 << 30), nops, p))
    env = {"TSAN_OPTIONS": "halt_on_error=1:exitcode=66:report_signal_unsafe=0"}
    rc, out, err = vlib.run_stream(exe, lines, env=env, timeout=3000)
    cov["tsan_runs_threadsx"] = len(lines); cov["tsan_exit_threadsx"] = rc
    if rc == 0 and out == ["0"] * len(lines): return []
    k = len(out) if rc != 0 else next(i for i, o in enumerate(out) if o != "0")
    path = os.path.join(vlib.VERIF, "replay", "C15-tsanx-%d.ops" % ctx.seed)
    os.makedirs(os.path.dirname(path), exist_ok=True)
    with open(path, "w") as f:
        f.write("# ThreadSanitizer build: harness rc=%d; answers %s\n" % (rc, out))
        f.write("".join("# " + l + "\n" for l in err.split("\n")[:120]))
        f.write(lines[min(k, len(lines) - 1)] + "\n")
    m = re.search(r"WARNING: ThreadSanitizer: ([^\n]*)", err)
    loc = re.search(r"Location is global '([^']+)'", err)
    return [("tsan: %s%s at %s" % (m.group(1) if m else "thread result differs", (" on global " + loc.group(1)) if loc else "", lines[min(k, len(lines) - 1)]), path)]

def explain_broken(ctx, proof_broken):
    """name the objects (and the uses) that make escaped_statics_harmless / documented_cells_writers fail"""
    v = getattr(ctx, "globaluses_violations", None)
    if v is None:
        try:
            objs, uses, asm_refs, ntu = gen_globaluses.analyse(ctx.build)
            v = gen_globaluses.violations(ctx.build, None, uses)
        except Exception as e: return "source analysis failed: %s" % e
    return "\n".join(v)
