"""C01 (part: the squaring variants) — mpn_kara_sqr_n, mpn_toom3_sqr_n, mpn_toom4_sqr_n with squaring-specific value models
(lean/Mpir/Model/SqrAlgo.lean: the evaluation points of a single operand, the products as squares, the signs handed to the shared
interpolation functions).  Theorems: Karatsuba squaring returns the square for every n and threshold pair (recursion modelled); the
Toom-3 / Toom-4 squaring sequences are those of the multiplication models with b = a, hence return the square."""
import os, sys
sys.path.insert(0, os.path.dirname(os.path.dirname(os.path.abspath(__file__))))
from genlib import *

LEAN_MODULES = ["MpirProofs.Props.C01_sqr"]
THEOREMS = ["Mpir.SqrAlgo.kara_sqr_n_val", "Mpir.SqrAlgo.toom3_sqr_n_is_mul_n", "Mpir.SqrAlgo.toom3_sqr_n_val",
            "Mpir.SqrAlgo.toom4_sqr_n_is_mul_n", "Mpir.SqrAlgo.toom4_sqr_n_val"]
PINS = [("mpn/generic/mul_n.c", "mpn_kara_sqr_n"), ("mpn/generic/toom3_mul_n.c", "mpn_toom3_sqr_n"), ("mpn/generic/toom4_mul_n.c", "mpn_toom4_sqr_n")]
TRUSTED = ["hand-written value-level models of the squaring variants in lean/Mpir/Model/SqrAlgo.lean (run against the library on every check; the answer is "
           "the square, flagged when the model does not produce it)"]
ASSUMPTIONS = ["value level only: the single-operand evaluation code at limb level (buffer reuse, saved limbs vinf0 / r30 / r31, scratch layout), the dispatch macros "
               "TOOM3_SQR_REC / SQR_TC4 and mpn_sqr_basecase (assembly) are covered by the differential run; the interpolation sequences are those of the "
               "multiplication models (toom3_interp_exact, toom4_interp_exact)"]
RULE = ("kara_sqr_n: every n = 2..70 and sizes around 2*SQR_KARATSUBA_THRESHOLD (first recursion), odd and even; toom3_sqr_n: n = 17..60, around SQR_TOOM3_THRESHOLD; "
        "toom4_sqr_n: n = 32..80, around SQR_TOOM4_THRESHOLD; operands all ones, uniform, runs, and blocks built so that a1 > a0 + a2 (negative value at -1), "
        "a0 + a2 = a1 (zero), a1 + a3 > a0 + a2, 4 a1 + a3 > 8 a0 + 2 a2 (negative value at -1/2), high block zero")

def blocks(rng, n, k, kinds):
    """operand of n limbs from blocks of k limbs, kinds[i] in {zero, one, ones, rand, small}"""
    out = []
    for kind in kinds:
        if kind == "zero": b = [0] * k
        elif kind == "one": b = [1] + [0] * (k - 1)
        elif kind == "ones": b = [M] * k
        elif kind == "small": b = [rng.getrandbits(64)] + [0] * (k - 1)
        else: b = rand_limbs(rng, k, "uniform")
        out += b
    return (out + [0] * n)[:n] if len(out) < n else out[:n]

def gen_ops(rng, tier, ctx=None):
    thorough = tier != "quick"
    kt = 24; t3 = 89; t4 = 234
    if ctx is not None and getattr(ctx, "params", None):
        kt = int(ctx.params.get("SQR_KARATSUBA_THRESHOLD", kt)); t3 = int(ctx.params.get("SQR_TOOM3_THRESHOLD", t3)); t4 = int(ctx.params.get("SQR_TOOM4_THRESHOLD", t4))
    ks = sorted(set(list(range(2, 71)) + [2 * kt - 2, 2 * kt - 1, 2 * kt, 2 * kt + 1, 4 * kt - 1, 4 * kt, 4 * kt + 1]))
    for n in ks:
        for cls in (["ones", "uniform", "runs"] if n <= 40 or thorough else ["ones", "uniform"]):
            yield "sqrx_kara_sqr_n %s" % vec(rand_limbs(rng, n, cls))
        # xh < xl and xh > xl, odd top limb zero
        h = n // 2
        yield "sqrx_kara_sqr_n %s" % vec([M] * h + [0] * (n - h - 1) + [1])
        yield "sqrx_kara_sqr_n %s" % vec([1] + [0] * (h - 1) + [M] * (n - h - 1) + [0])
    for n in sorted(set(list(range(17, 61)) + [t3 - 1, t3, t3 + 1, 3 * kt - 1, 3 * kt, 3 * kt + 2])):
        k = (n + 2) // 3
        for cls in ["ones", "uniform"] + (["runs"] if thorough else []):
            yield "sqrx_toom3_sqr_n %s" % vec(rand_limbs(rng, n, cls))
        for kinds in [("small", "ones", "small"), ("ones", "ones", "zero"), ("one", "ones", "ones"), ("rand", "zero", "rand"), ("zero", "rand", "zero")]:
            yield "sqrx_toom3_sqr_n %s" % vec(blocks(rng, n, k, kinds))
    for n in sorted(set(list(range(32, 81)) + [t4 - 1, t4, t4 + 1])):
        sn = (n - 1) // 4 + 1
        for cls in ["ones", "uniform"] + (["runs"] if thorough else []):
            yield "sqrx_toom4_sqr_n %s" % vec(rand_limbs(rng, n, cls))
        for kinds in [("small", "ones", "small", "ones"), ("ones", "small", "ones", "small"), ("small", "ones", "ones", "zero"), ("rand", "rand", "zero", "zero"),
                      ("zero", "zero", "zero", "rand"), ("one", "zero", "zero", "one")]:
            yield "sqrx_toom4_sqr_n %s" % vec(blocks(rng, n, sn, kinds))

def nontrivial(line):
    op = line.split(" ", 1)[0]
    if not op.startswith("sqrx_"): return None
    return line
