"""C04 part (integrator): heap-sized TMP blocks on RARE EARLY EXITS.  With the alloca TMP scheme only requests of 65536 bytes and
more go through the user's allocate function, so a `return` that forgets TMP_FREE leaks only for operands of about 1600 limbs and
more that also reach that exit.  The regenerated TMP skeleton theorem (`tmp_balanced`) rejects such a function for every input;
these lines give the search a concrete failing input for the exits that need constructed operands:
 * mpn_gcdext (gcdext.c:320-326): the FIRST mpn_hgcd makes no progress and one subtract+divide step ends with n == 0 —
   operands of equal length whose high halves agree and whose difference divides them (a = m ± 1 modulo m; b = d·k, a = b + d);
 * the same sizes through mpz_invert / mpz_gcdext with NULL t.
The recording allocator of the harness reports `!leak` after each stateless op.
Also: gmp_asprintf outputs whose length is EXACTLY the capacity of the growing buffer (256 initially, GMP_ASPRINTF_T_NEED grows when
`alloc <= newsize`): the terminating NUL needs the `=` (seed C04_d_1 drops it: one byte behind the block, seen by the red zones)."""
from genlib import *

def _big(rng, n, kind):
    v = 0
    for k, x in enumerate(rand_limbs(rng, n, kind)): v |= x << (64 * k)
    return v | (1 << (64 * n - 1)) | 1

def gen_ops(rng, tier, ctx=None):
    sizes = [1700, 2050] if tier == "quick" else [1590, 1700, 2050, 4001, 6000]
    for n in sizes:
        m = _big(rng, n, rng.choice(["uniform", "runs"]))
        yield "mpz_invert 0 %s %s" % (hx(m - 1), hx(m))
        yield "mpz_invert 0 %s %s" % (hx(m + 1), hx(m))
        d = rng.choice([3, 5, (1 << 64) - 59, (1 << 70) + 3])
        b = (m // d) * d
        yield "mpz_gcdext 0 %s %s" % (hx(b + d), hx(b))
        yield "mpz_gcdext_nt 0 %s %s" % (hx(b), hx(b + d))
        yield "mpz_gcdext 0 %s %s" % (hx(-(b + d)), hx(b))
    for w in (255, 256, 257, 511, 512, 513):
        yield "gmp_asprintf s252a5a64 s695a %x 7" % w                     # "%*Zd", width w
        yield "gmp_asprintf s252a5a64 s695a %x %s" % (3, hx(10 ** (w - 1)))   # a w-digit number
