"""C08 part: the limb level of modular exponentiation — mpn_redc_n with its scratch area and the
wrap-around recovery, mpn_powm on memory (scratch `tp`, table `pp`, access flag).  Merged into c08.py."""
import os, re
from genlib import *
import props.c08_powm as P

LEAN_MODULES = ["MpirProofs.Props.C08_limb"]
THEOREMS = [
    "Mpir.PowmL.redc_n_limb_spec",
    "Mpir.PowmL.redc_n_exec_spec",
    "Mpir.PowmL.mpn_powm_correct",
    "Mpir.PowmL.mpz_powm_scratch_ok",
    "Mpir.PowmL.mpn_powm_correct_upto_cutoff",
    "Mpir.PowmL.mpn_powlo_correct",
]
TRUSTED = ["hand-written models lean/Mpir/Model/PowmLimb.lean: mpn_redc_n statement by statement on limb lists (mullow, "
           "mulmod_bnm1 residue, the subtraction that rebuilds the wrapped limbs, MPN_DECR_U, final subtraction / add-back); "
           "mpn_powm on memory (rp, the caller's tp, the table pp as a list of n-limb entries with the limb-range check "
           "n*i + n <= n << (w-1)); mpn_powlo on memory (tp of 3n limbs, pp with the spare n limbs, both halves of every mullow stored); tied by the ops mpn_redc_n_l, mpn_powm_m, mpn_powlo_m (exact) and mpn_powm_fp (result + measured footprint)"]
ASSUMPTIONS = ["in THIS part mpn_mulmod_bnm1 is 'some residue of x*m modulo B^rn - 1 in rn limbs, 0 for the product 0' (theorem: every "
               "such residue; executable model: the least one) - part c08_mm1 proves that the real mpn_mulmod_bnm1 is such a residue "
               "(mpn_mulmod_bnm1_val, redc_n_unconditional, reduceLR_eq); mpn_mullow_n / mpn_mul_n / mpn_sqr / mpn_tdiv_qr (redcify) / mpn_binvert "
               "by their mathematical meaning (C01/C02; binvert: Powm.binvert_correct); mpn_binvert's use of tp is charged as "
               "mpn_binvert_itch(n) limbs",
               "redc_n theorems take n <= rn < 2n for rn = mpn_mulmod_bnm1_next_size(n) as hypotheses (mulmod_bnm1's ASSERT and "
               "redc_n's ASSERT_ALWAYS); discharged for every n by next_size_bounds of part c08_mm1",
               "mpn_redc_2 (built, but not selected by mpn_powm in this build: no native addmul_2, WANT_REDC_2 undefined): part c08_redc2; "
               "mpz_powm_ui at the memory level: part c08_powmui"]
RULE = ("redc_n: n at +-2 of 9, of REDC_1_TO_REDC_N_THRESHOLD and of 2*FFT_MULMOD_2EXPP1_CUTOFF (rn > n beyond it); inputs built "
        "backwards from x and m: products whose limbs k..rn are all ones with a wrapped part that carries (borrow ripples through "
        "zero limbs), residue class of 0 (m | B^rn - 1), U = (m-1)B^n + B^n - 1, U = 0, U < B^n, moduli B^n - 1, B^n/2 + 1, all ones; "
        "wrong inverses; mpn_powm: moduli at +-2 of the REDC threshold, exponent lengths at +-1 of every win_size switch point, "
        "long runs of zeros / ones, trailing zero bits, single-bit exponents")

B = 1 << 64

def next_size(n, T):
    """mpn_mulmod_bnm1_next_size for the default tables (only used to aim the generators; the Lean side uses the generated parameters)"""
    cutoff = T.get("FFT_MULMOD_2EXPP1_CUTOFF", 128)
    if n <= 2 * cutoff: return n
    return None

def thresholds(ctx):
    T = P.thresholds(ctx)
    root = getattr(ctx, "build", None) if ctx is not None else None
    if not root: root = os.environ.get("VERIF_REPO", "/repo")
    for f in ("gmp-impl.h", "gmp-mparam.h"):
        try: s = open(os.path.join(root, f), errors="replace").read()
        except OSError: continue
        m = re.search(r"^#\s*define\s+FFT_MULMOD_2EXPP1_CUTOFF\s+(\d+)", s, re.M)
        if m: T["FFT_MULMOD_2EXPP1_CUTOFF"] = int(m.group(1))
    T.setdefault("FFT_MULMOD_2EXPP1_CUTOFF", 128)
    return T

def redc_line(u, m, ip, n):
    return "mpn_redc_n_l %s %s %s" % (vec(limbs_of(u, 2 * n)), vec(limbs_of(m, n)), vec(limbs_of(ip, n)))

def gen_redc_n(rng, tier, T):
    thor = tier == "thorough"
    cut2 = 2 * T["FFT_MULMOD_2EXPP1_CUTOFF"]
    sizes = sorted(set([9, 10, 11, 12, 16, 31, 32, 33] + P.around([T["REDC_1_TO_REDC_N_THRESHOLD"]], 9, 400)))
    for n in sizes:
        Bn = 1 << (64 * n)
        mods = [P.odd_n(rng, n), Bn - 1, Bn // 2 + 1, (Bn - 1) // 3 if (Bn - 1) % 3 == 0 and ((Bn - 1) // 3) % 2 else Bn - 1,
                P.odd_n(rng, n, "ones"), (1 << (64 * (n - 1))) + 1]
        for m in mods:
            if m % 2 == 0 or m >= Bn: continue
            ip = pow(m, -1, Bn)
            # backwards: x, then U_lo = x*m mod B^n, U_hi free
            for x in (rng.randrange(Bn), Bn - 1, 0, 1, (Bn - 1) // m if m > 1 else 1):
                y = x * m
                uhs = [rng.randrange(Bn), y >> (64 * n), (y >> (64 * n)) - 1 if y >> (64 * n) else 0, (y >> (64 * n)) + 1, m - 1, 0, Bn - 1]
                for uh in (uhs if n <= 12 else rng.sample(uhs, 2)):
                    if 0 <= uh < Bn: yield redc_line((uh << (64 * n)) | (y % Bn), m, ip, n)
            yield redc_line((m - 1) * Bn + (Bn - 1), m, ip, n)              # largest input
            yield redc_line(0, m, ip, n)
            yield redc_line(rng.randrange(Bn), m, ip, n)                     # U < B^n: the last REDC of mpn_powm
            yield redc_line(rng.randrange(Bn * Bn), m, ip, n)
            # a wrong inverse: the code still runs; compared when the residue class is not 0
            ipw = rng.randrange(Bn) | 1
            u = rng.randrange(Bn * Bn)
            xw = (u % Bn) * ipw % Bn
            if (xw * m) % (Bn - 1) != 0: yield redc_line(u, m, ipw, n)
        # residue class of 0 with a non-zero product: m divides B^n - 1 (rn = n), any x makes x*m*c = 0 mod B^n - 1 only for
        # x multiple of (B^n-1)/m; take m = B^n - 1 itself and m = (B^(n/2) + 1) for even n
        for m in ([Bn - 1] + ([(1 << (32 * n)) + 1] if n % 2 == 0 else [])):
            if m % 2 == 0: continue
            ip = pow(m, -1, Bn)
            co = (Bn - 1) // m
            for x in (co, 2 * co, co * (rng.randrange(m - 1) + 1) % Bn):
                if x >= Bn: continue
                y = x * m
                yield redc_line(((rng.randrange(Bn)) << (64 * n)) | (y % Bn), m, ip, n)
    # rn > n: beyond 2*cutoff.  Squares: x*m = (s*T)^2 - d^2 with T^2 = B^rn gives limbs k..rn all ones and a carry
    # into them from the wrapped part.  rn is not known here (it comes from the FFT tables): try the candidates.
    big = [cut2 + 1, cut2 + 2] + ([cut2 + 3, cut2 + 64, 2 * cut2 + 1] if thor else [])
    for n in big:
        Bn = 1 << (64 * n)
        m = P.odd_n(rng, n); ip = pow(m, -1, Bn)
        for _ in range(2):
            x = rng.randrange(Bn); y = x * m
            yield redc_line((rng.randrange(Bn) << (64 * n)) | (y % Bn), m, ip, n)
        yield redc_line((m - 1) * Bn + (Bn - 1), m, ip, n)
        for rn in (320, 448, 544, 608):                                     # values of next_size with the shipped FFT tables
            k = 2 * n - rn
            if not (n < rn and k >= 1): continue
            Tq = 1 << (32 * rn)
            d = (rng.getrandbits(min(32 * k, 40)) | 1)
            s = d + 1 + rng.getrandbits(8)
            if s * Tq + d >= Bn: continue
            mm, xx = s * Tq - d, s * Tq + d
            y = mm * xx
            yield redc_line((rng.randrange(Bn) << (64 * n)) | (y % Bn), mm, pow(mm, -1, Bn), n)

def ripple_small(rng):
    """the same construction at the sizes where rn = n is forced to k = n: the wrapped part is decremented directly"""
    for n in (9, 10, 16, 33):
        Bn = 1 << (64 * n)
        Tq = 1 << (32 * n)
        for _ in range(3):
            d = rng.getrandbits(rng.choice([8, 32 * n - 8])) | 1
            s = d + 1 + rng.getrandbits(4)
            if s * Tq + d >= Bn or s * Tq - d <= 0: continue
            mm, xx = s * Tq - d, s * Tq + d
            y = mm * xx
            yield redc_line((rng.randrange(Bn) << (64 * n)) | (y % Bn), mm, pow(mm, -1, Bn), n)

def gen_powm(rng, tier, T):
    thor = tier == "thorough"
    thr = T["REDC_1_TO_REDC_N_THRESHOLD"]
    def line(op, b, e, m):
        return "%s %s %s %s" % (op, vec(limbs_of(b) or [0]), vec(limbs_of(e)), vec(limbs_of(m)))
    # small sizes, every exponent shape
    for n in list(range(1, 9)) + [15, 16, 17]:
        Bn = 1 << (64 * n)
        for m in (P.odd_n(rng, n), Bn - 1, Bn // 2 + 1, P.odd_n(rng, n, "ones")):
            if m % 2 == 0 or m.bit_length() <= 64 * (n - 1): continue
            for ecls in ("uniform", "runs", "ones", "onebit", "sparse"):
                bits = rng.choice([2, 3, 7, 8, 25, 26, 64, 65, 81, 82, 130, 241, 242])
                e = P.exp_bits(rng, bits, ecls)
                if rng.random() < 0.4: e <<= rng.randrange(1, 70)            # trailing zero bits
                if e < 2: e = 2
                b = rng.choice([P.rnd_n(rng, n), P.rnd_n(rng, n + 2), P.rnd_n(rng, max(1, n - 1)), m - 1, m + 1, 1, 0, Bn - 1, 2])
                yield line(rng.choice(["mpn_powm_m", "mpn_powm_fp"]), b, e, m)
    # window-size switch points
    for wb in (P.WIN_BOUNDS if thor else P.WIN_BOUNDS[:6]):
        for bits in (wb - 1, wb, wb + 1):
            if bits < 2: continue
            e = P.exp_bits(rng, bits, rng.choice(["uniform", "runs", "ones"]))
            m = P.odd_n(rng, rng.choice([1, 2, 3]))
            yield line("mpn_powm_fp", P.rnd_n(rng, 2), e, m)
            yield line("mpn_powm_m", P.rnd_n(rng, 1), e | 1, m)
    # around the REDC threshold (both reductions), and one size with rn > n in the thorough tier
    for n in P.around([thr], 1, 400) + ([2 * T["FFT_MULMOD_2EXPP1_CUTOFF"] + 1] if thor else []):
        Bn = 1 << (64 * n)
        for m in (P.odd_n(rng, n), Bn - 1):
            for e in (P.exp_bits(rng, rng.choice([2, 9, 30])), 1 << rng.randrange(1, 12), (1 << 7) - 1):
                if e < 2: e = 2
                b = rng.choice([P.rnd_n(rng, n), m - 1, P.rnd_n(rng, 1), 0])
                yield line("mpn_powm_fp", b, e, m)
                yield line("mpn_powm_m", b, e, m)

def gen_powlo(rng, tier, T):
    thor = tier == "thorough"
    for n in list(range(1, 9)) + P.around([T["MULLOW_DC_THRESHOLD"], T["MUL_KARATSUBA_THRESHOLD"]], 1, 80):
        for ecls in ("uniform", "runs", "ones", "onebit", "sparse"):
            bits = rng.choice([2, 3, 7, 8, 25, 26, 64, 65, 81, 82, 130] + ([241, 242, 673, 674] if n <= 8 or thor else []))
            e = P.exp_bits(rng, bits, ecls)
            if rng.random() < 0.4: e <<= rng.randrange(1, 70)
            if e < 2: e = 2
            b = rand_limbs(rng, n + rng.choice([0, 0, 2]), rng.choice(["uniform", "ones", "runs", "lowbit", "sparse"]))
            yield "mpn_powlo_m %s %s %x" % (vec(b), vec(limbs_of(e)), n)

def gen_ops(rng, tier, ctx=None):
    T = thresholds(ctx)
    # the hand-checked ripple case of the Props file (n = 2 is below redc_n's domain; here its 10-limb analogue)
    for l in ripple_small(rng): yield l
    for l in gen_redc_n(rng, tier, T): yield l
    for l in gen_powm(rng, tier, T): yield l
    for l in gen_powlo(rng, tier, T): yield l

PINS = [("mpn/generic/redc_n.c", "mpn_redc_n"), ("mpn/generic/powm.c", "mpn_powm"), ("mpn/generic/powm.c", "redcify"),
        ("mpn/generic/binvert.c", "mpn_binvert_itch"), ("mpn/generic/powlo.c", "mpn_powlo"), ("gmp-impl.h", "mpn_mulmod_bnm1_next_size")]
