"""C02 part: the glue of mpn_tdiv_qr (mpn/generic/tdiv_qr.c) and the wrapper mpn_divrem (mpn/generic/divrem.c) — theorems
for all lengths and limb contents about the limb-level model lean/Mpir/Model/TdivQr.lean (MpirProofs/Props/C02_tdivqr.lean),
and directed inputs for every branch of the two files.

The value contract "q = floor(N/D) on nn-dn+1 limbs, r = N mod D on dn limbs" that the mpz-level theorems of c02_mpz assume
for mpn_tdiv_qr (DivZ.mpnTdivQr) is here a PROVED consequence of the contracts of the normalised inner divisions.

Directed recipes come from the case analysis of the proof (MpirProofs/Lemmas/TdivQr*.lean):
 * first branch (nn + adjust >= 2 dn): divisor top limb in {1, 2^63, B-1, random} x every shift class (cnt = 0, 1, 63, random),
   adjust = 0 / 1 with np[nn-1] = dp[dn-1] +- 1 and equal, nn + adjust in {2dn-1 (other branch), 2dn, 2dn+1}.
 * "less than twice" branch: with W = 2^(64-cnt) B^(in-1), D = d2 W + dl, N = n2 W + nl, the estimate q1 = floor(n2/d2)
   exceeds Q = floor(N/D) by 1 or 2 when the ignored part dl is large (all ones) and the remainder is tiny:
   N = q D + r with r in {0, 1, D-1} and q with a large top limb; d2 = 2^63 B^(qn-1) (smallest normalised top part) makes the
   estimate 2 too large.  The `n2p[qn-1] < h` decrement (with and without carry out of the add-back), the borrow of the
   partially used limb (cy1 < cy2), the borrow of mpn_sub and of mpn_sub_1 and the final correction are all counted by the
   python mirror tools/props/tdivqr_mirror.py (same control flow as the Lean model, checked against divmod on every
   generated input) and stored in the evidence as coverage.c02_tdivqr_model_branches.
 * sizes: dn, qn in 1..9 and around DC_DIV_QR_THRESHOLD (+-2), qn = 1, 2, 3, in = 0 (after --in), 1, 2, in < qn, in >= qn.

Branch counts of the mirror, quick tier, standalone (`python3 tools/props/c02_tdivqr.py quick`, 10905 ops, 2.4 MB, 1 s to generate):
dn1 960, dn2.norm 384, dn2.unnorm.cy0 203 / cy1 373, first.{norm,unnorm}.adj{0,1}.sb 705/668/325/1261, .dc 7/14/3/40,
lt2.qn0 212, qn1 1138, qn2 1423, qn3+ 2904, in0 885, in1 1419, in2 1318, in<qn 2402, in>=qn 3063, est.sb 2831, est.dc_n 73,
step2.dec.carry0 487, step2.dec.carry1 45, step2.nodec 4933, partial.rn=qn+1 27, partial.too_large1 167, sub.borrow 89,
sub_1.borrow 852, sub_1.rn>len 18 (mpn_sub_1 called with one limb more than rp has above rp+in), too_large 1108, exact 4357.
The branch token printed by both sides (Mpir.TdivQr.branchCode / branch_code in harness/ops_tdivqr.c) takes all 20 values.
"""
import collections, random, sys, os
sys.path.insert(0, os.path.dirname(os.path.dirname(os.path.abspath(__file__))))
sys.path.insert(0, os.path.dirname(os.path.abspath(__file__)))
from genlib import *
import tdivqr_mirror as mir

LEAN_MODULES = ["MpirProofs.Props.C02_tdivqr"]
THEOREMS = []          # filled at the bottom
PINS = [("mpn/generic/tdiv_qr.c", None), ("mpn/generic/divrem.c", None)]
TRUSTED = ["hand-written limb-level model of mpn_tdiv_qr and mpn_divrem in lean/Mpir/Model/TdivQr.lean (tied by correspondence on every run, "
           "ops tdiv_qr_model / divrem_model answered from the limb-level model, not from the value contract)",
           "mpn_mul inside mpn_tdiv_qr enters as the value product (C01)"]
ASSUMPTIONS = ["contract of the inner normalised divisions mpn_dc_div_qr, mpn_dc_div_qr_n, mpn_inv_div_qr, mpn_inv_div_qr_n (exact quotient and remainder, "
               "Mpir.TdivQr.divQrSpec) and of the assembly mpn_divrem_2 (Mpir.TdivQr.divrem_2; compared with the real function by the op divrem_2_contract); "
               "mpn_sb_div_qr and mpn_divrem_1 enter through their proved limb-level models (c02_sb, c02_word)",
               "DC_DIV_QR_THRESHOLD >= 6 for the statement that the dc callees are called inside their ASSERTed domain (50 in the pinned build)"]
RULE = ("mpn_tdiv_qr / mpn_divrem through the limb-level model: dn in 1..9 and DC_DIV_QR_THRESHOLD+-2, every nn with nn+adjust in {dn..2dn+1} and a few long ones, "
        "divisor top limb 1 / 2^63 / B-1 / random with shift classes 0, 1, 63, dividends built backwards q*d+r (r in {0,1,d-1}) with ignored divisor part all ones "
        "so that the truncated estimate is 1 and 2 too large; branch counts of the python mirror in coverage.c02_tdivqr_model_branches")

W64 = mir.W(64)
BR = collections.Counter()
CODES = collections.Counter()
_val = lambda l: mir.val(W64, l)

def _check(n, d):
    """run the mirror (counts branches) and compare with divmod: a failure here is a bug of the mirror, not of the library"""
    tr = mir.Trace()
    q, r = mir.tdiv_qr(W64, n, d, tr)
    Q, R = divmod(_val(n), _val(d))
    assert tr.ok and _val(q) == Q and _val(r) == R and len(q) == len(n) - len(d) + 1 and len(r) == len(d), (n, d, dict(tr.br))
    BR.update(tr.br); CODES["%x" % tr.code] += 1

def _tops(rng):
    """divisor top limbs: every shift class"""
    return [1, 1 << 63, M, (1 << 63) | rng.getrandbits(63), (1 << 62) | rng.getrandbits(62), 2 | rng.getrandbits(1),
            1 << rng.randrange(1, 63), rng.getrandbits(rng.randrange(2, 64)) | 1, (1 << 63) - 1, (1 << 63) + 1]

def _divisors(rng, dn, quick):
    tops = _tops(rng)
    if quick and dn > 12: tops = [tops[0], tops[1], tops[2], rng.choice(tops[3:])]
    for t in tops:
        lows = ["ones", "zero", "uniform"] if dn <= 12 else [rng.choice(["ones", "uniform"])]
        for cls in lows:
            yield rand_limbs(rng, dn - 1, cls) + [t]

def _dividends(rng, d, nn):
    """values for an nn-limb dividend"""
    dv = _val(d); dn = len(d); top = B ** nn
    out = []
    qmax = (top - 1) // dv
    qs = {0, 1, qmax, max(qmax - 1, 0), qmax >> 1}
    for _ in range(2): qs.add(rng.randrange(qmax + 1))
    qn = nn - dn + 1
    for sh in (0, 1, 63):                                            # quotients with a large top limb
        qs.add(min(qmax, ((B - 1) << (64 * (qn - 1))) >> sh))
    for q in sorted(qs):
        for r in (0, 1, dv - 1, rng.randrange(dv)):
            v = q * dv + r
            if v < top: out.append(v)
    out.append(top - 1); out.append(rng.getrandbits(64 * nn))
    # top limb of n equal to / one off the top limb of d (the `adjust` test)
    for e in (-1, 0, 1):
        t = d[-1] + e
        if 0 <= t < B: out.append((t << (64 * (nn - 1))) | rng.getrandbits(64 * (nn - 1)))
    return out

def _lt2_forced(rng, dn, qn, cnt):
    """(n, d) for the 'less than twice' branch with the estimate too large: ignored low part of d all ones, top part minimal"""
    in_ = dn - qn
    for toplow in ("min", "rand"):
        hi = (1 << 63) >> cnt
        if toplow == "rand" and cnt < 62: hi |= rng.getrandbits(62 - cnt)
        d = [M] * in_ + ([0] * (qn - 1) if toplow == "min" else rand_limbs(rng, qn - 1, "uniform")) + [hi]
        dv = _val(d)
        for nn in (dn + qn - 1, dn + qn):
            if nn < dn: continue
            top = B ** nn
            qmax = (top - 1) // dv
            for q in {qmax, qmax - 1, min(qmax, (B ** qn - 1) >> cnt), min(qmax, (M << (64 * (qn - 1))) >> max(cnt - 1, 0)), rng.randrange(qmax + 1) | 1}:
                if q < 0: continue
                for r in (0, 1, dv - 1):
                    v = q * dv + r
                    if v < top: yield limbs_of(v, nn), d

def gen_ops(rng, tier, ctx=None):
    quick = tier == "quick"
    BR.clear(); CODES.clear()
    T = 50
    try:
        import re
        base = getattr(ctx, "build", None) or os.environ.get("VERIF_REPO", "/repo")
        m = re.search(r"#define\s+DC_DIV_QR_THRESHOLD\s+(\d+)", open(os.path.join(base, "gmp-mparam.h")).read())
        if m: T = int(m.group(1))
    except OSError: pass
    def emit(n, d):
        _check(n, d)
        return "tdiv_qr_model %s %s" % (vec(n), vec(d))
    seen = set()
    def once(line):
        if line in seen: return False
        seen.add(line); return True
    # 0. fixed examples (the non-vacuity examples of MpirProofs/Props/C02_tdivqr.lean) and the rejected shape
    yield "tdiv_qr_model [1,2,3] []"
    yield "tdiv_qr_model [] []"
    # 1. dn = 1, dn = 2
    for dn in (1, 2):
        for d in _divisors(rng, dn, quick):
            for nn in ([dn, dn + 1, dn + 2, dn + 5] if quick else range(dn, dn + 9)):
                vs = _dividends(rng, d, nn)
                if quick: vs = rng.sample(vs, min(8, len(vs)))
                for v in vs:
                    ln = emit(limbs_of(v, nn), d)
                    if once(ln): yield ln
    # 2. default case, small sizes: every nn with nn + adjust in dn .. 2dn+1, plus long dividends
    for dn in ([3, 4, 5, 6, 7] if quick else range(3, 12)):
        for d in _divisors(rng, dn, quick):
            for nn in list(range(dn, 2 * dn + 2)) + [3 * dn + 1]:
                vs = _dividends(rng, d, nn)
                vs = rng.sample(vs, min(4 if quick else 12, len(vs)))
                for v in vs:
                    ln = emit(limbs_of(v, nn), d)
                    if once(ln): yield ln
    # 3. the 'less than twice' branch with the estimate forced too large, every (qn, in, cnt) class
    for dn in ([3, 4, 5, 6, 8] if quick else range(3, 14)):
        for qn in range(1, dn):
            if quick and qn > 4 and qn < dn - 2: continue
            for cnt in ([0, 1, 63] if quick else [0, 1, 2, 31, 62, 63]):
                for n, d in _lt2_forced(rng, dn, qn, cnt):
                    ln = emit(n, d)
                    if once(ln): yield ln
    # 4. sizes around DC_DIV_QR_THRESHOLD for dn (first branch) and for qn (second branch)
    for e in (-2, -1, 0, 1, 2):
        dn = T + e
        if dn < 3: continue
        for top in (1 << 63, 1, rng.getrandbits(63) | 1):
            d = rand_limbs(rng, dn - 1, rng.choice(["uniform", "ones"])) + [top]
            for nn in (2 * dn - 1, 2 * dn, 2 * dn + 1, 2 * dn + 7):          # first branch: callee sb / dc by dn
                vs = _dividends(rng, d, nn)
                for v in rng.sample(vs, 2 if quick else 6):
                    ln = emit(limbs_of(v, nn), d)
                    if once(ln): yield ln
        qn = T + e                                                          # second branch: callee sb / dc_n by qn
        for in_ in (1, 2, qn + 3):
            dn = qn + in_
            for cnt in (0, 1, 63):
                for n, d in list(_lt2_forced(rng, dn, qn, cnt))[:(3 if quick else 12)]:
                    ln = emit(n, d)
                    if once(ln): yield ln
    # 5. random shapes
    for _ in range(300 if quick else 4000):
        dn = rng.choice([3, 4, 5, 6, 9, 12, 20]); nn = dn + rng.choice([0, 1, 2, 3, dn - 1, dn, dn + 1, 2 * dn])
        d = rand_limbs(rng, dn)
        if d[-1] == 0: d[-1] = rng.choice([1, 1 << 63, M])
        n = rand_limbs(rng, nn)
        ln = emit(n, d)
        if once(ln): yield ln
    # 6. mpn_divrem (normalised divisor) and the contract of mpn_divrem_2
    for dn in ([1, 2, 3, 4, 6] if quick else [1, 2, 3, 4, 5, 6, 9, 20]):
        for top in (1 << 63, M, (1 << 63) | rng.getrandbits(63)):
            for cls in ("ones", "zero", "uniform"):
                d = rand_limbs(rng, dn - 1, cls) + [top]
                for nn in (dn, dn + 1, dn + 2, 2 * dn, 2 * dn + 1):
                    for qxn in (0, 1, 2, 5):
                        vs = _dividends(rng, d, nn)
                        for v in rng.sample(vs, 1 if quick else 4):
                            n = limbs_of(v, nn)
                            tr = mir.Trace()
                            q, r, qh = mir.divrem(W64, n, d, qxn, tr)
                            Q, R = divmod(_val(n) << (64 * qxn), _val(d))
                            assert tr.ok and _val(q) + (qh << (64 * len(q))) == Q and _val(r) == R
                            BR.update(tr.br)
                            yield "divrem_model %s %s %x" % (vec(n), vec(d), qxn)
                            if dn == 2 and nn >= 2: yield "divrem_2_contract %s %s %x" % (vec(n), vec(d), qxn)
    for _ in range(100 if quick else 1000):                                  # divrem_2 on its own: nn up to 12
        d = [rng.choice([0, M, rng.getrandbits(64)]), rng.choice([1 << 63, M, (1 << 63) | rng.getrandbits(63)])]
        nn = rng.randrange(2, 13)
        n = limbs_of(rng.choice(_dividends(rng, d, nn)), nn)
        yield "divrem_2_contract %s %s %x" % (vec(n), vec(d), rng.choice([0, 0, 1, 3]))

NEEDED = ["dn1", "dn2.norm", "dn2.unnorm.cy0", "dn2.unnorm.cy1", "lt2.qn0", "lt2.qn1", "lt2.qn2", "lt2.qn3+", "lt2.in0", "lt2.in1", "lt2.in2",
          "lt2.in<qn", "lt2.in>=qn", "lt2.step2.dec.carry0", "lt2.step2.dec.carry1", "lt2.step2.nodec", "lt2.partial.rn=qn+1",
          "lt2.partial.too_large0", "lt2.partial.too_large1", "lt2.sub.borrow", "lt2.sub_1.borrow", "lt2.sub_1.rn>len", "lt2.too_large", "lt2.exact",
          "lt2.est.sb", "lt2.est.dc_n", "divrem.dn1", "divrem.dn2", "divrem.qxn0", "divrem.qxn1"]

def extra(ctx, cov):
    cov["c02_tdivqr_model_branches"] = dict(sorted(BR.items()))
    cov["c02_tdivqr_branch_codes"] = dict(sorted(CODES.items()))
    missing = [k for k in NEEDED if not BR.get(k)] + [k for k in BR if k.startswith("first.") is False and k.startswith("FAIL")]
    cov["c02_tdivqr_branches_missing"] = missing
    return []

def nontrivial(line):
    op = line.split(" ", 1)[0]
    return line if op in ("tdiv_qr_model", "divrem_model", "divrem_2_contract") and len(line) > 30 else None

THEOREMS = ["Mpir.TdivQr." + t for t in """
tdiv_qr_spec tdiv_qr_val tdiv_qr_div0 tdiv_qr_contract lt2_estimate_bounds first_callee_domain lt2_callee_domain
divrem_contract divrem_val case1_spec case2_spec first_spec lt2_spec lt2Step2_inv lt2Tail_spec
""".split()]

if __name__ == "__main__":
    tier = sys.argv[1] if len(sys.argv) > 1 else "quick"
    import time
    t0 = time.time()
    lines = list(gen_ops(random.Random("C02-1"), tier))
    print("ops:", len(lines), "bytes:", sum(len(l) + 1 for l in lines), "gen time %.1fs" % (time.time() - t0))
    for k, v in sorted(BR.items()): print("  %-34s %d" % (k, v))
    print("branch codes:", dict(sorted(CODES.items())))
    print("missing:", [k for k in NEEDED if not BR.get(k)])
    if len(sys.argv) > 2: open(sys.argv[2], "w").write("\n".join(lines) + "\n")
