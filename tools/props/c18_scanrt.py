"""C18, scanf side — round trip print -> scan with %n, the field reader (part of C18, merged by check.py)."""
import itertools
from genlib import *

LEAN_MODULES = ["MpirProofs.Props.C18_scanrt"]
THEOREMS = ["Mpir.Scanf.print_scan_roundtrip_Z", "Mpir.Scanf.scan_field_Z_fixed", "Mpir.Scanf.scan_count_single_partial"]
TRUSTED = ["ops gmp_rt_Z/gmp_rtf_Z/gmp_rt_Q/gmp_rtf_Q (harness/ops_scanrt.c, lean/Mpir/Ops/Scanrt.lean): gmp_snprintf then gmp_sscanf / gmp_fscanf of the "
           "text with `%n`, compared with doprnt followed by doscan of the models"]
ASSUMPTIONS = ["round trip theorems: the scanner counts characters in an int and cuts a field at INT_MAX-1 characters (doscan.c:230), so the printed "
               "text is assumed to be at most INT_MAX-1 characters long; documented exceptions are hypotheses of print_scan_roundtrip_Z "
               "(no digit printed for 0 with precision 0; %Zx/%ZX take no 0x prefix; empty precision `.`)"]
RULE = ("round trip grid: 32 flag subsets x width {none,1,12,40,*,-*} x precision {none,.0,.1,.7,.*} x conv d i o x X x values (0, +-small, LONG_MIN/MAX, "
        "+-2^64, +-10^40, random multi-limb) read by the matching conversion and by %Zi, with %n, through gmp_sscanf and gmp_fscanf; fields of 510..1100 "
        "characters (digits, precision zeros, width blanks); scan widths cutting a printed field at every position; %*Z; Q with every flag subset")

FLAGSETS = ["".join(c) for r in range(6) for c in itertools.combinations("-+ #0", r)]
LMAX = 2 ** 63 - 1
ZVALS = [0, 1, -1, 7, -8, 9, 10, -10, 255, -256, LMAX, -LMAX - 1, 2 ** 64, -2 ** 64, 10 ** 40, -10 ** 40]
QVALS = [(0, 1), (1, 1), (-9, 1), (LMAX, 1), (1, 2), (-10, 3), (2, 4), (0, 5), (10 ** 40, 2 ** 64), (-255, 16), (8, 9), (-1, 10 ** 20)]
MATCH = {"d": "d", "i": "d", "o": "o", "x": "x", "X": "X"}

def line(q, pf, sf, stars, v, rng):
    op = ("gmp_rt" if rng.random() < 0.5 else "gmp_rtf") + ("_Q" if q else "_Z")
    st = "".join(hx(s) + " " for s in stars)
    vs = "%s %s" % (hx(v[0]), hx(v[1])) if q else hx(v)
    return "%s %s %s %s%s" % (op, sbytes(pf), sbytes(sf), st, vs)

def grid(rng, tier):
    nv = 1 if tier == "quick" else 4
    for fl in FLAGSETS:
        for (w, ws) in [("", None), ("1", None), ("12", None), ("40", None), ("*", rng.choice([3, 30])), ("*", -rng.choice([3, 30]))]:
            for (p, ps) in [("", None), (".0", None), (".1", None), (".7", None), (".*", rng.choice([0, 1, 9, -1]))]:
                stars = [x for x in (ws, ps) if x is not None]
                for c in "dioxX":
                    for v in rng.sample(ZVALS, nv) + [rand_int(rng, rng.choice([1, 2, 5]))]:
                        sc = MATCH[c] if rng.random() < 0.7 else "i"
                        yield line(False, "%" + fl + w + p + "Z" + c, "%Z" + sc + "%n", stars, v, rng)

def qgrid(rng, tier):
    for fl in FLAGSETS:
        for (w, ws) in [("", None), ("3", None), ("25", None), ("*", -rng.choice([6, 30]))]:
            stars = [x for x in (ws,) if x is not None]
            for c in "dioxX":
                for v in rng.sample(QVALS, 2) + [(rand_int(rng, 3), abs(rand_int(rng, 2, False)) + 2)]:
                    for sc in (MATCH[c], "i"):
                        yield line(True, "%" + fl + w + "Q" + c, "%Q" + sc + "%n", stars, v, rng)

def long_fields(rng, tier):
    """fields around the growth steps 512, 1024 (, 1536, 2048) of doscan.c's store: digits, precision zeros, blanks"""
    Ls = [510, 511, 512, 513, 1023, 1024, 1025] + ([1535, 1536, 1537, 2047, 2048, 2049, 4000] if tier != "quick" else [])
    for L in Ls:
        for c, b in (("d", 10), ("x", 16), ("o", 8)):
            v = b ** (L - 1) + rng.randrange(b ** (L - 1))
            for sgn in (1, -1):
                yield line(False, "%Z" + c, "%Z" + c + "%n", [], sgn * v, rng)
                yield line(False, "%#Z" + c, "%Zi%n", [], sgn * v, rng)
            yield line(False, "%." + str(L) + "Z" + c, "%Z" + c + "%n", [], rng.choice(ZVALS), rng)
            yield line(False, "%0" + str(L) + "Z" + c, "%Z" + c + "%n", [], rng.choice(ZVALS), rng)
            yield line(False, "%" + str(L) + "Z" + c, "%Z" + c + "%n", [], rng.choice(ZVALS), rng)
            yield line(False, "%-" + str(L) + "Z" + c, "%Z" + c + "%n", [], rng.choice(ZVALS), rng)
            yield line(True, "%Q" + c, "%Q" + c + "%n", [], (v, b ** (L // 2) + 1), rng)
            yield line(True, "%#Q" + c, "%Qi%n", [], (-v, b ** L + 1), rng)

def width_cuts(rng, tier):
    """a scan width cutting the printed field at every position (sign, prefix, zeros, digits, slash, beyond the end)"""
    cases = [("%+Zd", -1234567), ("%#Zx", 0xabcdef), ("%#ZX", -0xabc), ("%#Zo", 0o777), ("%+.9Zd", 42), ("%8Zd", -55), ("%-8Zd|", 77), ("%Zd", 10 ** 30)]
    for pf, v in cases:
        for wd in range(1, 14 if tier == "quick" else 34):
            for sc in "dixo":
                yield line(False, pf, "%" + str(wd) + "Z" + sc + "%n", [], v, rng)
            yield line(False, pf, "%*" + str(wd) + "Zd%n", [], v, rng)
    for pf, v in [("%Qd", (-1234, 567)), ("%#Qx", (0xabc, 0xdef)), ("%+#Qo", (8, 9))]:
        for wd in range(1, 14):
            for sc in "dix":
                yield line(True, pf, "%" + str(wd) + "Q" + sc + "%n", [], v, rng)
    for fl in FLAGSETS:
        for c in "dxo":
            yield line(False, "%" + fl + "9.4Z" + c, "%*Z" + c + "%n", [], rng.choice(ZVALS), rng)

def gen_ops(rng, tier, ctx=None):
    yield from grid(rng, tier)
    yield from qgrid(rng, tier)
    yield from long_fields(rng, tier)
    yield from width_cuts(rng, tier)

PINS = [('scanf/doscan.c', 'gmpscan'), ('scanf/doscan.c', '__gmp_doscan'), ('scanf/sscanffuns.c', None), ('scanf/fscanffuns.c', None)]
