"""C06 part: radix conversion — tables, models, ops and generators.
Merged into tools/props/c06.py by check.py (lists concatenated, generators chained)."""
import os, sys
sys.path.insert(0, os.path.dirname(os.path.dirname(os.path.abspath(__file__))))
from genlib import *
import gen_bases as _gb

GEN = [_gb.gen_bases]
LEAN_MODULES = ["MpirProofs.Props.C06"]
THEOREMS = [
    "Mpir.Radix.bases_table_ok",
    "Mpir.Radix.digit_tab_ok",
    "Mpir.Radix.sb_get_str_digits",
    "Mpir.Radix.get_str_pow2_digits",
    "Mpir.Radix.bc_set_str_val",
    "Mpir.Radix.set_str_pow2_val",
    "Mpir.Radix.mpz_set_str_eq_parse",
    "Mpir.Radix.mpz_get_str_spec",
    "Mpir.Radix.roundtrip",
    "Mpir.Radix.sizeinbase_pow2_exact",
    "Mpir.Radix.sizeinbase_table_ok",
    "Mpir.Radix.sizeinbase_bound_partial",
    "Mpir.Radix.get_str_fits_partial",
]
TRUSTED = ["tools/gen_bases.py (regex translator of mp_bases.c / mp_dv_tab.c / MP_BASES_*_10; decimal->binary64 by Python float())",
           "hand-written models lean/Mpir/Model/Radix.lean tied by correspondence; mpn_dc_get_str / mpn_dc_set_str taken at specification level",
           "mpn_divrem_1 / preinv_divrem_1 and umul_ppmm by their arithmetic meaning; binary64 multiply as exact product + round-to-nearest-even"]
ASSUMPTIONS = ["C locale isspace; x86-64 SSE2 binary64 arithmetic (no excess precision) for MPN_SIZEINBASE",
               "sizeinbase for non-powers of two (exact or one too large, hence the get_str buffer bound) is proved for operands below 2^(2^24) only (sizeinbase_bound_partial); beyond that it rests on the correspondence at the critical operands b^n",
               "mpn_dc_get_str / mpn_dc_set_str (>= GET_STR_PRECOMPUTE_THRESHOLD limbs / SET_STR_PRECOMPUTE_THRESHOLD digits) are compared with the specification, not modelled",
               "mpz_set_str with base 1 (undocumented) is outside mpz_set_str_eq_parse"]
RULE = ("all bases 2..62 and -2..-36 on every run; values b^k-1,b^k,b^k+1 for k around every chars_per_limb multiple, big_base^j±1, "
        "operand sizes ±2 limbs / digits around GET_STR_DC, GET_STR_PRECOMPUTE, SET_STR_DC, SET_STR_PRECOMPUTE thresholds (read from the build's "
        "gmp-mparam.h), random and long 0/1-run operands; strings: maximal digits, leading zeros, all C white-space characters in "
        "leading/embedded/trailing position, mixed case, one invalid byte at every position of short strings, base-0 prefixes, empty/sign-only, "
        "bases 63+ and negative; streams with trailing junk and EOF at every stage; distinct = distinct op lines")

WS = [0x20, 0x09, 0x0a, 0x0b, 0x0c, 0x0d]

def to_digits(x, b):
    if x == 0: return []
    out = []
    while x: out.append(x % b); x //= b
    return out[::-1]

def digit_char(base, d):
    """documented alphabets (mpir.texi): 2..36 lower, -2..-36 upper, 37..62 upper then lower"""
    if d < 10: return 48 + d
    if base < 0: return 65 + d - 10
    if base <= 36: return 97 + d - 10
    return 65 + d - 10 if d < 36 else 97 + d - 36

def text(base, x, rng=None, mixed=False):
    b = abs(base)
    ds = to_digits(abs(x), b) or [0]
    cs = [digit_char(base, d) for d in ds]
    if mixed and b <= 36 and rng is not None:
        cs = [(c ^ 0x20) if (c >= 65 and rng.random() < 0.5) else c for c in cs]
    return bytes(([45] if x < 0 else []) + cs)

def cpl_of(b):
    k, p = 0, 1
    while p * b < (1 << 64): p *= b; k += 1
    return k, p

def is_pow2(b): return b & (b - 1) == 0

def value_ops(base, x, rng, light=False):
    """all output-side ops and round trips for one (base, value)"""
    b = abs(base)
    yield "mpz_get_str %s %s" % (hx(base), hx(x))
    yield "mpz_sizeinbase %s %s" % (hx(x), hx(b))
    if light: return
    yield "mpz_roundtrip %s %s" % (hx(base), hx(x))
    yield "mpz_out_str %s %s" % (hx(base), hx(x))
    yield "mpz_io_roundtrip %s %s" % (hx(base), hx(x))
    if x != 0:
        yield "mpn_get_str %s %s" % (hx(b), vec(limbs_of(abs(x))))
        ds = to_digits(abs(x), b)
        yield "mpn_set_str_raw %s %s" % (hx(b), sbytes(bytes(ds)))
    yield "mpz_set_str %s %s" % (hx(b), sbytes(text(base, x, rng, mixed=True)))

def special_values(b, rng, tier):
    cpl, bb = cpl_of(b)
    if is_pow2(b): bb = b ** cpl
    ks = set()
    for m in range(1, 4 if tier == "quick" else 9):
        for d in (-1, 0, 1): ks.add(m * cpl + d)
    for k in sorted(ks):
        for d in (-1, 0, 1): yield b ** k + d
    for j in range(1, 5 if tier == "quick" else 12):
        yield bb ** j - 1; yield bb ** j + 1
    for k in (1, 2):
        for d in (-1, 0, 1): yield max(0, b ** k + d)
    yield 0; yield 1; yield (1 << 64) - 1; yield 1 << 64; yield (1 << 64) + 1; yield (1 << 128) - 1

def rand_value(rng, limbs):
    v = 0
    for i, l in enumerate(rand_limbs(rng, limbs, rng.choice(["uniform", "runs", "runs", "ones", "onebit", "sparse", "top"]))): v |= l << (64 * i)
    if v >> (64 * (limbs - 1)) == 0: v |= rng.randrange(1, 1 << 64) << (64 * (limbs - 1))
    return v

def invalid_for(b, rng):
    """a few invalid characters for base b, the most informative first: the character whose value is exactly b"""
    cs = []
    if b <= 36:
        if b < 10: cs.append(48 + b)
        elif b < 36: cs += [97 + b - 10, 65 + b - 10]
    else:
        if b < 62: cs.append(digit_char(62, b))
    cs += rng.sample([33, 43, 45, 46, 47, 58, 64, 91, 95, 96, 123, 127, 128, 255], 3)
    return cs

def string_ops(b, rng, tier):
    """input-side ops for base b (2..62)"""
    B_ = hx(b)
    def rs(n, lead=True):
        ds = [rng.randrange(b) for _ in range(n)]
        if lead and ds and ds[0] == 0: ds[0] = b - 1
        return ds
    def enc(ds, upper=False):
        base = -b if (upper and b <= 36) else b
        return bytes(digit_char(base, d) for d in ds)
    cpl, _ = cpl_of(b)
    # maximal digits, lengths around chars_per_limb multiples
    for n in sorted(set([1, 2, cpl - 1, cpl, cpl + 1, 2 * cpl - 1, 2 * cpl, 2 * cpl + 1, 3 * cpl])):
        if n < 1: continue
        s = enc([b - 1] * n)
        yield "mpz_set_str %s %s" % (B_, sbytes(s))
        yield "mpn_set_str_raw %s %s" % (B_, sbytes(bytes([b - 1] * n)))
        yield "mpn_set_str_raw %s %s" % (B_, sbytes(bytes([0] * (n - 1) + [1])))      # leading zero digits
        yield "mpn_set_str %s %s" % (B_, sbytes(bytes([0] * rng.randrange(1, 4) + rs(n))))
        yield "mpz_inp_str %s %s" % (B_, sbytes(s + bytes([rng.choice([32, 10, 47, 33, 0x80])])))
    # leading zeros, white space, mixed case
    for _ in range(3 if tier == "quick" else 10):
        ds = rs(rng.randrange(1, 3 * cpl))
        s = enc(ds, upper=rng.random() < 0.5)
        if b <= 36: s = bytes((c ^ 0x20) if (c >= 65 and rng.random() < 0.5) else c for c in s)
        neg = b"-" if rng.random() < 0.5 else b""
        lead = bytes(rng.choice(WS) for _ in range(rng.randrange(0, 3)))
        zeros = b"0" * rng.randrange(0, 4)
        body = bytearray()
        for c in zeros + s:
            body.append(c)
            if rng.random() < 0.2: body += bytes(rng.choice(WS) for _ in range(rng.randrange(1, 3)))
        trail = bytes(rng.choice(WS) for _ in range(rng.randrange(0, 3)))
        full = lead + neg + bytes(body) + trail
        yield "mpz_set_str %s %s" % (B_, sbytes(full))
        yield "mpz_init_set_str %s %s" % (B_, sbytes(full))
        yield "mpz_inp_str %s %s" % (B_, sbytes(full))
        yield "mpz_inp_str %s %s" % (B_, sbytes(lead + neg + zeros + s + trail + s))
        yield "mpq_set_str %s %s" % (B_, sbytes(full + b"/" + lead + zeros + enc(rs(rng.randrange(1, cpl + 2))) + trail))
        yield "mpq_inp_str %s %s" % (B_, sbytes(lead + neg + s + b"/" + enc(rs(rng.randrange(1, cpl + 2))) + trail))
    # one invalid character at every position of a short string; also white space after the sign
    for L in (1, 3, 4):
        ds = rs(L)
        s = enc(ds)
        for pos in range(L + 1):
            for bad in invalid_for(b, rng)[: (4 if tier == "quick" else 6)]:
                t = s[:pos] + bytes([bad]) + s[pos:]          # inserted
                yield "mpz_set_str %s %s" % (B_, sbytes(t))
                if pos < L:
                    t2 = s[:pos] + bytes([bad]) + s[pos + 1:]  # replaced
                    yield "mpz_set_str %s %s" % (B_, sbytes(t2))
                    yield "mpz_inp_str %s %s" % (B_, sbytes(t2))
        yield "mpz_set_str %s %s" % (B_, sbytes(s[:1] + b"\0" + s[1:] + b"!"))     # NUL ends the C string
    for t in (b"", b"-", b" ", b"  -", b"--1", b"- 1", b"-\t1", b"+1", b" - 1", b"0", b"-0", b"00", b" 0 0 ", b"-0 0", b"1-", b"1 -",
              b"0x", b"0x1", b"0b1", b"0X1", b"1/1", b"/", b"-/1"):
        yield "mpz_set_str %s %s" % (B_, sbytes(t))
        yield "mpz_init_set_str %s %s" % (B_, sbytes(t))
        yield "mpz_inp_str %s %s" % (B_, sbytes(t))
        yield "mpq_set_str %s %s" % (B_, sbytes(t))
        yield "mpq_inp_str %s %s" % (B_, sbytes(t))

BASE0 = [b"0x1f", b"0X1F", b"0x1F", b"0b101", b"0B101", b"017", b"0", b"0x", b"0X", b"0b", b"0B", b"00x1", b"0 x1", b"0x 1", b"0x 1 f", b"0xg", b"08", b"018",
         b"0b2", b"0b12", b"-0x10", b" -0x10", b"- 0x10", b"0x-1", b"+5", b"123", b"-123", b"1a", b"a", b"0a", b"0xa", b"0XA", b"0bb", b"0xx1", b"0x0x1",
         b"00", b"000", b"0 0", b"09", b"0x00ff", b"0b0001", b"0x\t1", b"\t0x1", b"0x1 ", b"0x1g", b"0b1 2", b"0777", b"0778", b"-0", b"-0x", b"-0b", b"- 0",
         b"0x/1", b"0x1/0x2", b"010/010", b"0b11/0x11", b"1/0", b"0/1", b"1 / 2", b"1/ 2", b"1 /2", b"1/-2", b"1/+2", b"1//2", b"/2", b"1/", b"-1/2", b"1/2/3",
         b"0x", b"0x\0", b"\x00", b"0\x001", b"9999999999999999999999999", b"0x ffffffffffffffffffffffff", b"0b 1111 0000 1111",
         b"X", b"x1", b"0y1", b"0Xg", b"\xff", b"0\xff", b"0x\xff", b"1\x80"]

def thresholds(ctx):
    return _gb.read_thresholds(ctx)

def gen_ops(rng, tier, ctx=None):
    thr = thresholds(ctx)
    quick = tier == "quick"
    bases_out = list(range(2, 63)) + [-b for b in range(2, 37)]
    # ---- 1. output side: every base, special values
    for base in bases_out:
        b = abs(base)
        vals = list(special_values(b, rng, tier))
        for i, x in enumerate(vals):
            light = base < 0 and i % 3 != 0          # negative bases share everything but the alphabet
            sx = x if (i % 4) else -x
            yield from value_ops(base, sx, rng, light=light)
        # random and 0/1-run operands
        for _ in range(4 if quick else 16):
            x = rand_value(rng, rng.randrange(1, 9))
            if rng.random() < 0.4: x = -x
            yield from value_ops(base, x, rng, light=(base < 0 and quick))
    # ---- 2. sizes ±2 limbs around the get_str thresholds (and large operands in the thorough tier)
    gsz = set()
    for t in (thr["GET_STR_DC_THRESHOLD"], thr["GET_STR_PRECOMPUTE_THRESHOLD"], 2 * thr["GET_STR_PRECOMPUTE_THRESHOLD"]):
        for d in (-2, -1, 0, 1, 2): gsz.add(max(1, t + d))
    gsz = sorted(gsz)
    for b in range(2, 63):
        for n in gsz:
            x = rand_value(rng, n)
            yield "mpn_get_str %s %s" % (hx(b), vec(limbs_of(x)))
            base = -b if (b <= 36 and rng.random() < 0.3) else b
            yield "mpz_get_str %s %s" % (hx(base), hx(-x if rng.random() < 0.3 else x))
            if n in (thr["GET_STR_PRECOMPUTE_THRESHOLD"], thr["GET_STR_DC_THRESHOLD"]):
                yield "mpz_roundtrip %s %s" % (hx(base), hx(x))
                yield "mpz_sizeinbase %s %s" % (hx(x), hx(b))
                # exact powers at these sizes: b^k just below / above B^n
                k = len(to_digits(1 << (64 * n - 1), b))
                for d in (-1, 0, 1):
                    yield "mpz_get_str %s %s" % (hx(b), hx(b ** k + d))
                    yield "mpz_sizeinbase %s %s" % (hx(b ** k + d), hx(b))
    big = [40, 100] if quick else [40, 100, 300, 700, 1500, 3000]
    for n in big:
        bl = rng.sample(range(2, 63), 6 if quick else 14) + [10, 3, 62, 16]
        if not quick and n <= 300: bl = list(range(2, 63))
        for b in bl:
            x = rand_value(rng, n)
            yield "mpn_get_str %s %s" % (hx(b), vec(limbs_of(x)))
            yield "mpz_roundtrip %s %s" % (hx(b), hx(-x))
            yield "mpz_sizeinbase %s %s" % (hx(x), hx(b))
            k = len(to_digits(1 << (64 * n - 1), b))
            yield "mpz_sizeinbase %s %s" % (hx(b ** k), hx(b))
            yield "mpz_sizeinbase %s %s" % (hx(b ** k - 1), hx(b))
            yield "mpz_get_str %s %s" % (hx(b), hx(b ** k - 1))
    # ---- 3. digit counts ±2 around the set_str thresholds
    ssz = set()
    for t in (thr["SET_STR_DC_THRESHOLD"], thr["SET_STR_PRECOMPUTE_THRESHOLD"], 2 * thr["SET_STR_PRECOMPUTE_THRESHOLD"]):
        for d in (-2, -1, 0, 1, 2): ssz.add(max(1, t + d))
    if not quick: ssz |= set([5000, 20000, 3000 * 19])
    for b in range(2, 63):
        ss = sorted(ssz) if (not quick or b in (3, 7, 10, 36, 37, 62, 16, 8)) else rng.sample(sorted(ssz), 5)
        for n in ss:
            if n > 10000 and b not in (3, 10, 62, 36, 7, 16): continue
            cls = rng.choice(["rand", "max", "rand", "lz"])
            ds = [rng.randrange(b) for _ in range(n)] if cls != "max" else [b - 1] * n
            if cls == "lz": ds[: rng.randrange(1, 40)] = [0] * min(n - 1, 3)
            elif ds[0] == 0: ds[0] = 1
            op = "mpn_set_str_raw" if (n < thr["SET_STR_PRECOMPUTE_THRESHOLD"] or ds[0] != 0) and cls != "lz" else "mpn_set_str"
            yield "%s %s %s" % (op, hx(b), sbytes(bytes(ds)))
            if ds[0] == 0: ds[0] = 1
            s = bytes(digit_char(b, d) for d in ds)
            if rng.random() < 0.5: s = s[: n // 2] + b" " + s[n // 2:]
            yield "mpz_set_str %s %s" % (hx(b), sbytes((b"-" if rng.random() < 0.5 else b"") + s))
            if n == thr["SET_STR_PRECOMPUTE_THRESHOLD"]:
                yield "mpz_inp_str %s %s" % (hx(b), sbytes(s))
    # ---- 4. input side: strings for every base, base 0, illegal bases
    for b in range(2, 63):
        yield from string_ops(b, rng, tier)
    for t in BASE0:
        yield "mpz_set_str 0 %s" % sbytes(t)
        yield "mpz_init_set_str 0 %s" % sbytes(t)
        yield "mpz_inp_str 0 %s" % sbytes(t)
        yield "mpz_inp_str 0 %s" % sbytes(b" \n" + t + b" 7")
        yield "mpq_set_str 0 %s" % sbytes(t)
        yield "mpq_inp_str 0 %s" % sbytes(t)
        for b in (2, 8, 10, 16, 36, 37, 62):
            yield "mpz_set_str %s %s" % (hx(b), sbytes(t))
            yield "mpq_set_str %s %s" % (hx(b), sbytes(t))
    for base in (63, 64, 100, 256, 257, 1000, -2, -10, -36, -1):
        for t in (b"0", b"1", b"10", b"-1", b" 1", b"z", b"", b"0x1"):
            yield "mpz_set_str %s %s" % (hx(base), sbytes(t))
            yield "mpz_init_set_str %s %s" % (hx(base), sbytes(t))
            yield "mpq_set_str %s %s" % (hx(base), sbytes(t + b"/1"))
            if base > 0: yield "mpz_inp_str %s %s" % (hx(base), sbytes(t))
    for base in (63, 64, 100, 255, -37, -40, -62, -63):
        yield "mpz_get_str %s %s" % (hx(base), hx(rng.randrange(1, 1 << 70)))
        if base > 0: yield "mpz_out_str %s %s" % (hx(base), hx(rng.randrange(1, 1 << 70)))
    for base in (0, 1, -1):                    # mpz_get_str: these mean base 10 (mpz/get_str.c)
        for x in (0, 5, -1234567890123456789012345, 10 ** 19, 10 ** 38 - 1):
            yield "mpz_get_str %s %s" % (hx(base), hx(x))
            if base == 0: yield "mpz_out_str 0 %s" % hx(x)
    # every byte as a one-character string / as a trailing character, in the four alphabet regimes
    for b in (0, 10, 16, 36, 37, 62):
        for c in range(1, 256):
            yield "mpz_set_str %s %s" % (hx(b), sbytes(bytes([c])))
            yield "mpz_set_str %s %s" % (hx(b), sbytes(bytes([49, c])))
            if c % 3 == 0: yield "mpz_inp_str %s %s" % (hx(b), sbytes(bytes([49, c, 49])))
    # ---- 4b. sizeinbase at the bit lengths where totbits*log_b(2) is closest to an integer
    yield from sizeinbase_critical(rng, tier)
    # ---- 5. rationals
    for base in list(range(2, 37)) + [-b for b in range(2, 37)]:
        for _ in range(3 if quick else 10):
            n = rand_int(rng, 4); d = abs(rand_int(rng, 3, signed=False)) or 1
            if rng.random() < 0.25: d = 1
            yield "mpq_get_str %s %s %s" % (hx(base), hx(n), hx(d))
            yield "mpq_out_str %s %s %s" % (hx(base), hx(n), hx(d))
            yield "mpq_roundtrip %s %s %s" % (hx(base), hx(n), hx(d))
        yield "mpq_get_str %s 0 1" % hx(base)
        yield "mpq_get_str %s -1 1" % hx(base)
        yield "mpq_out_str %s 0 1" % hx(base)

def log_convergents(b, maxq):
    """convergents n/t of log(2)/log(b): bit lengths t at which t*log_b(2) is close to the integer n, i.e. the
    operands b^n on which a slightly wrong chars_per_bit_exactly shows first"""
    from decimal import Decimal, getcontext
    getcontext().prec = 80
    y = Decimal(2).ln() / Decimal(b).ln()
    h0, h1, k0, k1 = 0, 1, 1, 0
    out = []
    for _ in range(60):
        a = int(y); h0, h1 = h1, a * h1 + h0; k0, k1 = k1, a * k1 + k0
        if k1 > maxq: break
        out.append((h1, k1))
        fr = y - a
        if fr == 0: break
        y = 1 / fr
    return out

def sizeinbase_critical(rng, tier):
    """b^n, b^n - 1 for n the numerators of the convergents of log_b 2 (compact power ops: the operand is built in
    the harness), all non-power-of-two bases; quick: up to 2^21 bits, thorough: up to 2^25 bits plus the
    historical failures"""
    maxq = (1 << 21) if tier == "quick" else (1 << 25)
    for b in range(3, 63):
        if is_pow2(b): continue
        for n, t in log_convergents(b, maxq):
            if t < 64: continue
            for d in (0, -1, 1):
                yield "mpz_sizeinbase_pow %s %s %s" % (hx(b), hx(n), hx(d))
            if t <= (1 << 17) or (tier != "quick" and t <= (1 << 20)):
                yield "mpz_get_str_pow_len %s %s 0" % (hx(b), hx(n))
                yield "mpz_get_str_pow_len %s %s -1" % (hx(b), hx(n))
    if tier != "quick":
        yield "mpz_sizeinbase_pow 13 1598bf0 0"       # 19^22645744: was one too small before the table repair

def nontrivial(line):
    op = line.split(" ", 1)[0]
    if op in ("mpz_get_str", "mpz_set_str", "mpz_init_set_str", "mpz_sizeinbase", "mpn_get_str", "mpn_set_str", "mpn_set_str_raw", "mpz_out_str",
              "mpz_inp_str", "mpq_set_str", "mpq_get_str", "mpq_out_str", "mpq_inp_str", "mpz_roundtrip", "mpz_io_roundtrip", "mpq_roundtrip",
              "mpz_sizeinbase_pow", "mpz_get_str_pow_len"):
        return line
    return None
