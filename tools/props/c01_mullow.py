"""C01 (part: mpn_mullow_n) — the low half product used by redc_n, powlo and the Newton inversions: value-level model of the size dispatch
and of the divide-and-conquer step (lean/Mpir/Model/MulLow.lean), theorem: the low n limbs of the product for every n and every
threshold triple with max(MULLOW_BASECASE_THRESHOLD, MULLOW_DC_THRESHOLD) >= 2."""
import os, sys
sys.path.insert(0, os.path.dirname(os.path.dirname(os.path.abspath(__file__))))
from genlib import *

LEAN_MODULES = ["MpirProofs.Props.C01_mullow"]
THEOREMS = ["Mpir.MulLow.splitAt_ok", "Mpir.MulLow.mullow_n_val"]
PINS = [("mpn/generic/mullow_n.c", "mpn_mullow_n")]
TRUSTED = ["hand-written value-level model of mpn_mullow_n in lean/Mpir/Model/MulLow.lean (run against the library on every check with the thresholds of the tree)"]
ASSUMPTIONS = ["mpn_mullow_n_basecase (assembly) enters by its specification (low n limbs of the product), mpn_mul_basecase / mpn_mul_n by theirs",
               "mpn_mulhigh_n (error-bounded short product, mulhigh_n.c) and mpn_mulmid / mpn_mulmid_n / toom42_mulmid are NOT modelled: run against their "
               "specifications only (ops mpn_mulhigh_n, mpn_mulmid_n, mpn_mulmid of part c01_algo)"]
RULE = ("every n = 1..3*MULLOW_DC_THRESHOLD (all shapes of the first and second recursion level: m = n*87/128 against n - n/2), sizes around 2^k and around "
        "MULLOW_MUL_THRESHOLD (thorough), operands all ones, uniform, runs, single high / low limb, and operands whose low product carries into the middle window")

def gen_ops(rng, tier, ctx=None):
    thorough = tier != "quick"
    dc = 14; mt = 2393
    ns = sorted(set(list(range(1, 3 * dc + 3)) + [63, 64, 65, 100, 127, 128, 129, 200, 256, 300] + ([mt - 1, mt, mt + 1, mt + 2, 1000, 1500] if thorough else [500])))
    for n in ns:
        for cls in (["ones", "uniform", "runs"] if n <= 64 else ["ones", "uniform"]):
            yield "mlx_mullow_n %s %s" % (vec(rand_limbs(rng, n, cls)), vec(rand_limbs(rng, n, cls)))
        yield "mlx_mullow_n %s %s" % (vec([M] * n), vec([M] + [0] * (n - 1)))
        yield "mlx_mullow_n %s %s" % (vec([0] * (n - 1) + [M]), vec(rand_limbs(rng, n, "uniform")))
        if n >= 2: yield "mlx_mullow_n %s %s" % (vec([M] * (n // 2) + [0] * (n - n // 2)), vec([0] * (n // 2) + [M] * (n - n // 2)))

def nontrivial(line):
    op = line.split(" ", 1)[0]
    if not op.startswith("mlx_"): return None
    return line
