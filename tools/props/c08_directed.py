"""C08 part (integrator): powers whose count of trailing zero bits does not fit 32 bits (e * v2(base) >= 2^32; the exact result has
more than 2^32 bits, i.e. 512 MB) — compared through their shape (sign, bit length, trailing zeros, ends of the odd part), and
smaller even-base powers in full."""
from genlib import *
def gen_ops(rng, tier, ctx=None):
    for b, e in [(2, 100), (-6, 33), (1 << 63, 40), (12, 1000), (-(1 << 32), 1025), ((1 << 64) * 6, 77), (10, 5000)]:
        yield "mpz_pow_shape %s %x" % (hx(b), e)
    # e * v2(b) just below and above 2^32
    yield "mpz_pow_shape %s %x" % (hx(1 << 63), 68174084)            # 63 * e = 2^32 - 4 … below
    yield "mpz_pow_shape %s %x" % (hx(1 << 63), 68174085)            # 63 * e >= 2^32
    if tier != "quick":
        yield "mpz_pow_shape %s %x" % (hx(-(1 << 32)), (1 << 27) + 1)
        yield "mpz_pow_shape %s %x" % (hx(3 << 40), 107374183)       # odd part 3^e with 40 e > 2^32
    # odd moduli in the REDC-n range whose upper half equals the lower half plus one (the modulus is then -1 modulo B^(n/2) + 1:
    # the special-value flags of the wrap-around product x*m mod B^n - 1 inside mpn_redc_n)
    for n in ([100, 128, 256] if tier == "quick" else [100, 101, 128, 150, 200, 255, 256]):
        h = 32 * n
        L = rng.getrandbits(h - 2) | 1
        m = (L + 1) << h | L
        for bexp in ((rng.getrandbits(64 * n - 5), 2), (rng.getrandbits(64 * n - 5), 3), (3, 0x10001), (m - 2, 5)):
            yield "mpz_powm 0 %s %s %s" % (hx(bexp[0]), hx(bexp[1]), hx(m))
