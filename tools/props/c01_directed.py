"""C01 part (integrator): operands that share limb storage without being the same object, and the carry ripple of the
chunked long-by-short schoolbook loop of mpn_mul (un > 1000, vn < MUL_KARATSUBA_THRESHOLD)."""
from genlib import *
B = 1 << 64
def gen_ops(rng, tier, ctx=None):
    # a times a view of its own low k limbs (mpz_roinit_n): same pointer, different sizes, every regime
    for an, k in [(12, 7), (40, 25), (41, 1), (60, 59), (130, 64), (300, 120), (700, 350), (1000, 999), (1500, 20), (3000, 2000), (5000, 3000), (9000, 100)][: (9 if tier == "quick" else 12)]:
        for sgn in (1, -1):
            a = 0
            for i, x in enumerate(rand_limbs(rng, an, rng.choice(["uniform", "runs", "ones"]))): a |= x << (64 * i)
            a |= 1 << (64 * an - 1)
            if (a >> (64 * (k - 1))) & (B - 1) == 0: a |= 1 << (64 * (k - 1))
            yield "mpz_mul_view 0 %s %x" % (hx(sgn * a), k)      # fresh destination only: writing a while a view of its storage is an operand is outside the variable-level alias contract
    # chunk loop: the saved top vn limbs of chunk i are added back into chunk i+1; make the carry out of the low vn limbs
    # meet an all-ones limb vn of the new chunk product
    for un in (1001, 1100, 1499, 1500, 1501, 2100):
        for vn in (2, 8, 16):
            for hole in (501, 500 + vn, 999, 1001 % un):
                u = B ** un - 1 - B ** min(hole, un - 1)
                for v in (B ** vn - 2, B ** vn - 1, B ** vn - B + 1, (B ** vn - 1) ^ (1 << rng.randrange(64 * vn))):
                    yield "mpn_mul %s %s" % (vec(limbs_of(u, un)), vec(limbs_of(v, vn)))
            if tier == "thorough":
                for _ in range(40):
                    u = rrandomb(rng, 64 * un) | 1 << (64 * un - 1); v = rrandomb(rng, 64 * vn) | 1 << (64 * vn - 1)
                    yield "mpn_mul %s %s" % (vec(limbs_of(u, un)), vec(limbs_of(v, vn)))
