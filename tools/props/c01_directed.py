"""C01 part (integrator): operands that share limb storage without being the same object, and the carry ripple of the
chunked long-by-short schoolbook loop of mpn_mul (un > 1000, vn < MUL_KARATSUBA_THRESHOLD)."""
from genlib import *
from props import c01_algo as algo
B = 1 << 64
def gen_ops(rng, tier, ctx=None):
    # a times a view of its own low k limbs (mpz_roinit_n): same pointer, different sizes, every regime
    for an, k in [(12, 7), (40, 25), (41, 1), (60, 59), (130, 64), (300, 120), (700, 350), (1000, 999), (1500, 20), (3000, 2000), (5000, 3000), (9000, 100)][: (9 if tier == "quick" else 12)]:
        for sgn in (1, -1):
            a = 0
            for i, x in enumerate(rand_limbs(rng, an, rng.choice(["uniform", "runs", "ones"]))): a |= x << (64 * i)
            a |= 1 << (64 * an - 1)
            if (a >> (64 * (k - 1))) & (B - 1) == 0: a |= 1 << (64 * (k - 1))
            yield "mpz_mul_view 0 %s %x" % (hx(sgn * a), k)      # fresh destination only: writing a while a view of its storage is an operand is outside the variable-level alias contract
    # chunk loop: the saved top vn limbs of chunk i are added back into chunk i+1; make the carry out of the low vn limbs
    # meet an all-ones limb vn of the new chunk product
    for un in (1001, 1100, 1499, 1500, 1501, 2100):
        for vn in (2, 8, 16):
            for hole in (501, 500 + vn, 999, 1001 % un):
                u = B ** un - 1 - B ** min(hole, un - 1)
                for v in (B ** vn - 2, B ** vn - 1, B ** vn - B + 1, (B ** vn - 1) ^ (1 << rng.randrange(64 * vn))):
                    yield "mpn_mul %s %s" % (vec(limbs_of(u, un)), vec(limbs_of(v, vn)))
            if tier == "thorough":
                for _ in range(40):
                    u = rrandomb(rng, 64 * un) | 1 << (64 * un - 1); v = rrandomb(rng, 64 * vn) | 1 << (64 * vn - 1)
                    yield "mpn_mul %s %s" % (vec(limbs_of(u, un)), vec(limbs_of(v, vn)))

    # Toom evaluation/interpolation corner cases: operands assembled from BLOCKS of the split size of each Toom variant, the
    # blocks taken from a palette (zero, one small limb, all ones, ones ending j bits below the block boundary, top bit only,
    # random) and from structures that make an evaluation point vanish (a(-1) = 0: a0 + a2 = a1 + a3) or carry out (a(1), a(2)).
    T = algo.thresholds(ctx)[0]
    def block(kind, sn):
        if kind == "zero": return 0
        if kind == "small": return rng.choice([1, 3, 4, 1000])
        if kind == "ones": return B ** sn - 1
        if kind == "ones-j": return (1 << (64 * sn - rng.choice([1, 2, 3, 4]))) - 1
        if kind == "top": return 1 << (64 * sn - 1)
        if kind == "one": return 1
        return rng.getrandbits(64 * sn)
    palette = ["zero", "small", "ones", "ones-j", "ones-j", "top", "one", "rand"]
    def assemble(n, k, kinds):
        sn = (n + k - 1) // k; x = 0
        for i, kd in enumerate(kinds): x |= (block(kd, sn) % B ** sn) << (64 * sn * i)
        x %= B ** n
        return x | 1 << (64 * n - 1) if x >> (64 * (n - 1)) == 0 and kinds[-1] != "small" else (x or 1)
    def fix(x, n):                           # exactly n limbs, top limb non-zero
        x %= B ** n
        return x if x >> (64 * (n - 1)) else x | rng.randrange(1, 5) << (64 * (n - 1))
    sq = [(T["SQR_KARATSUBA_THRESHOLD"], 2), (T["SQR_TOOM3_THRESHOLD"], 3), (T["SQR_TOOM4_THRESHOLD"], 4), (T["SQR_TOOM8_THRESHOLD"], 8)]
    mu = [(T["MUL_KARATSUBA_THRESHOLD"], 2), (T["MUL_TOOM3_THRESHOLD"], 3), (T["MUL_TOOM4_THRESHOLD"], 4), (T["MUL_TOOM8H_THRESHOLD"], 8)]
    reps = 6 if tier == "quick" else 40
    for table, ops in ((sq, ("mpn_sqr %s", "mpz_mul 3 %s %s")), (mu, ("mpn_mul_n %s %s", "mpz_mul 0 %s %s"))):
        for idx, (th, k) in enumerate(table):
            hi = table[idx + 1][0] - 1 if idx + 1 < len(table) else th + 90
            for n in sorted({th, th + 2, th + 5, (th + hi) // 2, hi - 3, hi}):
                if n < 4 or n > 700: continue
                sn = (n + k - 1) // k
                for r in range(reps):
                    kinds = [rng.choice(palette) for _ in range(k)]
                    a = fix(assemble(n, k, kinds), n)
                    if r % 3 == 1 and k >= 4:        # a0 + a2 = a1 + a3 (blocks of sn limbs): the evaluation at -1 is exactly zero
                        a0, a1, a2 = rng.getrandbits(64 * sn - 2), rng.getrandbits(64 * sn - 2), rng.getrandbits(64 * sn - 3)
                        a3 = a0 + a2 - a1
                        if 0 < a3 < B ** max(1, n - 3 * sn):
                            a = a0 | a1 << (64 * sn) | a2 << (128 * sn) | a3 << (192 * sn)
                        else:
                            m = rng.getrandbits(64 * min(sn, max(1, n - sn - 1))) | 1; a = fix(m * (B ** sn + 1), n) if (m * (B ** sn + 1)).bit_length() <= 64 * n else a
                    if r % 3 == 2 and k >= 3:        # ones ending 3 bits below a block boundary + a short block two places higher
                        a = ((1 << (64 * sn - 3)) - 1) | rng.choice([3, 4, 1000]) << (128 * sn)
                        if a.bit_length() > 64 * n or a >> (64 * (n - 1)) == 0: a = fix(a | rng.getrandbits(64 * n) << (192 * sn), n)
                    if "sqr" in ops[0]:
                        if a >> (64 * (n - 1)): yield ops[0] % vec(limbs_of(a, n))
                        yield ops[1] % (hx(a), hx(a))
                    else:
                        b = fix(assemble(n, k, [rng.choice(palette) for _ in range(k)]), n)
                        if a >> (64 * (n - 1)): yield ops[0] % (vec(limbs_of(a, n)), vec(limbs_of(b, n)))
                        yield ops[1] % (hx(a), hx(-b))
    # unbalanced shapes: Toom-3.2 / 4.2 / 5.3 regions of mpn_mul (un : vn about 3:2, 2:1, 5:3), same block palette on both operands
    for un, vn, ku, kv in [(250, 145, 5, 3), (200, 116, 5, 3), (260, 150, 5, 3), (150, 100, 3, 2), (180, 118, 3, 2), (160, 70, 4, 2), (240, 100, 4, 2), (120, 50, 4, 2), (300, 175, 5, 3)]:
        for r in range(reps):
            sn = (un + ku - 1) // ku
            a = fix(assemble(un, ku, [rng.choice(palette) for _ in range(ku)]), un)
            b = fix(assemble(vn, kv, [rng.choice(palette) for _ in range(kv)]), vn)
            if r % 2 == 1:
                a = fix(((1 << (64 * sn - 3)) - 1) << (64 * sn) | rng.choice([4, 1000]) << (192 * sn) | rng.getrandbits(64 * sn), un)
            yield "mpn_mul %s %s" % (vec(limbs_of(a, un)), vec(limbs_of(b, vn)))
            yield "mpz_mul 0 %s %s" % (hx(a), hx(b))

    # mpn_mulmod_2expm1 (also mpn_mulmod_bnm1 of mpn_redc_n): the CRT split into 2^h - 1 and 2^h + 1 halves treats a half
    # residue equal to -1 (upper half of the operand = lower half + 1) through flags; exactly one such operand, both, neither;
    # and products that come out as -1 modulo 2^h + 1
    for b in [128, 192, 256, 640, 64 * 100, 64 * 128, 64 * 150, 64 * 256, 130, 250, 64 * 100 + 2]:
        h = b // 2
        if b % 2: continue
        def m1():                               # = -1 modulo 2^h + 1
            L = rng.getrandbits(h - 1)
            return ((L + 1) << h | L) % (1 << b)
        gen = lambda: rng.getrandbits(b - 1)
        for y, z in [(m1(), gen()), (gen(), m1()), (m1(), m1()), (1 << h, gen()), (gen(), 1 << h), (1 << (h // 2), 1 << (h - h // 2)), (m1(), 0), (0, m1()), ((1 << b) - 2, m1())]:
            n = (b + 63) // 64
            yield "mpn_mulmod_2expm1 %x %s %s" % (b, vec(limbs_of(y % ((1 << b) - 1) if y >= (1 << b) - 1 else y, n)), vec(limbs_of(z, n)))
    for b in [64, 128, 64 * 3, 64 * 8, 64 * 50, 64 * 64, 64 * 128, 100, 190]:
        n = (b + 63) // 64
        for y, z in [(1 << (b // 2), 1 << (b - b // 2)), (1 << (b - 1), 2), ((1 << b) - 1, (1 << b) - 1), (3, ((1 << b) + 1) // 3 if ((1 << b) + 1) % 3 == 0 else 5)]:
            if y < (1 << b) and z < (1 << b):
                yield "mpn_mulmod_2expp1 0 %x %s %s" % (b, vec(limbs_of(y, n)), vec(limbs_of(z, n)))
                yield "fft_mulmod_2expp1 0 %x %s %s" % (b, vec(limbs_of(y, n)), vec(limbs_of(z, n)))
