"""C13 part — mpf_set_str and mpf_get_str (mpf/set_str.c, mpf/get_str.c).

Every case is emitted twice, as in c13_mpf: `op ...` is compared bit for bit with the Lean model of the conversion
algorithm (Mpir/Model/MpfStr.lean), `op? ...` is judged by the property's own predicate evaluated on the
implementation's answer (Mpir/Ops/MpfStr.lean): accepted syntax / return value, format rules, |r - v| < 2^(2-p)|v|
against the exact rational the string denotes, exactness when representable; for mpf_get_str: alphabet, sign, at most
n digits, no leading / trailing zero digit, value within one unit of the n-th digit; round trip within 2^(1-p)."""
import math, os, sys
sys.path.insert(0, os.path.dirname(os.path.dirname(os.path.abspath(__file__))))
from genlib import *
import gen_bases as _gb

GEN = [_gb.gen_bases]            # the model reads mp_bases[].chars_per_bit_exactly and the digit value table
LEAN_MODULES = ["MpirProofs.Props.C13_str"]
THEOREMS = ["Mpir.MpfStr." + t for t in """
    powHigh_bound convert_zero convert_err convert_exact_if_fits set_str_spec parse_sound mpf_set_str_correct
    withinUnit_iff getOk_iff roundUp_value get_digits_integer_exact scaledInt_bound get_digits_accuracy
""".split()]
PINS = [("mpf/set_str.c", None), ("mpf/get_str.c", None), ("gmp-impl.h", "MPF_SIGNIFICANT_DIGITS")]
TRUSTED = ["hand-written model lean/Mpir/Model/MpfStr.lean of mpf_set_str / mpf_get_str (accepted syntax statement by statement; conversion at value "
           "level: mpn_set_str, mpn_get_str, mpn_sqr, mpn_mul, mpn_mul_1, mpn_tdiv_qr, mpn_divrem taken as the exact integer functions [C06, C01, C02]; "
           "limb selection, truncation to prec+1 limbs at every step and exponent bookkeeping as in the C) — tied by correspondence, bit for bit",
           "predicate evaluator Mpir.Ops.MpfStr (exact integers; for |exponent| > 40000 the power of the base is enclosed in an interval "
           "256 bits wider than the precision and the verdict has to hold at both ends) — part of the compiled driver, not of a theorem",
           "binary64 products and quotients with chars_per_bit_exactly (MPF_SIGNIFICANT_DIGITS, n_limbs_needed, e) modelled as exact rational "
           "+ round-to-nearest-even (Radix.mulTrunc, MpfStr.divTrunc)"]
ASSUMPTIONS = ["C locale: decimal point '.', isspace = space \\t \\n \\v \\f \\r; strings without embedded NUL",
               "mpf_set_str: |written exponent| and |exponent - fraction length| below 2^62 (the C accumulates them in a long without overflow check)",
               "mpf_set_str accepts what the code accepts: base 0 means 10 (documented), white space is skipped before the sign and inside the mantissa only "
               "(documented as such), the exponent digits are read up to the first non-digit and anything after them is IGNORED ('1e5xyz' is 100000, "
               "return 0) although the manual says -1 unless the entire string is valid — same behaviour as GMP (strtol); recorded, not a C13 statement",
               "on return -1 the destination is left untouched (checked by the exact form only; the manual is silent)",
               "mpf_get_str: bases 2..62 and -2..-36 (the manual's '2 to 362' is a misprint); base 0 / 1 / 63.. / -37.. are outside the documented domain "
               "and not generated; n_digits beyond MPF_SIGNIFICANT_DIGITS is reduced to it (documented: 'no more digits than can be accurately represented')",
               "the accuracy statement for n = 1 is as weak as the property words it (within one unit of the only digit)",
               "mpf_get_str accuracy (get_digits_accuracy) is proved under the adequacy conditions MpfStr.adequate (two guard limbs beyond the digits "
               "worked to: base^n*2^64 <= B^(nln-1); three more digits developed than delivered; |scaling exponent| < 2^59; ignored limbs of the power <= "
               "n_less_limbs_needed): these concern only the binary64 computations of get_str.c:180/189/226 and are EVALUATED by the driver on every "
               "mpf_get_str13 line (`!adequacy`), not proved for all inputs; structural properties of the digits (no leading zero, count) rest on the predicate",
               "mpf_set_str: convert_err / convert_exact_if_fits / mpf_set_str_correct hold for ALL strings, bases, precisions and exponents below 2^63"]
RULE = ("mpf_set_str: destination precisions 2,3,4,5,(17) limbs x bases 2,8,10,16,32,36,37,62 (+random, +negative = decimal exponent, +0): mantissas of "
        "1..3*(prec+1) limbs worth of digits (truncated / not), values B^k, B^k±1, b^k, b^k-1 around the truncation boundary, point at every kind of "
        "position incl. fraction length == exponent (early-return path), exponents 0, ±1, ±frac, ±1000, ±10^6, ±2^31, ±2^40, ±2^61, representable "
        "decimal fractions, leading zeros, all white-space bytes, case mixes, exponent markers @ e E with + - signs and leading zeros, junk after the "
        "exponent; invalid: empty, sign only, point only, marker first/last, two points, two markers, digit >= base, 0x prefix, + sign, space after sign, "
        "one bad byte at every position, random short strings.  mpf_get_str: bases 2,4,8,16,32,64-free set {3,7,10,36,37,62,-2,-10,-16,-36}+random x "
        "n_digits 0,1,2,3,max-1,max,max+1,max+9 x operands: b^k, b^k-1, (b^k B^f - 1)/B^f (all nines: carry to 1000..), halfway digits, low zero limbs, "
        "all-ones limbs, sizes 1..prec+1 and longer (raw), exponents -3..n+3, ±1000, ±2^20, ±2^40, negative values, zero; round trip of each with n = 0; "
        "each case in exact and predicate form; distinct = distinct op lines")

WS = [0x20, 0x09, 0x0a, 0x0b, 0x0c, 0x0d]
SPREC = [2, 3, 4, 5]
SBASES = [2, 8, 10, 16, 32, 36, 37, 62]

def both(line):
    yield line
    op, rest = line.split(" ", 1)
    yield op + "? " + rest

def to_digits(x, b):
    if x == 0: return [0]
    out = []
    while x: out.append(x % b); x //= b
    return out[::-1]

def dch(base, d, rng, case=None):
    """a character mpf_set_str reads as digit d in base |base| (either case up to 36)"""
    if d < 10: return 48 + d
    b = abs(base) if base else 10
    if b <= 36:
        up = rng.random() < 0.5 if case is None else case
        return (65 if up else 97) + d - 10
    return 65 + d - 10 if d < 36 else 97 + d - 36

def enc_int(v, base, rng, case=None):
    """digits of v >= 0 in the base the exponent is written in (the base itself, decimal for base <= 0)"""
    eb = base if base > 0 else 10
    return bytes(dch(eb, d, rng, case) for d in to_digits(v, eb))

def mk_str(rng, base, ds, point=None, exp=None, neg=False, marker=None, esign=None, lead_ws=b"", inner_ws=False, case=None, ezeros=0, junk=b""):
    """assemble a string: digit values ds (MS first) with a point before index `point`, exponent `exp` (int or None)"""
    b = abs(base) if base else 10
    body = bytearray()
    for i, d in enumerate(ds):
        if point is not None and i == point: body.append(46)
        body.append(dch(b, d, rng, case))
        if inner_ws and i + 1 < len(ds) and rng.random() < 0.15: body.append(rng.choice(WS))
    if point is not None and point >= len(ds): body.append(46)
    s = bytearray(lead_ws)
    if neg: s.append(45)
    s += body
    if exp is not None:
        if marker is None: marker = rng.choice([64, 101, 69]) if b <= 10 else 64
        s.append(marker)
        if exp < 0: s.append(45)
        elif esign: s.append(43)
        s += b"0" * ezeros + enc_int(abs(exp), base, rng, case)
    return bytes(s + junk)

def set_line(prec, base, s):
    return "mpf_set_str13 %x %s %s" % (prec, hx(base), sbytes(s))

def ndig_for_limbs(b, limbs):
    return max(1, int(limbs * 64 / math.log2(b)))

EXPS_SMALL = [0, 1, -1, 2, -2, 5, -7, 17, -19, 64, -64]
EXPS_HUGE = [1000, -1000, 10 ** 6, -10 ** 6, 2 ** 31, -(2 ** 31), 2 ** 31 - 1, 2 ** 40, -(2 ** 40), 2 ** 61, -(2 ** 61), 2 ** 62 - 1000]

def gen_set_valid(rng, tier):
    reps = 1 if tier == "quick" else 5
    for prec in SPREC + ([17] if tier != "quick" else []):
        P = prec + 1
        bases = SBASES + [rng.randrange(2, 63) for _ in range(3)]
        for b in bases:
            for _ in range(reps):
                base = rng.choice([b, b, -b]) if b != 10 else rng.choice([10, -10, 0])
                # ---- mantissa length classes, as limbs worth of digits
                for limbs in [0.3, 1, P - 1, P - 0.05, P, P + 0.05, P + 1, 2 * P + 1, 3 * P]:
                    nd = ndig_for_limbs(b, limbs) + rng.randrange(0, 2)
                    kind = rng.choice(["rand", "rand", "nines", "one0", "one01", "runs"])
                    if kind == "rand": ds = [rng.randrange(1, b)] + [rng.randrange(b) for _ in range(nd - 1)]
                    elif kind == "nines": ds = [b - 1] * nd
                    elif kind == "one0": ds = [1] + [0] * (nd - 1)
                    elif kind == "one01": ds = [1] + [0] * (nd - 2) + [1] if nd > 1 else [1]
                    else: ds = to_digits(rrandomb(rng, max(1, int(limbs * 64))) or 1, b)
                    nd = len(ds)
                    pt = rng.choice([None, None, 0, nd, 1, nd - 1, rng.randrange(0, nd + 1)])
                    frac = 0 if pt is None else nd - pt
                    ex = rng.choice([None, None, 0, frac, frac, frac + 1, frac - 1, -frac] + EXPS_SMALL + EXPS_HUGE[:4] + [rng.choice(EXPS_HUGE)])
                    s = mk_str(rng, base, ds, pt, ex, neg=rng.random() < 0.3, esign=rng.random() < 0.3,
                               lead_ws=bytes(rng.choice(WS) for _ in range(rng.choice([0, 0, 0, 1, 3]))),
                               inner_ws=rng.random() < 0.1, ezeros=rng.choice([0, 0, 0, 2]))
                    yield from both(set_line(prec, base, s))
            # ---- values at the truncation boundary: B^k, B^k ± 1, B^k - 1 with k = P-1, P, P+1 (integers, no exponent / exponent 0 / cancelling fraction)
            for k in (1, P - 1, P, P + 1):
                for v in rng.sample([B ** k, B ** k - 1, B ** k + 1, (B ** k) * rng.randrange(1, B), B ** k + B ** (k - 1) - 1], 2 if tier == "quick" else 5):
                    ds = to_digits(v, b)
                    base = rng.choice([b, -b])
                    mode = rng.randrange(4)
                    if mode == 0: s = mk_str(rng, base, ds)
                    elif mode == 1: s = mk_str(rng, base, ds, len(ds), None)
                    elif mode == 2:
                        f = rng.randrange(1, len(ds) + 1); s = mk_str(rng, base, ds, len(ds) - f, f)      # exp_in_base == 0 path, value = integer v
                    else: s = mk_str(rng, base, ds, None, rng.choice([1, -1, 3, -3, len(ds), -len(ds)]))
                    yield from both(set_line(prec, base, s))
            # ---- powers of the base and their neighbours, written in different ways
            for k in [0, 1, rng.choice([2, 3, ndig_for_limbs(b, 1)]), ndig_for_limbs(b, P) + rng.choice([-1, 0, 1]), rng.randrange(1, 200)]:
                base = rng.choice([b, -b])
                yield from both(set_line(prec, base, mk_str(rng, base, [1], None, k)))
                yield from both(set_line(prec, base, mk_str(rng, base, [1], None, -k)))
                yield from both(set_line(prec, base, mk_str(rng, base, [1] + [0] * k)))
                yield from both(set_line(prec, base, mk_str(rng, base, [0] * k + [1], 0 if k else None)))             # 0.00..01 / 1
                yield from both(set_line(prec, base, mk_str(rng, base, [0] * 3 + [0] * k + [1, 2 % b, 3 % b], 3)))     # 000.000123
                if k: yield from both(set_line(prec, base, mk_str(rng, base, [b - 1] * k, rng.choice([None, 0, k]), rng.choice([None, 0, k, -k]))))
        # ---- exactly representable decimal / small-base fractions through the division path
        for (b, ds, pt, ex) in [(10, [5], 0, None), (10, [1, 2, 5], 0, None), (10, [1, 2, 5], None, -3), (10, [5, 0], None, -1), (10, [5], None, -1),
                                (10, [9, 7, 6, 5, 6, 2, 5], 0, -3), (10, [1, 5, 2, 5, 8, 7, 8, 9, 0, 6, 2, 5], None, -11), (10, [2, 5], None, -2),
                                (6, [3], 0, None), (6, [1, 3], 0, 1), (12, [6], 0, None), (12, [3], 0, None), (36, [18], 0, None), (62, [31], 0, None),
                                (10, [1, 2, 5], None, 3), (10, [1, 0, 2, 4], None, 7), (3, [1, 0, 0], None, 2), (10, [1] + [0] * 30, None, -30),
                                (10, to_digits(5 ** 20, 10), None, -20), (10, to_digits(5 ** 27 * 3, 10), None, -27), (10, to_digits(5 ** 60, 10), None, -60)]:
            yield from both(set_line(prec, b, mk_str(rng, b, ds, pt, ex)))
            yield from both(set_line(prec, -b, mk_str(rng, -b, ds, pt, ex, neg=True)))
        # ---- zero in many spellings
        for s in [b"0", b"-0", b"0.0", b"0.0e5", b".0", b"0.", b"000", b"0@-5", b"-0.000e+9", b" 0", b"0 0", b"0" * 40, b"0." + b"0" * 40 + b"e7"]:
            yield from both(set_line(prec, 10, s))
        for b in (2, 16, 32, 62):
            yield from both(set_line(prec, b, b"0" * rng.choice([16, 17, 32, 33, 64, 65, 100]) + (b"" if rng.random() < 0.5 else b".000@3")))

def gen_set_leading_zeros(rng, tier):
    """leading zero digits in every base: mpn_set_str may then return high zero limbs (power-of-two bases) — fixed in /repo by 24420d5"""
    for prec in (SPREC if tier != "quick" else [rng.choice(SPREC)]):
        for b in [2, 4, 8, 16, 32, 10, 3, 36, 62]:
            per = 64 // max(1, int(math.log2(b)))
            for z in [1, per - 1, per, per + 1, 2 * per, 2 * per + 1, (prec + 2) * per + rng.randrange(0, 3)]:
                tail = [rng.randrange(1, b)] + [rng.randrange(b) for _ in range(rng.choice([0, 1, per, 3 * per]))]
                ds = [0] * z + tail
                for (pt, ex) in [(None, None), (rng.randrange(0, len(ds) + 1), None), (None, rng.choice([3, -3])), (1, rng.choice([2, -200]))]:
                    yield from both(set_line(prec, b, mk_str(rng, b, ds, pt, ex, neg=rng.random() < 0.3)))

INVALID = [b"", b"-", b".", b"-.", b"e5", b"@5", b"1e", b"1@", b"1e+", b"1e-", b"1@+", b"1.2.3", b"..1", b"1..", b"0x10", b"0X1F", b"0b11", b"+5", b"+.5",
           b"- 5", b"-\t5", b" - 5", b"--5", b"1e5e3", b"1@5@3", b"1e5@", b"1e@5", b"1@e5", b"1e 5", b"1e+ 5", b"1 e5x", b". 5", b".e5", b".@5", b"5@.", b"1e.5",
           b"1e5.", b"1e5.0", b"1e5 ", b"1e5x", b"1e5xyz", b"1e5+3", b"1e+-5", b"1e++5", b"12a", b"1a2", b"a12", b"1_000", b"1,5", b"1\x805", b"\xff", b"1\xff",
           b"1e5\xff", b"\x00", b"1\x005", b"1\x00", b" ", b"  \n", b"\x0b1", b"\x0c-1", b"\x1f1", b"1\x1f", b"1\xa0", b"nan", b"inf", b"-inf", b"1e", b"E5", b"1E5", b"1E+05",
           b"1e05", b"1e-05", b"1@05", b"9", b"8", b"7", b"z", b"Z", b"y", b"Y", b"zZ", b"Zz", b"a", b"A", b"f.f@f", b"F.F@-F", b"1.0e1 0", b"1 . 0", b"1. 0", b"1 .0"]

def gen_set_invalid(rng, tier):
    bases = [10, 2, 8, 9, 11, 16, 36, 37, 61, 62, 0, -10, -16, -37, -62, 1, -1, 63, -63, 100, 256, -256]
    for s in INVALID:
        for base in [10, 16] + [rng.choice(bases) for _ in range(4)]:
            yield from both(set_line(rng.choice(SPREC), base, s))
    # every base value near the legal range with a string that is valid wherever anything is
    for base in list(range(-65, 66)) + [1000, -1000]:
        yield from both(set_line(2, base, rng.choice([b"1", b"10.1@1", b"1e1", b"z", b"Z"])))
    # one bad byte at every position of short valid strings
    shorts = [(10, b"12.5e-3"), (10, b" -1.5E+3"), (16, b"ff.8@-2"), (-16, b"FF.8@10"), (2, b"101.1@11"), (62, b"zZ.9@A"), (36, b"-z.z@z"), (8, b"7.7e7")]
    for base, s in shorts:
        for i in range(len(s) + 1):
            for c in [46, 43, 45, 32, 64, 101, 0x38, 0x39, 0x67, 0x5a, 0x7a, 0x80, 0x00, 0x2f, 0x3a, 0x40, 0x5b, 0x60, 0x7b]:
                if rng.random() < (0.25 if tier == "quick" else 1.0):
                    t = s[:i] + bytes([c]) + s[i + (rng.random() < 0.5):]
                    yield from both(set_line(rng.choice(SPREC), base, t))
    # random short strings over the interesting alphabet
    alpha = b"0123456789abcdefzAFZ..@@eE+-- \t"
    for _ in range(500 if tier == "quick" else 6000):
        n = rng.randrange(0, 10)
        t = bytes(rng.choice(alpha) for _ in range(n))
        yield from both(set_line(rng.choice(SPREC), rng.choice(bases[:15]), t))

# ------------------------------------------------------------------------------------------------ mpf_get_str

GBASES = [2, 4, 8, 16, 32, 10, 3, 7, 36, 37, 62, -2, -10, -16, -36]
GPREC = [2, 3, 4, 5, 17]

def fs(prec, neg, exp, limbs):
    n = len(limbs)
    return "%x %s %s %s" % (prec, hx(-n if neg else n), hx(exp if n else 0), vec(limbs))

def maxdig(b, prec):
    return 2 + int((prec - 1) * 64 * math.log(2) / math.log(b))

def nds_for(rng, b, prec):
    m = maxdig(b, prec)
    return [0, 1, 2, 3, m - 1, m, m + 1, m + 9, rng.randrange(1, m + 2)]

def norm(v):
    """integer v > 0 -> (limbs without low zero limbs [sometimes kept], exponent) of the mpf holding v"""
    l = limbs_of(v); e = len(l)
    return l, e

def get_lines(rng, base, nd, prec, neg, exp, limbs, rt=None):
    f = fs(prec, neg, exp, limbs)
    yield from both("mpf_get_str13 %s %x %s" % (hx(base), nd, f))
    if rt if rt is not None else nd == 0:
        yield from both("mpf_str_roundtrip13 %s %s" % (hx(base), f))

def gen_get(rng, tier):
    reps = 1 if tier == "quick" else 4
    for prec in GPREC:
        for base in (rng.sample(GBASES, 6) + [rng.choice([rng.randrange(2, 63), -rng.randrange(2, 37)])] if tier == "quick" else GBASES + [rng.randrange(2, 63), -rng.randrange(2, 37)]):
            b = abs(base)
            md = maxdig(b, prec)
            nds = nds_for(rng, b, prec)
            for _ in range(reps):
                # ---- exact powers of the base and the integers just below / above them
                for k in [rng.choice([0, 1, 2, 3]), md - 1, md, md + 1, rng.randrange(1, 2 * md)]:
                    for v in (b ** k, b ** k - 1, b ** k + 1, (b ** k) // 2, (b ** k) // 2 + (b ** max(k - 2, 0)) // 2):
                        if v <= 0: continue
                        l, e = norm(v)
                        if len(l) > prec + 1 and rng.random() < 0.7: l = l[len(l) - (prec + 1):]       # what an mpf of this precision can hold
                        if l[-1] == 0: continue
                        while len(l) > 1 and l[0] == 0 and rng.random() < 0.7: l = l[1:]
                        sh = rng.choice([0, 0, 0, -1, -2, 1, 3])                                          # scaled by B^sh
                        for nd in rng.sample(nds, 2):
                            yield from get_lines(rng, base, nd, prec, rng.random() < 0.3, e + sh, l)
                # ---- just below a power of the base, with fraction limbs: (b^k B^f - 1) / B^f  (all (b-1) digits, carry to 1)
                for k in [rng.choice([0, 1, 2]), md // 2, md - 1, md]:
                    for f in (1, prec):
                        v = b ** k * B ** f - rng.choice([1, 1, 2, B // 2])
                        l, e = norm(v)
                        l = l[max(0, len(l) - (prec + 1)):]
                        for nd in rng.sample(nds, 2):
                            yield from get_lines(rng, base, nd, prec, rng.random() < 0.3, e - f, l)
                # ---- halfway cases: n digits followed by exactly b/2 (even bases) / just below / just above
                for n in (1, rng.choice([2, 3]), md - 1):
                    if n < 1: continue
                    head = rng.randrange(b ** (n - 1), b ** n)
                    for tail in ([b // 2], [b // 2, 0, 1], [b // 2 - 1, b - 1, b - 1] if b > 2 else [0, 1, 1], [b - 1] * 3):
                        v = head
                        for d in tail: v = v * b + d
                        l, e = norm(v)
                        if len(l) <= prec + 1:
                            yield from get_lines(rng, base, n, prec, rng.random() < 0.3, e, l, rt=False)
                            yield from get_lines(rng, base, n + 1, prec, False, e - 1, l, rt=False)
                    v = (b ** n - 1) * b + b // 2                       # 99..95 -> 100..0
                    l, e = norm(v)
                    if len(l) <= prec + 1: yield from get_lines(rng, base, n, prec, rng.random() < 0.3, e, l, rt=False)
                # ---- general operands: sizes, low zero limbs, all ones, exponents incl. tiny and huge
                for _ in range(10):
                    n = rng.choice([1, 2, prec - 1, prec, prec + 1, prec + 1, prec + 3])
                    l = rand_limbs(rng, n, rng.choice(["uniform", "uniform", "ones", "runs", "sparse", "top", "onebit"]))
                    for i in range(min(rng.choice([0, 0, 1, 2, n - 1]), n - 1)): l[i] = 0
                    if l[-1] == 0: l[-1] = rng.choice([1, M, 1 << 63, rng.getrandbits(64) | 1])
                    e = rng.choice([0, 1, -1, 2, -2, 3, n, n + 1, prec + 2, prec + 3, rng.randrange(-8, 12), 1000, -1000, 1 << 20, -(1 << 20), 1 << 40, -(1 << 40)])
                    for nd in rng.sample(nds, 2) + [0]:
                        yield from get_lines(rng, base, nd, prec, rng.random() < 0.4, e, l)
                # ---- n near the maximum with small magnitudes: the truncated squarings of mpn_pow_1_highpart are amplified by the
                #      exponent; with one guard limb (before the repair of get_str.c) the last digits were off by several units
                for ex in [-0x20, -0x40, -0x80, -0x100, -0x400, -0x1000, -0x10000, -(1 << 20), -(1 << 30), -(1 << 40), 0x40, 0x1000, 1 << 20, 1 << 40]:
                    n = prec + 1
                    l = [rng.getrandbits(64) for _ in range(n)]; l[-1] |= 1
                    yield from get_lines(rng, base, md - rng.choice([0, 0, 1, 2]), prec, rng.random() < 0.3, ex, l, rt=False)
            yield from get_lines(rng, base, rng.choice(nds), prec, False, 0, [])           # zero
            yield from get_lines(rng, base, 0, prec, False, 0, [])
        # fractions with few digits (0.5, 0.125, 0.1 in base 10 is not exact but 1/2^k is), and 1/3-like values
        for base in (10, -10, 2, 16, 7):
            for k in (1, 3, 10, 63, 64, 65, 100):
                if k < 64 * prec:
                    l = limbs_of(1 << (64 * 4 - k))                      # 2^-k = l * B^-4
                    e = len(l) - 4
                    while l and l[0] == 0: l = l[1:]
                    yield from get_lines(rng, base, rng.choice([0, 1, 2, 5]), prec, False, e, l)
            t = (B ** (prec + 1)) // 3
            yield from get_lines(rng, base, 0, prec, False, 0, limbs_of(t))
            yield from get_lines(rng, base, 5, prec, True, 0, limbs_of(t))

def gen_ops(rng, tier, ctx=None):
    yield from gen_set_valid(rng, tier)
    yield from gen_set_leading_zeros(rng, tier)
    yield from gen_set_invalid(rng, tier)
    yield from gen_get(rng, tier)

def nontrivial(line):
    return line if line.startswith(("mpf_set_str13", "mpf_get_str13", "mpf_str_roundtrip13")) else None
