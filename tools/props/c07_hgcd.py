"""C07 part: the half-gcd layer — hgcd matrix arithmetic (hgcd_matrix.c, matrix22_mul.c incl. Strassen,
matrix22_mul1_inverse_vector.c), mpn_hgcd_step / mpn_gcd_subdiv_step with s > 0, mpn_hgcd, mpn_hgcd_reduce,
mpn_hgcd_appr, mpn_gcdext_lehmer_n.  Internal entry points are called directly (harness/ops_hgcd.c) and compared
with the value-level models of lean/Mpir/Model/Hgcd.lean on the FULL output (matrix entries, sizes, reduced numbers)."""
from props import c07_gcd as base
from genlib import *

LEAN_MODULES = ["MpirProofs.Props.C07_hgcd"]
THEOREMS = ["Mpir.C07h.matrix22_mul_correct", "Mpir.C07h.hgcd_matrix_init_correct", "Mpir.C07h.hgcd_matrix_update_q_correct",
            "Mpir.C07h.hgcd_matrix_mul_1_correct", "Mpir.C07h.hgcd_matrix_mul_correct",
            "Mpir.C07h.matrix22_mul1_inverse_vector_correct", "Mpir.C07h.hgcd_matrix_adjust_correct",
            "Mpir.C07h.hgcd_step_correct", "Mpir.C07h.mpn_hgcd_correct_partial", "Mpir.C07h.mpn_hgcd_reduce_correct_partial",
            "Mpir.C07h.hgcd_matrix_apply_wrap_exact"]
TRUSTED = ["hand-written value-level models lean/Mpir/Model/Hgcd.lean of the half-gcd layer (limb arrays as naturals with the size fields tracked; "
           "dropped carries modelled as reductions modulo the destination size), tied by exact comparison of every output on every run",
           "mpn_mulmod_bnm1 inside hgcd_matrix_apply is modelled by its contract (exact product when it fits, else a representative modulo B^n - 1); "
           "wrap_exact proves the result independent of the representative"]
ASSUMPTIONS = ["mpn_hgcd_correct_partial / mpn_hgcd_reduce_correct_partial: operands below HGCD_REDUCE_THRESHOLD limbs (above it mpn_hgcd_reduce goes through "
               "mpn_hgcd_appr + hgcd_matrix_apply, whose truncation analysis is not proved: model compared exactly on every run, wrap-around exactness proved separately) "
               "and HGCD_THRESHOLD >= 8 (tuner minimum 30); the bound M->n < M->alloc and mpn_hgcd_appr rest on the differential run (markers !msize / !oob)",
               "mpn_hgcd with n = 3, 4 may return 0 after having recorded a subtraction (b = 2a, top limbs below 4): the model mirrors it; the theorems state the consistency "
               "M' = M E, (a;b) = E(a';b') for that path and prove it unreachable for n >= 5 (hgcdStep_unchanged)"]
RULE_HGCD = ("half-gcd layer: matrices as products of elementary matrices from chosen quotient sequences (1s, one-limb extremes, multi-limb), "
             "operands built backwards as (a;b) = M(a';b'); every sign branch of the Strassen schedule from a small pool of entries around equality and around B^n; "
             "sizes +-2 around MATRIX22_STRASSEN / HGCD / HGCD_APPR thresholds; subdiv_step corner cases (a = b, b = 2a, remainder below s, carry on add-back)")

def mat_from_qs(qs, start=0):
    """product of (1 q; 0 1) (even positions) and (1 0; q 1) (odd positions), multiplied from the right"""
    m = [1, 0, 0, 1]
    for i, q in enumerate(qs):
        if (i + start) % 2 == 0: m = [m[0], m[1] + q * m[0], m[2], m[3] + q * m[2]]
        else: m = [m[0] + q * m[1], m[1], m[2] + q * m[3], m[3]]
    return m

def nl(x): return (x.bit_length() + 63) // 64

def rand_unimod(rng, limbs, big=True):
    """unimodular non-negative matrix whose largest entry has about `limbs` limbs"""
    m = [1, 0, 0, 1]; i = rng.randrange(2); qs = []
    while True:
        q = base.rand_q(rng, big)
        m2 = mat_from_qs([q], i)
        cand = [m[0] * m2[0] + m[1] * m2[2], m[0] * m2[1] + m[1] * m2[3], m[2] * m2[0] + m[3] * m2[2], m[2] * m2[1] + m[3] * m2[3]]
        if max(cand).bit_length() > 64 * limbs: break
        m = cand; i += 1
    if m == [1, 0, 0, 1]: m = mat_from_qs([rng.getrandbits(max(1, 64 * limbs - 1)) + 1], rng.randrange(2))
    return m

def mat_tok(m, mn):
    return "%x %s %s %s %s" % (mn, vec(limbs_of(m[0], mn)), vec(limbs_of(m[1], mn)), vec(limbs_of(m[2], mn)), vec(limbs_of(m[3], mn)))

def pool_val(rng, n, anchor):
    """value below B^n from a pool built to make comparisons tie / flip and carries occur"""
    top = (1 << (64 * n)) - 1
    k = rng.randrange(12)
    if k == 0: return 0
    if k == 1: return top
    if k == 2: return anchor
    if k == 3: return min(top, anchor + 1)
    if k == 4: return max(0, anchor - 1)
    if k == 5: return top - rng.getrandbits(8)
    if k == 6: return rng.getrandbits(8)
    if k == 7: return min(top, 2 * anchor)
    if k == 8: return anchor // 2
    if k == 9: return base.rand_nat(rng, n) & top
    return rng.getrandbits(64 * n)

def arb_matrix(rng, mn):
    """arbitrary entries below B^mn (no determinant condition), at least one entry using the top limb, diagonal non-zero"""
    anchor = rng.getrandbits(64 * mn)
    m = [pool_val(rng, mn, anchor) for _ in range(4)]
    if m[0] == 0: m[0] = 1
    if m[3] == 0: m[3] = 1
    if max(m) < 1 << (64 * (mn - 1)): m[rng.randrange(4)] |= 1 << (64 * mn - 1 - rng.randrange(64))
    return m

def hgcd2_like(rng):
    """a matrix as mpn_hgcd2 returns them: unimodular, entries below 2^63"""
    m = [1, 0, 0, 1]; i = rng.randrange(2)
    while True:
        q = base.rand_q(rng, big=False) if rng.random() < 0.3 else rng.choice([1, 1, 1, 2, 3, 5])
        c = mat_from_qs([q], i)
        cand = [m[0] * c[0] + m[1] * c[2], m[0] * c[1] + m[1] * c[3], m[2] * c[0] + m[3] * c[2], m[2] * c[1] + m[3] * c[3]]
        if max(cand[0] + cand[1], cand[2] + cand[3]) >= 1 << 63 or (m != [1, 0, 0, 1] and rng.random() < 0.03): break
        m = cand; i += 1
    if m == [1, 0, 0, 1]: m = [1, 1, 0, 1]
    return m

def pair_from(rng, n, kind):
    """(a, b) of n limbs (top limbs not both zero) with chosen structure"""
    if kind == "fib": a, b = base.cf_limbs(rng, n, allones=True)
    elif kind == "cf": a, b = base.cf_limbs(rng, n)
    elif kind == "cfg":
        g = base.rand_nat(rng, max(1, n // 3)) | 1
        a, b = base.cf_limbs(rng, max(1, n - n // 3)); a *= g; b *= g
    elif kind == "rand": a, b = base.rand_nat(rng, n) | 1 << (64 * n - 1), base.rand_nat(rng, n)
    elif kind == "runs": a, b = rrandomb(rng, 64 * n) | 1 << (64 * n - 1), rrandomb(rng, 64 * n)
    elif kind == "equal": a = base.rand_nat(rng, n) | 1 << (64 * n - 1 - rng.randrange(64)); b = a
    elif kind == "double": a = base.rand_nat(rng, n) >> 1 | 1 << (64 * n - 2 - rng.randrange(62)); b = 2 * a
    elif kind == "multiple":
        b = base.rand_nat(rng, max(1, n - rng.randrange(1, max(2, n // 2 + 1)))) or 1
        a = b * (((1 << (64 * n)) - 1) // b - rng.getrandbits(3) if rng.random() < 0.5 else max(1, ((1 << (64 * n - 1)) // b)))
    elif kind == "smallb": a = base.rand_nat(rng, n) | 1 << (64 * n - 1); b = base.rand_nat(rng, max(1, n // 2 - rng.randrange(0, 3))) or 1
    elif kind == "halfb":     # b just above s limbs: one division step lands at n = s + 1 or s + 2 (final loops after an empty while)
        a = base.rand_nat(rng, n) | 1 << (64 * n - 1); bl = min(n, n // 2 + rng.choice([2, 2, 3])); b = base.rand_nat(rng, bl) | 1 << (64 * bl - 1 - rng.randrange(64))
    elif kind == "close":
        a = base.rand_nat(rng, n) | 1 << (64 * n - 1); b = a - (rng.getrandbits(64 * rng.randrange(1, n + 1)) % a)
    elif kind == "bigq":      # quotients of several limbs in the middle of the expansion
        qs = []
        a, b = 1, 0
        while a.bit_length() < 64 * n - 64:
            q = rng.getrandbits(64 * rng.randrange(1, 4)) + 1 if rng.random() < 0.15 else base.rand_q(rng, big=False)
            if a.bit_length() + q.bit_length() > 64 * n: break
            a, b = q * a + b, a
        a <<= max(0, 64 * n - a.bit_length() - rng.randrange(64)); b <<= 0
    else: raise ValueError(kind)
    if rng.random() < 0.3: a, b = b, a
    m = (1 << (64 * n)) - 1
    a &= m; b &= m
    if max(a, b) < 1 << (64 * (n - 1)): a |= 1 << (64 * n - 1 - rng.randrange(64))
    return a, b

KINDS = ["fib", "cf", "cfg", "rand", "runs", "equal", "double", "multiple", "smallb", "halfb", "close", "bigq"]

def gen_ops(rng, tier, ctx=None):
    th = base.thresholds(ctx)
    quick = tier == "quick"
    ST = th["MATRIX22_STRASSEN_THRESHOLD"]; HT = th["HGCD_THRESHOLD"]; AT = th["HGCD_APPR_THRESHOLD"]; RT = th["HGCD_REDUCE_THRESHOLD"]
    T = "%x %x %x %x" % (HT, AT, RT, ST)
    # ---------- mpn_hgcd_matrix_init
    for n in list(range(1, 20)) + [HT - 1, HT, HT + 1, 1000]:
        yield "hgcd_matrix_init %x" % n
    # ---------- mpn_hgcd_matrix_update_q
    for _ in range(500 if quick else 5000):
        mn = rng.choice([1, 1, 2, 2, 3, 5, 8])
        k = rng.randrange(4)
        if k == 0: m = rand_unimod(rng, mn); mn = max(mn, nl(max(m)))
        else: m = arb_matrix(rng, mn)
        col = rng.randrange(2)
        if k == 2:     # column 1-col much shorter than M->n: the normalisation loop of the qn > 1 branch
            sh = 64 * rng.randrange(0, mn)
            if col == 0: m[1] >>= sh; m[3] >>= sh
            else: m[0] >>= sh; m[2] >>= sh
        if m[1 - col] == 0 and m[3 - col] == 0: m[1 - col] = 1
        qn = rng.choice([1, 1, 1, 2, 2, 3, 4])
        q = rng.choice([1, M, 1 << 63, rng.getrandbits(64) | 1]) if qn == 1 else (rng.getrandbits(64 * qn) | 1 << (64 * qn - 1 - rng.randrange(64)))
        if k == 3 and qn == 1: q = M
        alloc = mn + qn + 1 + rng.randrange(3)
        yield "hgcd_matrix_update_q %x %s %s %x" % (alloc, mat_tok(m, mn), vec(limbs_of(q)), col)
    # ---------- mpn_hgcd_matrix_mul_1, mpn_hgcd_mul_matrix1_vector, mpn_matrix22_mul1_inverse_vector
    for _ in range(400 if quick else 4000):
        mn = rng.choice([1, 1, 2, 3, 5, 8])
        m = arb_matrix(rng, mn) if rng.random() < 0.6 else rand_unimod(rng, mn)
        mn = max(mn, nl(max(m)))
        u = hgcd2_like(rng) if rng.random() < 0.7 else [rng.choice([0, 1, (1 << 63) - 1, 1 << 63, M, rng.getrandbits(64)]) for _ in range(4)]
        yield "hgcd_matrix_mul_1 %x %s %x %x %x %x" % (mn + 1 + rng.randrange(2), mat_tok(m, mn), u[0], u[1], u[2], u[3])
        n = rng.choice([1, 2, 3, 4, 7])
        a, b = pool_val(rng, n, rng.getrandbits(64 * n)), pool_val(rng, n, rng.getrandbits(64 * n))
        yield "mpn_hgcd_mul_matrix1_vector %x %x %x %x %s %s" % (u[0], u[1], u[2], u[3], vec(limbs_of(a, n)), vec(limbs_of(b, n)))
        # inverse vector: (a; b) = M1 (a'; b') with a', b' chosen so that a, b fit n limbs; also arbitrary operands
        u = hgcd2_like(rng)
        lim = (1 << (64 * n)) // (max(u[0] + u[1], u[2] + u[3]) + 1)
        x, y = rng.randrange(0, lim + 1), rng.randrange(0, lim + 1)
        if rng.random() < 0.2: x = 0
        if rng.random() < 0.2: y >>= 64
        A, Bv = u[0] * x + u[1] * y, u[2] * x + u[3] * y
        if A < 1 << (64 * n) and Bv < 1 << (64 * n):
            yield "mpn_matrix22_mul1_inverse_vector %x %x %x %x %s %s" % (u[0], u[1], u[2], u[3], vec(limbs_of(A, n)), vec(limbs_of(Bv, n)))
        yield "mpn_matrix22_mul1_inverse_vector %x %x %x %x %s %s" % (u[0], u[1], u[2], u[3], vec(limbs_of(a, n)), vec(limbs_of(b, n)))
    # ---------- mpn_matrix22_mul: Strassen called directly on small sizes (every sign branch), and the dispatch around the threshold
    for _ in range(1500 if quick else 20000):
        rn = rng.choice([1, 1, 2, 2, 3, 4, 6]); mn = rng.choice([1, 1, 2, 2, 3, 4, 6])
        ar = rng.getrandbits(64 * rn); am = rng.getrandbits(64 * mn)
        r = [pool_val(rng, rn, ar) for _ in range(4)]; m = [pool_val(rng, mn, am) for _ in range(4)]
        yield "mpn_matrix22_mul %x 1 %s %s" % (ST, " ".join(vec(limbs_of(x, rn)) for x in r), " ".join(vec(limbs_of(x, mn)) for x in m))
        if rng.random() < 0.2:
            yield "mpn_matrix22_mul %x 0 %s %s" % (ST, " ".join(vec(limbs_of(x, rn)) for x in r), " ".join(vec(limbs_of(x, mn)) for x in m))
    szs = sorted({max(1, ST + d) for d in (-2, -1, 0, 1, 2)} | {2 * ST, 1})
    for rn in szs:
        for mn in szs:
            for _ in range(1 if quick else 6):
                ar = rng.getrandbits(64 * rn); am = rng.getrandbits(64 * mn)
                r = [pool_val(rng, rn, ar) for _ in range(4)]; m = [pool_val(rng, mn, am) for _ in range(4)]
                yield "mpn_matrix22_mul %x 0 %s %s" % (ST, " ".join(vec(limbs_of(x, rn)) for x in r), " ".join(vec(limbs_of(x, mn)) for x in m))
    # ---------- mpn_hgcd_matrix_mul (sizes through mpn_matrix22_mul below and above the threshold, high zero limbs of the product)
    for it in range(150 if quick else 1500):
        if it % 5 == 0: mn, mn1 = rng.choice(szs[1:]), rng.choice(szs[1:])
        else: mn, mn1 = rng.choice([1, 1, 2, 3, 5]), rng.choice([1, 1, 2, 3, 5])
        k = rng.randrange(3)
        m = rand_unimod(rng, mn) if k == 0 else arb_matrix(rng, mn)
        m1 = rand_unimod(rng, mn1) if k == 0 else arb_matrix(rng, mn1)
        if k == 2:      # tiny entries in wide fields: the product is up to three limbs shorter than mn + mn1 + 1
            m = [x >> (64 * (mn - 1)) or 1 for x in m]; m1 = [x >> (64 * (mn1 - 1)) or 1 for x in m1]
        mn = max(mn, nl(max(m))); mn1 = max(mn1, nl(max(m1)))
        yield "hgcd_matrix_mul %x %x %s %s" % (ST, mn + mn1 + 1 + rng.randrange(2), mat_tok(m, mn), mat_tok(m1, mn1))
    # ---------- mpn_hgcd_matrix_adjust: high parts already reduced by M, low p limbs arbitrary
    for _ in range(300 if quick else 3000):
        mn = rng.choice([1, 1, 2, 3, 6]); m = rand_unimod(rng, mn); mn = nl(max(m))
        p = rng.choice([1, 1, 2, 3, 5, 9])
        nn = mn + rng.choice([1, 1, 2, 3])
        k = rng.randrange(4)
        ah = rng.getrandbits(64 * nn) | 1 << (64 * nn - 1 - rng.randrange(64)); bh = rng.getrandbits(64 * nn)
        if k == 0: ah = max(m[1], 1 << (64 * (nn - 1))); bh = max(m[2], 1)            # as small as allowed: results may lose a limb
        if k == 1: ah = (1 << (64 * nn)) - 1 - rng.getrandbits(4); bh = (1 << (64 * nn)) - 1     # carry into a new limb
        ah = max(ah, m[1]); bh = max(bh, m[2])
        al = pool_val(rng, p, rng.getrandbits(64 * p)); bl = pool_val(rng, p, rng.getrandbits(64 * p))
        n = p + nn
        a = (ah << (64 * p)) + al; b = (bh << (64 * p)) + bl
        if nl(max(a, b)) != n: continue
        yield "hgcd_matrix_adjust %s %s %x %s" % (vec(limbs_of(a, n)), vec(limbs_of(b, n)), p, mat_tok(m, mn))
    # ---------- mpn_hgcd_step
    def step_line(a, b, n, s, m=None):
        if m is None: m = [1, 0, 0, 1]
        mn = max(1, nl(max(m)))
        return "mpn_hgcd_step %x %s %s %x %s" % (s, vec(limbs_of(a, n)), vec(limbs_of(b, n)), mn + (n - s) + 2, mat_tok(m, mn))
    for _ in range(600 if quick else 6000):
        n = rng.choice([2, 3, 3, 4, 4, 5, 6, 8, 12])
        s = rng.choice([n - 1, n - 1, n // 2 + 1, max(1, n // 2), 1])
        if not 1 <= s < n: continue
        a, b = pair_from(rng, n, rng.choice(KINDS))
        k = rng.randrange(10)
        if k == 0:      # top limbs below 4 (n == s+1: goto subtract)
            a = a % (1 << (64 * (n - 1))) | rng.randrange(0, 4) << (64 * (n - 1)); b = b % (1 << (64 * (n - 1))) | rng.randrange(0, 4) << (64 * (n - 1))
            if max(a, b) < 1 << (64 * (n - 1)): a |= 1 << (64 * (n - 1))
        if k == 1:      # b = 2a with small top limb: a = b after the subtraction
            a = (a % (1 << (64 * (n - 1)))) | 1 << (64 * (n - 1)); b = 2 * a
        if k == 2:      # remainder below s limbs: quotient decremented, a added back (with and without carry)
            d = (1 << (64 * (s + 1))) - 1 - rng.getrandbits(rng.choice([1, 8, 64])) if s + 1 <= n else a
            r = rng.getrandbits(64 * rng.randrange(0, s + 1))
            q = rng.randrange(2, 1 << 20)
            if (q * d + r).bit_length() <= 64 * n: a, b = d, q * d + r
        if k == 5 and s + 2 <= n:      # add-back with carry into a new limb (bp[an++] = cy): hgcd2 fails because a is one limb shorter
            n = s + 2
            d = (1 << (64 * (s + 1))) - 1 - rng.getrandbits(rng.choice([1, 8, 40]))
            r = ((1 << (64 * (s + 1))) - d) + rng.getrandbits(64 * rng.randrange(0, s + 1) if s > 0 else 1) % (1 << (64 * s))
            q = (1 << 64) - 1 - rng.getrandbits(rng.choice([0, 3, 30]))
            if r < d and r.bit_length() <= 64 * s and (q * d + r).bit_length() <= 64 * n and (q * d + r) >> (64 * n - 1): a, b = d, q * d + r
        if k == 3:      # exact division
            d = base.rand_nat(rng, max(s + 1, 1)) | 1 << (64 * (s + 1) - 1) if s + 1 <= n else 1
            q = rng.randrange(2, 1 << 30)
            if (q * d).bit_length() <= 64 * n: a, b = q * d, d
        if k == 4:      # difference of at most s limbs
            b = a + rng.getrandbits(64 * rng.randrange(1, s + 1)) if rng.random() < 0.5 else max(0, a - rng.getrandbits(64 * rng.randrange(1, s + 1)))
            if b.bit_length() > 64 * n: b = a
        m = rand_unimod(rng, rng.choice([1, 2])) if rng.random() < 0.5 else None
        if max(a, b) >> (64 * (n - 1)) == 0 or max(a, b).bit_length() > 64 * n: continue
        yield step_line(a, b, n, s, m)
    # ---------- mpn_hgcd, mpn_hgcd_appr, mpn_hgcd_reduce
    sizes = list(range(1, 14)) + [20, 33, 50]
    sizes += sorted({max(3, t + d) for t in (HT, AT) for d in (-2, -1, 0, 1, 2) if t <= 400})
    sizes += [2 * HT + 1] if HT <= 130 else []
    if not quick: sizes += [3 * HT, 4 * HT + 3, 500, 777] if HT <= 200 else []
    for n in sizes:
        reps = (4 if n < 14 else 2 if n < 60 else 1) * (1 if quick else 6)
        for kind in KINDS:
            if quick and n > 60 and kind in ("runs", "cfg", "close", "multiple"): continue
            for _ in range(reps):
                a, b = pair_from(rng, n, kind)
                la, lb = vec(limbs_of(a, n)), vec(limbs_of(b, n))
                yield "mpn_hgcd %s %s %s" % (T, la, lb)
                if n < 60 or rng.random() < 0.5: yield "mpn_hgcd_p %s %s %s" % (T, la, lb)
                yield "mpn_hgcd_appr %s %s %s" % (T, la, lb)
                if n >= 2:
                    for p in sorted({n // 2, max(1, n // 3), 1, n - 1, max(1, n - 2)} if n < 14 else {n // 2}):
                        if 1 <= p < n: yield "mpn_hgcd_reduce %s %x %s %s" % (T, p, la, lb)
    # the n in {3, 4} corner: b = 2a with top limb 1 -- mpn_hgcd returns 0 after having recorded a subtraction
    for n in (3, 4):
        for _ in range(5):
            a = base.rand_nat(rng, n - 1) | 1 << (64 * (n - 1)); b = 2 * a
            yield "mpn_hgcd %s %s %s" % (T, vec(limbs_of(a, n)), vec(limbs_of(b, n)))
            yield "mpn_hgcd %s %s %s" % (T, vec(limbs_of(b, n)), vec(limbs_of(a, n)))
            yield "mpn_hgcd_appr %s %s %s" % (T, vec(limbs_of(a, n)), vec(limbs_of(b, n)))
    # thorough only: hgcd_matrix_apply (wrap-around products modulo B^modn - 1) through mpn_hgcd_reduce at n >= HGCD_REDUCE_THRESHOLD
    if not quick and RT <= 8000:
        for n, kind in ((RT, "cf"), (RT + 1, "fib"), (RT + 37, "runs")):
            if kind == "runs":      # long all-ones runs: end-around carries of the folds
                X = (rng.getrandbits(40) | 1 << 39) << (64 * (n // 16) - 40)
                b = X ** 16 - 1; a = (X - 1) * (rng.getrandbits(64 * n - (X - 1).bit_length()) | 1)
                a &= (1 << (64 * n)) - 1; b &= (1 << (64 * n)) - 1
                if max(a, b) >> (64 * (n - 1)) == 0: a |= 1 << (64 * n - 1)
            else: a, b = pair_from(rng, n, kind)
            yield "mpn_hgcd_reduce %s %x %s %s" % (T, n // 2, vec(limbs_of(a, n)), vec(limbs_of(b, n)))
    # ---------- mpn_gcdext_lehmer_n
    for n in list(range(1, 9)) + [12, 20] + ([] if quick else [40, 80]):
        for kind in KINDS:
            for _ in range(3 if quick else 12):
                a, b = pair_from(rng, n, kind)
                if a == 0 or b == 0: continue
                yield "mpn_gcdext_lehmer_n %s %s" % (vec(limbs_of(a, n)), vec(limbs_of(b, n)))
                yield "mpn_gcdext_lehmer_n_p %s %s" % (vec(limbs_of(a, n)), vec(limbs_of(b, n)))

PINS = [("mpn/generic/hgcd_matrix.c", None), ("mpn/generic/matrix22_mul.c", None), ("mpn/generic/matrix22_mul1_inverse_vector.c", None),
        ("mpn/generic/hgcd_step.c", None), ("mpn/generic/gcd_subdiv_step.c", None), ("mpn/generic/hgcd.c", "mpn_hgcd"),
        ("mpn/generic/hgcd_reduce.c", None), ("mpn/generic/hgcd_appr.c", "mpn_hgcd_appr")]
