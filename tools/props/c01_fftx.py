"""C01 (part: the FFT transforms) — mpir_fft_radix2 / mpir_ifft_radix2, the truncated transforms mpir_(i)fft_trunc1 / mpir_(i)fft_trunc,
the sqrt2 transforms mpir_(i)fft_trunc_sqrt2, the matrix Fourier variants mpir_(i)fft_mfa_trunc_sqrt2 and mpn_mul_trunc_sqrt2 as a whole.
Value-level models (lean/Mpir/Model/FftX.lean: coefficients are integers modulo p = 2^(64*limbs)+1, recursion and case analysis as in the C)
answer the whole coefficient array; the C side normalises every entry with mpn_normmod_2expp1.  The theorems say what the models compute:
the bit-reversed DFT, inverse o forward = 2n, the truncated transforms agree with / invert the full one, and the convolution chain
limbs -> split -> transform -> pointwise product -> inverse -> scale -> combine = the product."""
import os, sys
sys.path.insert(0, os.path.dirname(os.path.dirname(os.path.abspath(__file__))))
from genlib import *

LEAN_MODULES = ["MpirProofs.Props.C01_fftx"]
THEOREMS = ["Mpir.FftX.fft_radix2_bitrev_dft", "Mpir.FftX.revbin_eq_rev", "Mpir.FftX.ifft_radix2_of_transform", "Mpir.FftX.ifft_fft_radix2",
            "Mpir.FftX.fft_trunc1_prefix", "Mpir.FftX.fft_trunc_prefix", "Mpir.FftX.ifft_trunc1_recovers", "Mpir.FftX.ifft_trunc_recovers",
            "Mpir.FftX.fft_trunc_sqrt2_prefix", "Mpir.FftX.fft_full_sqrt2_bitrev_dft", "Mpir.FftX.ifft_trunc_sqrt2_recovers",
            "Mpir.FftX.fft_radix2_twiddle_bitrev_dft", "Mpir.FftX.fft_trunc1_twiddle_prefix", "Mpir.FftX.mfa_passes_dft", "Mpir.FftX.fft_mfa_trunc_sqrt2_permuted_dft",
            "Mpir.FftX.convolution_chain", "Mpir.FftX.mul_trunc_sqrt2_val", "Mpir.FftX.mul_fft_main_nonmfa_val"]
PINS = [("fft/fft_radix2.c", "mpir_fft_radix2"), ("fft/ifft_radix2.c", "mpir_ifft_radix2"),
        ("fft/fft_trunc.c", None), ("fft/ifft_trunc.c", None),
        ("fft/fft_trunc_sqrt2.c", "mpir_fft_trunc_sqrt2"), ("fft/ifft_trunc_sqrt2.c", "mpir_ifft_trunc_sqrt2"),
        ("fft/revbin.c", None),
        ("fft/fft_mfa_trunc_sqrt2.c", "mpir_fft_radix2_twiddle"), ("fft/fft_mfa_trunc_sqrt2.c", "mpir_fft_trunc1_twiddle"),
        ("fft/fft_mfa_trunc_sqrt2.c", "mpir_fft_mfa_trunc_sqrt2"),
        ("fft/ifft_mfa_trunc_sqrt2.c", "mpir_ifft_radix2_twiddle"), ("fft/ifft_mfa_trunc_sqrt2.c", "mpir_ifft_trunc1_twiddle"),
        ("fft/ifft_mfa_trunc_sqrt2.c", "mpir_ifft_mfa_trunc_sqrt2"),
        ("fft/mul_trunc_sqrt2.c", "mpn_mul_trunc_sqrt2")]
TRUSTED = ["hand-written value-level models of the fft/ transforms in lean/Mpir/Model/FftX.lean (coefficients as integers, every C step a ring "
           "operation modulo 2^(64*limbs)+1; run against the library on every check, whole coefficient array compared on canonical residues)"]
ASSUMPTIONS = ["MFA: the forward transform is proved (fft_mfa_trunc_sqrt2_permuted_dft: both half matrices of the model hold the values of the plain sqrt2 transform in the "
               "permutation (row j, column t) -> rev(j + n2*t); ingredients fft_radix2_twiddle_bitrev_dft, fft_trunc1_twiddle_prefix, mfa_passes_dft); the inverse MFA transform "
               "(model + op fftx_imfa), the outer/inner variants and mpn_mul_mfa_trunc_sqrt2 as a whole (mpn_mulmod_Bexpp1 pointwise) are run only",
               "mpir_fft_mulmod_2expp1 / fft_naive_convolution_1 / the negacyclic transforms (the FFT branch of mpn_mulmod_2expp1_basecase, taken for n > FFT_MULMOD_2EXPP1_CUTOFF "
               "limbs) are not modelled: mul_trunc_sqrt2_val is about the model whose pointwise product is the non-FFT basecase branch with mpn_mul_n exact",
               "the transform theorems are about the value-level models; that the limb-level code computes these ring operations is proved per primitive "
               "(part c01_fftring) and checked for the composed transforms by the differential run only (no limb-level theorem about a whole transform: "
               "top-limb growth across layers is not tracked)"]
RULE = ("transforms: depth 0..5 (2..64 coefficients) x limbs 1..4 for radix2 / inverse / trunc1 / trunc / inverse truncs with EVERY even trunc; sqrt2 transforms with w even "
        "at depth 0..4 and with w odd (the real sqrt2 butterflies: n*w a multiple of 64 needs n >= 64) at depth 6, w in {1,3}, every even trunc in (2n,4n] at w = 1; "
        "MFA transforms for every n1 = 2..n and every trunc multiple of 2*n1, w even at depth 1..4 and w odd at depth 6; coefficient arrays all zero, one non-zero entry, "
        "the residues 0, 1, -1, p-1 = 2^(nw) (top limb 1), all-ones limbs, zero above trunc (the precondition of fft_trunc) and non-zero above it, uniform and long-run limbs "
        "with top limbs 0, +-1, +-2; mpn_mul_trunc_sqrt2 at depth 1..7 with operands filling j1+j2-1 = 4n, 2n+1, below 2n, all-ones operands (largest coefficient sums)")

def tc(v): return v % B

def residue(rng, limbs, kind=None):
    kind = kind or rng.choice(["zero", "one", "m1", "pm1", "ones", "uniform", "uniform", "runs", "top"])
    if kind == "zero": return [0] * (limbs + 1)
    if kind == "one": return [1] + [0] * limbs
    if kind == "m1": return [M] * limbs + [tc(-1)]                 # -1 as the C leaves it after a borrow
    if kind == "pm1": return [0] * limbs + [1]                     # p - 1 = 2^(64 limbs): the special top-limb-1 form
    if kind == "ones": return [M] * limbs + [0]
    if kind == "runs": return rand_limbs(rng, limbs, "runs") + [0]
    if kind == "top": return rand_limbs(rng, limbs, "uniform") + [tc(rng.choice([1, -1, 2, -2]))]
    return rand_limbs(rng, limbs, "uniform") + [0]

def array(rng, cnt, limbs, pattern, trunc=None):
    """cnt residues; entries from `trunc` on are zero when trunc is given"""
    live = cnt if trunc is None else trunc
    if pattern == "zero": a = [[0] * (limbs + 1) for _ in range(cnt)]
    elif pattern == "delta":
        a = [[0] * (limbs + 1) for _ in range(cnt)]; a[rng.randrange(live)] = residue(rng, limbs, rng.choice(["one", "m1", "pm1", "uniform"]))
    elif pattern in ("one", "m1", "pm1", "ones"): a = [residue(rng, limbs, pattern) for _ in range(cnt)]
    elif pattern == "mixed": a = [residue(rng, limbs) for _ in range(cnt)]
    else: a = [residue(rng, limbs, "uniform") for _ in range(cnt)]
    if trunc is not None:
        for i in range(trunc, cnt): a[i] = [0] * (limbs + 1)
    return [x for r in a for x in r]

PATTERNS = ["zero", "delta", "one", "m1", "pm1", "ones", "mixed", "uniform"]

def gen_ops(rng, tier, ctx=None):
    thorough = tier != "quick"
    rep = 3 if thorough else 1
    # ---- revbin: every value at bits <= 6 (tables for bits <= 4, the loop above), samples above
    for bits in range(0, 7):
        for x in range(1 << bits): yield "fftx_revbin %x %x" % (x, bits)
    for bits in range(7, 21):
        for x in sorted({0, 1, (1 << bits) - 1, 1 << (bits - 1), rng.randrange(1 << bits), rng.randrange(1 << bits)}):
            yield "fftx_revbin %x %x" % (x, bits)
    # ---- radix-2 transform and inverse: depth 0..5, limbs 1..4
    for d in range(0, 6):
        n = 1 << d
        for limbs in (1, 2, 3, 4):
            w = 64 * limbs // n
            pats = PATTERNS + ["uniform", "mixed"] * rep
            if not thorough and limbs == 3: pats = ["mixed", "uniform", "pm1"]
            for pat in pats:
                yield "fftx_radix2 %x %x %s" % (d, w, vec(array(rng, 2 * n, limbs, pat)))
                yield "fftx_iradix2 %x %x %s" % (d, w, vec(array(rng, 2 * n, limbs, pat)))
    # ---- truncated transforms: every even trunc
    for d in range(0, 6):
        n = 1 << d
        for limbs in ((1, 2, 3, 4) if thorough or d <= 3 else (1, 2)):
            w = 64 * limbs // n
            for trunc in range(2, 2 * n + 1, 2):
                for pat in (["mixed", "uniform", "pm1", "m1", "delta"] if d <= 3 or thorough else ["mixed", "uniform"]):
                    yield "fftx_trunc1 %x %x %x %s" % (d, w, trunc, vec(array(rng, 2 * n, limbs, pat)))
                    yield "fftx_trunc %x %x %x %s" % (d, w, trunc, vec(array(rng, 2 * n, limbs, pat, trunc)))      # the precondition: zero from trunc on
                    yield "fftx_itrunc1 %x %x %x %s" % (d, w, trunc, vec(array(rng, 2 * n, limbs, pat)))
                    yield "fftx_itrunc %x %x %x %s" % (d, w, trunc, vec(array(rng, 2 * n, limbs, pat)))
                yield "fftx_trunc %x %x %x %s" % (d, w, trunc, vec(array(rng, 2 * n, limbs, "mixed")))                 # non-zero above trunc: same code path
    # ---- sqrt2 transforms, w even (delegates to the truncated transform of twice the length): depth 0..4
    for d in range(0, 5):
        n = 1 << d
        for limbs in (1, 2, 4) if not thorough else (1, 2, 3, 4):
            w = 64 * limbs // n
            for trunc in range(2 * n + 2, 4 * n + 1, 2):
                for pat in ["mixed", "uniform"]:
                    yield "fftx_trunc_sqrt2 %x %x %x %s" % (d, w, trunc, vec(array(rng, 4 * n, limbs, pat, trunc)))
                    yield "fftx_itrunc_sqrt2 %x %x %x %s" % (d, w, trunc, vec(array(rng, 4 * n, limbs, pat)))
    # ---- sqrt2 transforms, w odd: n*w = 64*limbs needs n >= 64
    for d, w, truncs in [(6, 1, range(130, 257, 2)), (6, 3, sorted({130, 132, 190, 192, 194, 254, 256} | {2 * rng.randrange(65, 129) for _ in range(4 * rep)}))] + \
                        ([(7, 1, sorted({258, 384, 386, 510, 512} | {2 * rng.randrange(129, 257) for _ in range(6)}))] if thorough else [(7, 1, [258, 386, 512])]):
        n = 1 << d; limbs = n * w // 64
        for trunc in truncs:
            for pat in (["mixed", "pm1"] if trunc % 32 == 0 else ["mixed"]):
                yield "fftx_trunc_sqrt2 %x %x %x %s" % (d, w, trunc, vec(array(rng, 4 * n, limbs, pat, trunc)))
                yield "fftx_itrunc_sqrt2 %x %x %x %s" % (d, w, trunc, vec(array(rng, 4 * n, limbs, pat)))
    # ---- matrix Fourier transforms: every n1, every trunc multiple of 2*n1
    cases = [(d, 64 * limbs // (1 << d)) for d in range(1, 5) for limbs in ((1, 2) if not thorough else (1, 2, 3))] + [(6, 1)] + ([(6, 3), (7, 1)] if thorough else [])
    for d, w in cases:
        n = 1 << d; limbs = n * w // 64
        n1 = 2
        while n1 <= n:
            truncs = list(range(2 * n + 2 * n1, 4 * n + 1, 2 * n1))
            if d >= 6 and len(truncs) > 6: truncs = sorted(set(truncs[:2] + truncs[-2:] + [rng.choice(truncs) for _ in range(2 * rep)]))
            for trunc in truncs:
                for pat in (["mixed", "uniform"] if d < 6 else ["mixed"]):
                    yield "fftx_mfa %x %x %x %x %s" % (d, w, n1, trunc, vec(array(rng, 4 * n, limbs, pat, trunc)))
                    yield "fftx_imfa %x %x %x %x %s" % (d, w, n1, trunc, vec(array(rng, 4 * n, limbs, pat)))
            n1 *= 2
    # ---- the whole multiplication through the transforms
    def mulcases(depth, w):
        n = 1 << depth; bits1 = (n * w - (depth + 1)) // 2
        maxbits = 4 * n * bits1                        # j1 + j2 - 1 <= 4n  <=  total bits <= about 4n*bits1
        out = []
        tot = maxbits // 64
        for (n1, n2) in [(tot // 2, tot - tot // 2), (tot - 1, 1), (1, 1), (max(tot // 4, 1), max(tot // 4, 1)), (max(tot // 2 - 1, 1), max(tot // 2 - 1, 1)),
                         (rng.randrange(1, tot), 0), (rng.randrange(1, tot), 0)]:
            if n2 == 0: n2 = rng.randrange(1, max(tot - n1, 1) + 1)
            j1 = (64 * n1 - 1) // bits1 + 1; j2 = (64 * n2 - 1) // bits1 + 1
            while j1 + j2 - 1 > 4 * n and n1 + n2 > 2:
                if n1 >= n2: n1 -= 1
                else: n2 -= 1
                j1 = (64 * n1 - 1) // bits1 + 1; j2 = (64 * n2 - 1) // bits1 + 1
            if j1 + j2 - 1 <= 4 * n and n1 >= 1 and n2 >= 1: out.append((n1, n2))
        return out
    for depth, w in [(1, 32), (1, 64), (2, 16), (2, 32), (3, 8), (3, 16), (4, 4), (4, 8), (4, 12), (5, 2), (5, 4), (6, 1), (6, 2), (6, 3)] + ([(7, 1), (7, 2), (8, 1)] if thorough else [(7, 1)]):
        for n1, n2 in mulcases(depth, w):
            for cls in (["ones", "uniform", "runs"] if depth <= 6 else ["ones", "uniform"]):
                u, v = rand_limbs(rng, n1, cls), rand_limbs(rng, n2, cls)
                yield "fftx_mul_trunc_sqrt2 %x %x %s %s" % (depth, w, vec(u), vec(v))

def nontrivial(line):
    op = line.split(" ", 1)[0]
    if not op.startswith("fftx_"): return None
    return line
