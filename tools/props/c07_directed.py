"""C07 part (integrator): special gcdext cases AT the algorithm crossovers, and gcd operands in the half-gcd-reduce regime.
The manual's special cases (|b| = 2g, a = ±b, b | a) are decided at three different code sites depending on the operand size
(Lehmer tie-break below GCDEXT_DC_THRESHOLD, the divide-and-conquer exit at it, the subdivision hook above)."""
from props import c07_gcd as base
from genlib import *

def gen_ops(rng, tier, ctx=None):
    th = base.thresholds(ctx)
    T = th["GCDEXT_DC_THRESHOLD"]
    for n in sorted({T - 2, T - 1, T, T + 1, T + 2, th["GCD_DC_THRESHOLD"] - 1, th["GCD_DC_THRESHOLD"], th["GCD_DC_THRESHOLD"] + 1}):
        if n < 1: continue
        for _ in range(2 if tier == "quick" else 8):
            g = 0
            for k, x in enumerate(rand_limbs(rng, n, rng.choice(["uniform", "runs"]))): g |= x << (64 * k)
            g |= 1 << (64 * n - 1)                       # top bit set: 2g has exactly n+1 limbs
            for k in (1, 2, 3):
                for sa in (1, -1):
                    for sb in (1, -1):
                        yield "mpz_gcdext 0 %s %s" % (hx(sa * (2 * k + 1) * g), hx(sb * 2 * g))      # |b| = 2g
            yield "mpz_gcdext 0 %s %s" % (hx(g), hx(-g))                                               # |a| = |b|
            yield "mpz_gcdext 0 %s %s" % (hx(7 * g), hx(g))                                            # b | a
            yield "mpz_gcdext 0 %s %s" % (hx(g), hx(5 * g))
    # half-gcd reduction regime: mpn_hgcd_reduce multiplies (a;b) by M^-1 modulo B^modn - 1 only when mpn_hgcd is entered with
    # n >= HGCD_REDUCE_THRESHOLD limbs, i.e. gcd operands about three times as long.  V = X^16 - 1 with X = t*2^m has a run of
    # 16m one-bits, so the end-around carries of the wrap-around folds fire; U = (X-1)*u fills the same number of limbs.
    R = th.get("HGCD_REDUCE_THRESHOLD", 6852)
    cases = [(3 * R + 444, 0.9227)] if tier == "quick" else [(3 * R + 444, 0.9227), (3 * R + 3444, 0.9227), (3 * R + 444, 0.75), (3 * R + 1500, 0.5), (4 * R, 0.96)]
    for N, frac in cases:
        K = int(N * frac) // 16 * 16
        m = 4 * K
        tbits = (64 * (N - K) - 15) // 16
        t = rng.getrandbits(tbits - 100) | 1 << (tbits - 1)
        X = t << m
        V = X ** 16 - 1; g0 = X - 1
        ub = 64 * N - g0.bit_length()
        u = rng.getrandbits(ub) | 1 << (ub - 1) | 1
        U = g0 * u
        yield "mpz_gcd 0 %s %s" % (hx(U), hx(V))
        if tier != "quick":
            yield "mpz_gcd 0 %s %s" % (hx(V), hx(-U))
            yield "mpz_gcdext 0 %s %s" % (hx(U), hx(V))
            yield "mpz_invert 0 %s %s" % (hx(u), hx(V))
            a = rng.getrandbits(64 * N); b = rng.getrandbits(64 * N)
            yield "mpz_gcd 0 %s %s" % (hx(a), hx(b))

    # remainder chains built backwards from chosen quotient SIZES: consecutive huge quotients make the half-gcd fail to make
    # progress, so the sub-quadratic loops are left with very unbalanced a, b (cofactor recovery with a shorter than the cofactor)
    def rl(n):
        x = rng.getrandbits(64 * n) | 1 << (64 * n - 1) | 1
        return x
    pats = [[145, 120, 3], [100, 200, 1], [60, 60, 60, 60, 60], [2, 330], [330, 2], [170, 1, 170], [40, 1, 1, 1, 300], [250, 90, 5, 5]]
    if tier != "quick": pats += [[rng.randrange(1, 200) for _ in range(rng.randrange(2, 6))] for _ in range(40)]
    for pat in pats:
        for bs in ((80, 200), (5, 30), (T // 2, T // 2 + 3)):
            lo, hi = rl(bs[0]), rl(bs[1])
            for qs in pat:
                lo, hi = hi, rl(qs) * hi + lo
            r1, r0 = lo, hi
            yield "mpz_gcdext 0 %s %s" % (hx(r0), hx(r1))
            yield "mpz_gcdext 0 %s %s" % (hx(-r1), hx(r0))
            f = rl(2)
            yield "mpz_gcdext 0 %s %s" % (hx(r0 * f), hx(r1 * f))
            yield "mpz_gcd 0 %s %s" % (hx(r0), hx(r1))
            yield "mpz_invert 0 %s %s" % (hx(r1), hx(r0))

    # mpz_jacobi with a numerator of exactly twice as many limbs as the denominator and scratch beyond the 64 KB alloca limit
    # (the quotient area of the initial reduction is then a heap block checked by the exact-size allocator)
    for an, bn in ([(8200, 4100)] if tier == "quick" else [(8200, 4100), (8201, 4100), (10000, 5000), (12000, 6000)]):
        b = rng.getrandbits(64 * bn) | 1 | 1 << (64 * bn - 1)
        a = rng.getrandbits(64 * an) | 1 << (64 * an - 1)
        yield "mpz_jacobi %s %s" % (hx(a), hx(b))
