"""C07 part (integrator): special gcdext cases AT the algorithm crossovers, and gcd operands in the half-gcd-reduce regime.
The manual's special cases (|b| = 2g, a = ±b, b | a) are decided at three different code sites depending on the operand size
(Lehmer tie-break below GCDEXT_DC_THRESHOLD, the divide-and-conquer exit at it, the subdivision hook above)."""
from props import c07_gcd as base
from genlib import *

def gen_ops(rng, tier, ctx=None):
    th = base.thresholds(ctx)
    T = th["GCDEXT_DC_THRESHOLD"]
    for n in sorted({T - 2, T - 1, T, T + 1, T + 2, th["GCD_DC_THRESHOLD"] - 1, th["GCD_DC_THRESHOLD"], th["GCD_DC_THRESHOLD"] + 1}):
        if n < 1: continue
        for _ in range(2 if tier == "quick" else 8):
            g = 0
            for k, x in enumerate(rand_limbs(rng, n, rng.choice(["uniform", "runs"]))): g |= x << (64 * k)
            g |= 1 << (64 * n - 1)                       # top bit set: 2g has exactly n+1 limbs
            for k in (1, 2, 3):
                for sa in (1, -1):
                    for sb in (1, -1):
                        yield "mpz_gcdext 0 %s %s" % (hx(sa * (2 * k + 1) * g), hx(sb * 2 * g))      # |b| = 2g
            yield "mpz_gcdext 0 %s %s" % (hx(g), hx(-g))                                               # |a| = |b|
            yield "mpz_gcdext 0 %s %s" % (hx(7 * g), hx(g))                                            # b | a
            yield "mpz_gcdext 0 %s %s" % (hx(g), hx(5 * g))
    if tier == "thorough":
        # half-gcd reduction regime (HGCD_REDUCE_THRESHOLD limbs inside mpn_hgcd needs gcd operands about three times as long),
        # with long all-ones runs so that the wrap-around carries of the mod B^n-1 products fire
        R = th.get("HGCD_REDUCE_THRESHOLD", 6852)
        for N in (3 * R + 500, 3 * R + 3500):
            m = 64 * (N // 16); t = rng.getrandbits(64) | 1
            X = t << m
            V = X ** 16 - 1; U = (X - 1) * (rng.getrandbits(64 * 50) | 1)
            yield "mpz_gcd 0 %s %s" % (hx(U), hx(V))
            a = rng.getrandbits(64 * N); b = rng.getrandbits(64 * N)
            yield "mpz_gcd 0 %s %s" % (hx(a), hx(b))
