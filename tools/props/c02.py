"""C02 — main module (parts: c02_*.py are merged automatically)."""
LEVEL = "proof"
LEAN_MODULES = []
THEOREMS = []
TRUSTED = []
ASSUMPTIONS = []
LEVEL_TEXT = 'Lean theorems about the word-level inverse/division primitives (all 64-bit words), the single-limb division kernels (all lengths) and the rounding/sign/adjust logic of every mpz division wrapper (all signs, d=0 cases); models run against the rebuilt library with dividends constructed backwards from (q,d,r) to hit the rare correction branches.'
LEVEL_NOTE = 'Schoolbook mpn_sb_div_qr, mpn_sb_divappr_q (quotient floor or floor+1) and mpn_sb_div_q (exact, with its fix-up code) are proved limb for limb (parts c02_sb, c02_sbq); mpn_dc_div_qr_n/mpn_dc_div_qr/mpn_dc_div_q at value level over the schoolbook contract (c02_dc); the glue of mpn_tdiv_qr/mpn_divrem (c02_tdivqr) and mpn_tdiv_q (c02_tdivq) limb for limb over the callee contracts. Differential only: mpn_dc_divappr_q internals (mulmid), Newton (inv_*) division, assembly divrem_2/divrem_euclidean kernels.'
PLACEHOLDER = True
