"""C02 — division: exact quotient/remainder with the documented rounding.
Main module; the generators, theorem lists and translators live in the parts tools/props/c02_*.py."""
LEVEL = "proof"
LEAN_MODULES = []
THEOREMS = []
TRUSTED = []
ASSUMPTIONS = ["x86_64, 64-bit limbs, no nails, default configure; thresholds from mpn/x86_64/gmp-mparam.h"]
RULE = "see parts"
LEVEL_TEXT = ("Kernel-checked Lean theorems state, for all 64-bit words and all lengths, that the models of MPIR's division "
              "primitives and kernels return the exact Euclidean quotient and remainder (or the documented exact-division result); "
              "the executable models are run against the rebuilt library on every check on inputs constructed to reach every correction branch.")
LEVEL_NOTE = ("Trusted: Lean kernel; the arithmetic meaning of the inline-asm word primitives; hand-written models are tied to the C by "
              "differential execution, not by translation; assembly kernels are modelled by their generic C counterparts.")
