"""C02 — main module (parts: c02_*.py are merged automatically)."""
LEVEL = "proof"
LEAN_MODULES = []
THEOREMS = []
TRUSTED = []
ASSUMPTIONS = []
LEVEL_TEXT = 'Lean theorems about the word-level inverse/division primitives (all 64-bit words), the single-limb division kernels (all lengths) and the rounding/sign/adjust logic of every mpz division wrapper (all signs, d=0 cases); models run against the rebuilt library with dividends constructed backwards from (q,d,r) to hit the rare correction branches.'
LEVEL_NOTE = "mpn_inv_* (Newton) division (mpn_is_invert and the pieces of mpn_inv_div_qr_n are proved, their composition and the other inv_ routines are not) and assembly divrem_2 are assumed contracts; assembly kernels by correspondence; mpn_mulmid proved exact in C01 part c01_mulmid."
PLACEHOLDER = True
