"""C02 — division: exact quotient/remainder with the documented rounding (parts: c02_*.py)."""
LEVEL = "proof"
LEAN_MODULES = []
THEOREMS = []
TRUSTED = []
ASSUMPTIONS = []
LEVEL_TEXT = "see parts"
LEVEL_NOTE = "see parts"
