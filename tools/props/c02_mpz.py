"""C02 part: mpz division layer and multi-limb mpn division (models: lean/Mpir/Model/DivZ.lean)."""
import os, re
from genlib import *

LEVEL = "proof"
LEAN_MODULES = ["MpirProofs.Props.C02_mpz"]
THEOREMS = ["Mpir.DivZ." + t for t in """
tdiv_qr_spec tdiv_q_spec tdiv_r_spec fdiv_qr_spec cdiv_qr_spec fdiv_q_spec cdiv_q_spec fdiv_r_spec cdiv_r_spec mod_nonneg
q_ui_return_abs_r r_ui_return_abs_r qr_ui_return_abs_r ui_return_abs_r spec_dirs div_by_zero_raises
cfdiv_q_2exp_spec cfdiv_r_2exp_spec tdiv_q_2exp_spec tdiv_r_2exp_spec
divexact_spec divexact_ui_spec divisible_p_iff divisible_p_zero divisible_ui_p_iff divisible_2exp_p_iff
congruent_p_iff congruent_p_zero congruent_ui_p_iff mpn_tdiv_qr_contract
""".split()]
TRUSTED = ["hand-written models lean/Mpir/Model/DivZ.lean of the mpz division wrappers (tied by correspondence on every run)",
           "callee specifications used inside the wrapper models: mpn_tdiv_qr/mpn_tdiv_q/mpn_divrem_1/mpn_mod_1 = Nat div/mod, "
           "mpn_divexact(_1) = exact quotient, mpn_divisible_p / mpn_modexact_1c_odd tests = divisibility, mpz_add/sub(_ui) = Int arithmetic",
           "multi-limb mpn division functions (tdiv_qr, divrem, tdiv_q, sb/dc/inv div, divappr, bdiv, divexact) are compared with the mathematical quotient/remainder, their limb-level bookkeeping is not modelled (except sb_div_qr)"]
ASSUMPTIONS = ["64-bit limbs, no nails, BITS_PER_UI == GMP_NUMB_BITS (two-limb branches of the _ui files are compiled out)",
               "mpz_divexact is only exercised with d | n and d != 0 (the manual defines nothing else; the C has no d = 0 test)"]
RULE = ("dividends built backwards from (q,d,r): r in {0,1,|d|-1,random}; q with limbs B-1/0; dividend top limbs equal to divisor top limbs; "
        "divisors B^k/2, B^k-1, B^k/2+1 and their right shifts by 1..63; short quotients qn in {1,2,3} with dn up to 200; sizes +-2 around the "
        "division thresholds of gmp-mparam.h; all four sign combinations; every alias mode the manual permits; _ui divisors 1,2,3,2^63,2^64-1; "
        "2exp counts 0,1,63,64,65,1000; d = 0 for every function that defines it; distinct = distinct op lines")

def thresholds(ctx):
    base = getattr(ctx, "build", None) or os.environ.get("VERIF_REPO", "/repo")
    t = {}
    try:
        for m in re.finditer(r"#define\s+(\w+_THRESHOLD)\s+(\d+)", open(os.path.join(base, "gmp-mparam.h")).read()):
            t[m.group(1)] = int(m.group(2))
    except OSError:
        pass
    return t

def val(l):
    v = 0
    for i, x in enumerate(l): v |= x << (64 * i)
    return v

def rand_mag(rng, n, cls=None):
    """n-limb magnitude with a non-zero top limb"""
    if n == 0: return 0
    v = val(rand_limbs(rng, n, cls or rng.choice(["uniform", "runs", "ones", "sparse", "top"])))
    if v >> (64 * (n - 1)) == 0: v |= rng.choice([1, 1 << 63, M]) << (64 * (n - 1))
    return v

def divisors(rng, k):
    """special divisors with k limbs"""
    bk = 1 << (64 * k)
    base = [bk >> 1, bk - 1, (bk >> 1) + 1]
    yield from base
    for b in base:
        for s in range(1, 64):
            d = b >> s
            if d: yield d

def quotients(rng, qn):
    if qn == 0: yield 0; return
    yield (1 << (64 * qn)) - 1                                     # all limbs B-1
    yield 1 << (64 * (qn - 1))                                     # top limb 1, rest 0
    yield val([rng.choice([0, M]) for _ in range(qn - 1)] + [rng.choice([1, M])])
    yield rand_mag(rng, qn, "uniform")
    yield rand_mag(rng, qn, "runs")

def remainders(rng, d):
    yield 0
    if d > 1:
        yield 1; yield d - 1; yield rng.randrange(d)

QR_OPS = ["mpz_tdiv_qr", "mpz_fdiv_qr", "mpz_cdiv_qr"]
Q_OPS = ["mpz_tdiv_q", "mpz_fdiv_q", "mpz_cdiv_q"]
R_OPS = ["mpz_tdiv_r", "mpz_fdiv_r", "mpz_cdiv_r", "mpz_mod"]
QMODES = [0, 1, 2]; RMODES = [0, 3, 4]; QRMODES = [0, 1, 2, 3, 4, 5, 6]

def signs(rng, all4):
    return [(1, 1), (1, -1), (-1, 1), (-1, -1)] if all4 else [rng.choice([(1, 1), (1, -1), (-1, 1), (-1, -1)])]

def mpz_pair_ops(rng, n, d, all_ops=False, all4=False):
    """op lines for one (|n|, |d|) pair"""
    for sn, sd in signs(rng, all4):
        N, D = sn * n, sd * d
        if all_ops:
            for op in QR_OPS:
                for m in QRMODES: yield "%s %x %s %s" % (op, m, hx(N), hx(D))
            for op in Q_OPS:
                for m in QMODES: yield "%s %x %s %s" % (op, m, hx(N), hx(D))
            for op in R_OPS:
                for m in RMODES: yield "%s %x %s %s" % (op, m, hx(N), hx(D))
        else:
            yield "%s %x %s %s" % (rng.choice(QR_OPS), rng.choice(QRMODES), hx(N), hx(D))
            yield "%s %x %s %s" % (rng.choice(Q_OPS), rng.choice(QMODES), hx(N), hx(D))
            yield "%s %x %s %s" % (rng.choice(R_OPS), rng.choice(RMODES), hx(N), hx(D))

def same_var_ops(rng, n):
    """dividend and divisor are the same variable (modes 7-9)"""
    for N in (n, -n):
        for op in QR_OPS:
            for m in (7, 8, 9): yield "%s %x %s 0" % (op, m, hx(N))
        for op in Q_OPS + ["mpz_divexact"]:
            for m in (7, 8): yield "%s %x %s 0" % (op, m, hx(N))
        for op in R_OPS:
            for m in (7, 9): yield "%s %x %s 0" % (op, m, hx(N))

def gen_mpz_div(rng, tier, T):
    quick = tier == "quick"
    # 1. systematic small shapes, all ops, all modes, all signs
    for dn in (1, 2, 3):
        for qn in (0, 1, 2):
            d = rand_mag(rng, dn); q = rand_mag(rng, qn) if qn else 0
            for r in remainders(rng, d):
                yield from mpz_pair_ops(rng, q * d + r, d, all_ops=True, all4=True)
    # tiny values: every (n, d) in a small square, signs included, rotating ops
    for n in range(0, 8):
        for d in range(1, 6):
            yield from mpz_pair_ops(rng, n, d, all_ops=False, all4=True)
    # 2. division by zero, zero dividend
    for N in (0, 1, -1, rand_int(rng, 3), -(1 << 64)):
        for op in QR_OPS: yield "%s %x %s 0" % (op, rng.choice(QRMODES), hx(N))
        for op in Q_OPS: yield "%s %x %s 0" % (op, rng.choice(QMODES), hx(N))
        for op in R_OPS: yield "%s %x %s 0" % (op, rng.choice(RMODES), hx(N))
        d = rand_mag(rng, rng.randrange(1, 4))
        yield from mpz_pair_ops(rng, 0, d, all_ops=True, all4=True)
    yield from same_var_ops(rng, 0)
    for k in (1, 2, 5): yield from same_var_ops(rng, rand_mag(rng, k))
    # 3. special divisors (all shifts) with special quotients and remainders
    ks = [1, 2, 3, 4] if quick else [1, 2, 3, 4, 5, 8]
    for k in ks:
        for d in divisors(rng, k):
            qn = rng.choice([1, 2, 3, k, k + 1])
            q = rng.choice(list(quotients(rng, qn)))
            r = rng.choice(list(remainders(rng, d)))
            yield from mpz_pair_ops(rng, q * d + r, d)
            # dividend whose top limbs equal the divisor's: q = B^j - 1, r = d - 1
            j = rng.randrange(1, 4)
            yield from mpz_pair_ops(rng, (d << (64 * j)) - 1, d)
    # 4. sizes around the crossovers, every special quotient/remainder
    cross = sorted(set(T.get(k, v) for k, v in (("DC_DIV_QR_THRESHOLD", 50), ("DC_DIVAPPR_Q_THRESHOLD", 21), ("DC_DIV_Q_THRESHOLD", 65))))
    dns = sorted(set(c + e for c in cross for e in (-2, -1, 0, 1, 2)))
    for dn in dns:
        for qn in sorted(set([1, 2, dn - 1, dn, dn + 1, 2 * dn, 2 * dn + 1])):
            if qn < 1: continue
            d = rand_mag(rng, dn, rng.choice(["uniform", "runs"]))
            if rng.random() < 0.5: d |= 1 << (64 * dn - 1)
            for q in (list(quotients(rng, qn))[:3] if quick else quotients(rng, qn)):
                r = rng.choice(list(remainders(rng, d)))
                yield from mpz_pair_ops(rng, q * d + r, d)
    # 5. quotient much shorter than the divisor
    dnl = [3, 4, 5, 7, 10, 20, 49, 50, 51, 100, 200] if quick else list(range(3, 60)) + [64, 65, 66, 100, 127, 128, 150, 199, 200]
    for dn in dnl:
        for qn in (1, 2, 3):
            d = rand_mag(rng, dn, rng.choice(["uniform", "runs", "ones"]))
            sh = rng.choice([0, 0, rng.randrange(1, 64)])
            d >>= sh
            if d == 0: d = 1
            for q in quotients(rng, qn):
                for r in ([0, d - 1] if quick else remainders(rng, d)):
                    yield from mpz_pair_ops(rng, q * d + r, d)
            # estimate too large: divisor high part all ones below a normalised top, dividend just below q*d
            dd = (1 << (64 * dn - 1 - sh)) + (1 << (64 * (dn - qn))) - 1
            q = (1 << (64 * qn)) - 1
            yield from mpz_pair_ops(rng, q * dd - 1, dd)
            yield from mpz_pair_ops(rng, q * dd + dd - 1, dd)
    # 6. random shapes
    for _ in range(300 if quick else 3000):
        dn = rng.choice([1, 2, 3, 4, 5, 6, 8, 12, 20, 30]); qn = rng.choice([0, 1, 2, 3, 5, 9, 20, 40])
        d = rand_mag(rng, dn); q = rand_mag(rng, qn) if qn else 0; r = rng.randrange(d)
        yield from mpz_pair_ops(rng, q * d + r, d)
    if not quick:
        big = sorted(set(T.get(k, v) + e for k, v in (("INV_DIV_Q_THRESHOLD", 998), ("INV_DIV_QR_THRESHOLD", 1589)) for e in (-2, 0, 2)))
        for dn in big:
            for qn in (3, dn, 2 * dn + 3):
                d = rand_mag(rng, dn, "uniform"); q = rand_mag(rng, qn, "uniform"); r = rng.choice([0, 1, d - 1, rng.randrange(d)])
                yield from mpz_pair_ops(rng, q * d + r, d)
    # 7. exact division
    for _ in range(150 if quick else 1500):
        dn = rng.choice([1, 1, 2, 3, 5, 18, 19, 20, 53, 54, 55]); qn = rng.choice([1, 2, 3, 10, 20, 60])
        d = rand_mag(rng, dn); q = rng.choice(list(quotients(rng, qn)))
        if rng.random() < 0.3: d <<= rng.randrange(1, 130)       # low zero bits/limbs
        sn, sd = rng.choice([(1, 1), (1, -1), (-1, 1), (-1, -1)])
        yield "mpz_divexact %x %s %s" % (rng.choice(QMODES), hx(sn * q * d), hx(sd * d))
    yield "mpz_divexact 0 0 5"; yield "mpz_divexact 1 0 -5"; yield "mpz_divexact 2 0 %s" % hx(1 << 200)

UI_DIVS = [1, 2, 3, 1 << 63, M, 10, (1 << 32), (1 << 32) - 1, (1 << 63) + 1, 6, 1 << 20]
def gen_ui(rng, tier):
    quick = tier == "quick"
    fams = ["t", "f", "c"]
    def lines(N, u):
        for f in fams:
            yield "mpz_%sdiv_q_ui %x %s %x" % (f, rng.choice([0, 1]), hx(N), u)
            yield "mpz_%sdiv_r_ui %x %s %x" % (f, rng.choice([0, 3]), hx(N), u)
            yield "mpz_%sdiv_qr_ui %x %s %x" % (f, rng.choice([0, 1, 3]), hx(N), u)
            yield "mpz_%sdiv_ui %s %x" % (f, hx(N), u)
        yield "mpz_mod_ui %x %s %x" % (rng.choice([0, 3]), hx(N), u)
    for u in UI_DIVS + [rng.getrandbits(64) | 1 for _ in range(4)] + [rand_limb(rng) or 7 for _ in range(6)]:
        for qn in (0, 1, 2, 3, rng.randrange(4, 40)):
            for q in quotients(rng, qn):
                for r in remainders(rng, u):
                    n = q * u + r
                    for N in (n, -n): yield from lines(N, u)
                if quick: break
    # every alias mode explicitly on one case per family
    for f in fams:
        n = rand_mag(rng, 3); u = rng.getrandbits(64) | 1
        for N in (n, -n):
            for m in (0, 1): yield "mpz_%sdiv_q_ui %x %s %x" % (f, m, hx(N), u)
            for m in (0, 3): yield "mpz_%sdiv_r_ui %x %s %x" % (f, m, hx(N), u)
            for m in (0, 1, 3): yield "mpz_%sdiv_qr_ui %x %s %x" % (f, m, hx(N), u)
    # division by zero
    for N in (0, 5, -5, rand_int(rng, 4)):
        yield from lines(N, 0)
        yield "mpz_divexact_ui %x %s 0" % (rng.choice([0, 1]), hx(N))
    # exact division by a limb
    for u in UI_DIVS + [rng.getrandbits(64) | 1 for _ in range(6)] + [rng.getrandbits(60) << rng.randrange(1, 4) or 8 for _ in range(4)]:
        for qn in (0, 1, 2, 5, rng.randrange(6, 50)):
            q = rng.choice(list(quotients(rng, qn)))
            for N in (q * u, -q * u):
                yield "mpz_divexact_ui %x %s %x" % (rng.choice([0, 1]), hx(N), u)

CNTS = [0, 1, 63, 64, 65, 1000, 2, 62, 127, 128, 129, 192]
def gen_2exp(rng, tier):
    quick = tier == "quick"
    ops = [("mpz_tdiv_q_2exp", 1), ("mpz_fdiv_q_2exp", 1), ("mpz_cdiv_q_2exp", 1), ("mpz_tdiv_r_2exp", 3), ("mpz_fdiv_r_2exp", 3), ("mpz_cdiv_r_2exp", 3)]
    for cnt in CNTS + [rng.randrange(0, 400) for _ in range(4 if quick else 40)]:
        lows = [0, 1, (1 << cnt) - 1, 1 << max(cnt - 1, 0), rng.getrandbits(cnt) if cnt else 0, (1 << cnt) - (1 << (cnt // 64 * 64))]
        highs = [0, 1, M, 1 << 63, rand_mag(rng, 2), (1 << 128) - 1, rand_mag(rng, rng.randrange(1, 6))]
        for lo in lows:
            lo &= (1 << cnt) - 1
            for hi in highs:
                n = (hi << cnt) | lo
                for N in (n, -n):
                    for op, al in ops:
                        yield "%s %x %s %x" % (op, rng.choice([0, al]), hx(N), cnt)
                    yield "mpz_divisible_2exp_p %s %x" % (hx(N), cnt)

def gen_pred(rng, tier):
    quick = tier == "quick"
    # divisible_p
    for _ in range(150 if quick else 1500):
        dn = rng.choice([1, 1, 2, 3, 5, 20, 60]); qn = rng.choice([0, 1, 2, 3, 30])
        d = rand_mag(rng, dn) << rng.choice([0, 0, 1, 7, 64, 70])
        q = rand_mag(rng, qn) if qn else 0
        for r in (0, 1, d - 1, d >> 1, 1 << rng.randrange(0, d.bit_length())):
            r %= d
            sn, sd = rng.choice([(1, 1), (1, -1), (-1, 1), (-1, -1)])
            yield "mpz_divisible_p %s %s" % (hx(sn * (q * d + r)), hx(sd * d))
    for a in (0, 1, -1, 1 << 64, rand_int(rng, 4)):
        yield "mpz_divisible_p %s 0" % hx(a)
        yield "mpz_divisible_ui_p %s 0" % hx(a)
        yield "mpz_congruent_p %s %s 0" % (hx(a), hx(a))
        yield "mpz_congruent_p %s %s 0" % (hx(a), hx(a + 1))
        yield "mpz_congruent_p %s %s 0" % (hx(a), hx(-a))
        if 0 <= a < B:
            yield "mpz_congruent_ui_p %s %x 0" % (hx(a), a)
        yield "mpz_congruent_ui_p %s %x 0" % (hx(a), 5)
        yield "mpz_congruent_ui_p %s %x 0" % (hx(a), 0)
    # divisible_ui_p: even divisors with low zero bits, a agreeing / disagreeing on them
    for u in UI_DIVS + [rng.getrandbits(64) | 1 for _ in range(4)] + [(rng.getrandbits(50) | 1) << rng.randrange(1, 14) for _ in range(8)]:
        for qn in (0, 1, 2, 7, 40):
            q = rand_mag(rng, qn) if qn else 0
            for r in (0, 1, u - 1, u >> 1, (u & -u), u - (u & -u)):
                r %= u
                for N in (q * u + r, -(q * u + r)):
                    yield "mpz_divisible_ui_p %s %x" % (hx(N), u)
    # congruent_p
    def cong_cases(d):
        for cn in (0, 1, 1, 2, 5):
            c = rand_mag(rng, cn) if cn else 0
            k = rand_mag(rng, rng.choice([0, 1, 2, 6])) if rng.random() < 0.8 else 0
            for sc in (1, -1):
                for e in (0, 1, -1, d >> 1, (d & -d)):
                    a = sc * c + rng.choice([1, -1]) * k * d + e
                    yield a, sc * c
                    yield sc * c, a
    ds = [1, 2, 3, 8, M, 1 << 63, (1 << 64), (1 << 64) + 1, 3 << 64, (5 << 64) | (1 << 63), (1 << 70), (3 << 62) | (1 << 66), (7 << 61) + (1 << 61) * 8]
    ds += [rand_mag(rng, k) for k in (1, 1, 2, 2, 3, 6)] + [rand_mag(rng, 1) << rng.randrange(1, 64) for _ in range(6)]
    ds += [(rng.getrandbits(64 - t) | 1 | (1 << (63 - t))) << t for t in (1, 2, 17, 40, 63)]       # 2-limb d whose odd part is one limb
    for d in ds:
        for a, c in cong_cases(d):
            yield "mpz_congruent_p %s %s %s" % (hx(a), hx(c), hx(rng.choice([d, -d])))
    # congruent_ui_p
    for u in UI_DIVS + [rng.getrandbits(64) | 1 for _ in range(4)] + [(rng.getrandbits(50) | 1) << rng.randrange(1, 14) for _ in range(6)]:
        for qn in (0, 1, 2, 9):
            q = rand_mag(rng, qn) if qn else 0
            for c in (0, 1, u - 1, u, min(u + 1, M), M, rng.getrandbits(64)):
                for e in (0, 1, u >> 1, (u & -u)):
                    for sg in (1, -1):
                        a = c + sg * q * u + e
                        yield "mpz_congruent_ui_p %s %x %x" % (hx(a), c, u)
    # congruent_2exp_p
    for cnt in CNTS + [rng.randrange(0, 300) for _ in range(4 if quick else 30)]:
        for cn in (0, 1, 2, 3, 5):
            c = rand_mag(rng, cn) if cn else 0
            if rng.random() < 0.4 and cn: c = (c >> rng.randrange(0, 64 * cn)) << rng.randrange(0, 64 * cn)   # low zero limbs
            for sc in (1, -1):
                for kn in (0, 1, 2, 4):
                    k = rand_mag(rng, kn) if kn else 0
                    for e in (0, 1 << max(cnt - 1, 0), 1, 1 << cnt >> 1 << 1 if cnt else 0):
                        for sk in (1, -1):
                            a = sc * c + sk * (k << cnt) + (e if cnt else 0)
                            x, y = (a, sc * c) if rng.random() < 0.5 else (sc * c, a)
                            yield "mpz_congruent_2exp_p %s %s %x" % (hx(x), hx(y), cnt)
        # a = -c exactly and a = -c + 2^cnt multiples with long ones-complement runs
        c = rand_mag(rng, 3)
        yield "mpz_congruent_2exp_p %s %s %x" % (hx(-c), hx(c + (1 << cnt) * rand_mag(rng, 2)), cnt)
        yield "mpz_congruent_2exp_p %s %s %x" % (hx((1 << cnt) - c), hx(-c), cnt)
        yield "mpz_congruent_2exp_p %s %s %x" % (hx((1 << cnt) - 1), hx(-1), cnt)
        yield "mpz_congruent_2exp_p %s %s %x" % (hx((1 << (cnt + 64)) - 5), hx(-5), cnt)

def gen_ops(rng, tier, ctx=None):
    T = thresholds(ctx)
    yield from gen_mpz_div(rng, tier, T)
    yield from gen_ui(rng, tier)
    yield from gen_2exp(rng, tier)
    yield from gen_pred(rng, tier)
    yield from gen_mpn(rng, tier, T)

def norm_divisors(rng, dn):
    """normalised dn-limb divisors: the three special ones and random classes"""
    bk = 1 << (64 * dn)
    yield bk >> 1; yield bk - 1; yield (bk >> 1) + 1
    yield rand_mag(rng, dn, "uniform") | (bk >> 1)
    yield rand_mag(rng, dn, "runs") | (bk >> 1)
    yield (bk >> 1) | ((1 << (64 * (dn - 1))) - 1)          # top limb 2^63, all ones below
    yield (bk - 1) ^ ((1 << (64 * (dn - 2))) - 1) if dn > 2 else bk - 1   # two top limbs B-1, zeros below

def dividends(rng, d, dn, qn):
    """values < B^(dn+qn) built backwards from (q, d, r), plus dividends whose top limbs equal the divisor's"""
    top = 1 << (64 * (dn + qn))
    for q in quotients(rng, qn):
        for r in (0, 1, d - 1, rng.randrange(d)):
            n = q * d + r
            if n < top: yield n
    if qn >= 1:
        yield (d << (64 * qn)) - 1 if (d << (64 * qn)) - 1 < top else top - 1        # q = B^qn - 1, r = d - 1 (n1 == d1 all the way)
        yield min(top - 1, (d << (64 * qn)) + rng.getrandbits(64 * qn))             # qh = 1
        yield min(top - 1, d << (64 * qn))                                           # qh = 1, rest zero
        yield ((d >> 128) << (128 + 64 * qn)) | rng.getrandbits(64 * qn + 128) if dn > 2 else rng.getrandbits(64 * (dn + qn))   # top limbs equal, rest random
        yield rng.getrandbits(64 * (dn + qn))
        yield top - 1
    else:
        yield d; yield d - 1; yield min(top - 1, d + 1); yield rng.getrandbits(64 * dn)

def gen_mpn(rng, tier, T):
    quick = tier == "quick"
    V = lambda v, n: vec(limbs_of(v, n))
    # --- public entry points: any divisor with a non-zero top limb
    shapes = [(dn, qn) for dn in (1, 2, 3, 4, 5, 8) for qn in (0, 1, 2, 3, 7)]
    cross = sorted(set(T.get(k, v) for k, v in (("DC_DIV_QR_THRESHOLD", 50), ("DC_DIVAPPR_Q_THRESHOLD", 21), ("DC_DIV_Q_THRESHOLD", 65))))
    for c in cross:
        for e in (-2, -1, 0, 1, 2):
            for qn in (1, 3, c + e - 1, c + e, 2 * (c + e) + 1): shapes.append((c + e, max(qn, 0)))
    shapes += [(dn, qn) for dn in (10, 20, 49, 51, 100, 200) for qn in (1, 2, 3)]
    if not quick:
        shapes += [(dn, qn) for dn in range(3, 70) for qn in (0, 1, 2, 3, 4, 5, 6, dn // 2, dn - 2, dn - 1, dn, dn + 1, 2 * dn)]
        for k, v in (("INV_DIV_Q_THRESHOLD", 998), ("INV_DIV_QR_THRESHOLD", 1589)):
            for e in (-2, 0, 2): shapes += [(T.get(k, v) + e, 3), (T.get(k, v) + e, T.get(k, v) + e + 1), (7, 2 * T.get(k, v) + e)]
    for dn, qn in shapes:
        ds = list(norm_divisors(rng, dn))
        if quick and dn > 8: ds = [rng.choice(ds[:3]), ds[3], ds[4]]
        elif dn > 8: ds = [rng.choice(ds[:3]), ds[3], ds[4], rng.choice(ds[5:])]
        for d0 in ds:
            sh = rng.choice([0, 0, rng.randrange(1, 64)]) if dn > 1 or d0 >> 1 else 0
            d = d0 >> sh
            if d >> (64 * (dn - 1)) == 0: d = d0
            ns = list(dividends(rng, d, dn, qn))
            if dn + qn > 12: ns = rng.sample(ns, min(4 if quick else 7, len(ns)))
            for n in ns:
                nn = dn + qn
                if qn >= 1 and n >> (64 * (nn - 1)) == 0 and rng.random() < 0.5: nn -= 1     # tdiv_qr writes nn-dn+1 limbs
                if nn < dn: nn = dn
                yield "mpn_tdiv_qr %s %s" % (V(n, nn), V(d, dn))
                yield "mpn_tdiv_q %s %s" % (V(n, nn), V(d, dn))
                if d == d0:
                    yield "mpn_divrem %s %s %x" % (V(n, dn + qn), V(d, dn), rng.choice([0, 0, 0, 1, 2, 5]))
    yield "mpn_tdiv_qr [1,2,3] []"; yield "mpn_tdiv_qr [] []"
    # --- internal entry points: normalised divisors
    def internal(ops, dn, qn):
        ds = list(norm_divisors(rng, dn))
        if quick and dn > 8: ds = [rng.choice(ds[:3]), ds[3], rng.choice(ds[4:])]
        elif dn > 8: ds = [rng.choice(ds[:3]), ds[3], ds[4], rng.choice(ds[5:])]
        for d in ds:
            ns = list(dividends(rng, d, dn, qn))
            if dn + qn > 12: ns = rng.sample(ns, min(5 if quick else 8, len(ns)))
            for n in ns:
                for op in ops:
                    if qn == 0 and "divappr" in op: continue        # the divappr functions store at least one quotient limb
                    yield "%s %s %s" % (op, V(n, dn + qn), V(d, dn))
    sb = ["mpn_sb_div_qr", "mpn_sb_divappr_q"]
    for dn in [3, 4, 5, 6, 7, 9, 16, 33] + ([] if quick else list(range(10, 60, 7))):
        for qn in [0, 1, 2, 3, dn - 1, dn, dn + 1, 2 * dn + 1] + ([] if quick else [5, 3 * dn]):
            yield from internal(sb, dn, qn)
    dcs = sorted(set(T.get(k, v) + e for k, v in (("DC_DIV_QR_THRESHOLD", 50), ("DC_DIVAPPR_Q_THRESHOLD", 21), ("INV_DIVAPPR_Q_N_THRESHOLD", 50)) for e in (-2, -1, 0, 1, 2)))
    dc = ["mpn_dc_div_qr", "mpn_dc_divappr_q", "mpn_inv_div_qr", "mpn_inv_divappr_q", "mpn_sb_div_qr", "mpn_sb_divappr_q"]
    for dn in [6, 7, 8, 13] + dcs + [100] + ([] if quick else [64, 65, 127, 128, 129, 200, 300]):
        for qn in sorted(set([3, 4, 5, dn // 2, dn - 1, dn, dn + 1, dn + 2, 2 * dn, 2 * dn + 3] + ([] if quick else [3 * dn + 1, 5 * dn]))):
            if qn < 3: continue
            yield from internal(dc, dn, qn)
    for dn in (6, 20):
        for qn in (1, 2): yield from internal(["mpn_inv_divappr_q", "mpn_sb_div_qr"], dn, qn)
    # --- Hensel division: odd divisors
    bd = sorted(set(T.get(k, v) + e for k, v in (("DC_BDIV_QR_THRESHOLD", 54), ("DC_BDIV_Q_THRESHOLD", 19)) for e in (-1, 0, 1)))
    for dn in [1, 2, 3, 4, 7] + bd + ([] if quick else [30, 110, 120]):
        for qn in sorted(set([0, 1, 2, dn - 1, dn, dn + 1, 2 * dn, 2 * dn + 1, 3 * dn + 2])):
            if qn < 0: continue
            for cls in (["uniform", "ones"] if quick else ["uniform", "ones", "runs", "lowbit"]):
                d = rand_mag(rng, dn, cls) | 1
                n = rng.choice([rng.getrandbits(64 * (dn + qn)), rand_mag(rng, qn, "uniform") * d if qn else 0, (1 << (64 * (dn + qn))) - 1])
                n &= (1 << (64 * (dn + qn))) - 1
                yield "mpn_sb_bdiv_q %s %s" % (V(n, dn + qn), V(d, dn))
                if dn >= 2 and qn >= 1: yield "mpn_dc_bdiv_qr %s %s" % (V(n, dn + qn), V(d, dn))
    # --- exact division: low zero limbs / bits in d, even and odd quotients
    for dn in [1, 2, 3, 6, 7, 8] + bd + ([] if quick else [30, 100, 200]):
        for qn in (1, 2, 3, dn, 2 * dn + 1):
            for _ in range(2 if quick else 4):
                d = rand_mag(rng, dn) if rng.random() < 0.7 else (rand_mag(rng, max(dn - 1, 1)) << rng.randrange(1, 70)) & ((1 << (64 * dn)) - 1)
                if d >> (64 * (dn - 1)) == 0: d |= 1 << (64 * (dn - 1))
                q = rng.choice(list(quotients(rng, qn)))
                n = q * d
                nn = dn + qn - (1 if n >> (64 * (dn + qn - 1)) == 0 and rng.random() < 0.7 else 0)
                yield "mpn_divexact %s %s" % (V(n, nn), V(d, dn))
    # large exact divisions: the inv_divappr_q branch of mpn_divexact (qn or dn >= INV_DIV_QR_THRESHOLD, dn > 6);
    # quotient B^qn - 1 with an unnormalised divisor makes the approximate quotient overflow
    L = T.get("INV_DIV_QR_THRESHOLD", 1589)
    for dn, qn in ((7, L + 1), (L, 3), (L + 1, L)) if not quick else ((7, L + 1), (L, 3)):
        for sh in (0, 1, 37):
            d = (rand_mag(rng, dn, "uniform") | (1 << (64 * dn - 1))) >> sh
            for q in ((1 << (64 * qn)) - 1, rand_mag(rng, qn, "uniform"), rand_mag(rng, qn, "uniform") << 1, 1 << (64 * qn - 1)):
                n = q * d
                nn = max(dn, (n.bit_length() + 63) // 64)
                yield "mpn_divexact %s %s" % (V(n, nn), V(d, dn))
                yield "mpz_divexact 0 %s %s" % (hx(n), hx(-d))

def nontrivial(line):
    return line if len(line) > 30 else None

LEVEL_TEXT = ("Kernel-checked Lean theorems state, for all dividends and all non-zero divisors (all signs, every alias pattern the manual permits), that the "
              "models of the mpz division wrappers return exactly the truncating / floor / ceiling quotient and remainder, that the _ui forms return |r|, "
              "that the _2exp, mod, divexact, divisible and congruent forms agree with them (including d = 0), and that a zero divisor raises; the models are "
              "run against the rebuilt library on every check with dividends constructed backwards from (q,d,r).")
LEVEL_NOTE = ("Trusted: Lean kernel; the wrapper models are hand-written mirrors of mpz/*.c tied by differential execution; inside them the mpn callees are "
              "replaced by their specification; the multi-limb mpn division code is compared against the mathematical quotient, not proved.")
