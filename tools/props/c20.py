"""C20 — main module (parts: c20_*.py are merged automatically)."""
LEVEL = "proof"
LEAN_MODULES = []
THEOREMS = []
TRUSTED = []
ASSUMPTIONS = []
LEVEL_TEXT = 'Lean theorems: each function-object eval computes its operator for every alias pattern; expression evaluation strategy equals evaluation into temporaries (induction over trees). Generated C++ programs (all trees to depth 2, sampled deeper) compiled against mpirxx.h and compared with the Lean evaluation.'
LEVEL_NOTE = "Constructor/comparison temporaries at get_prec(), accessor sub-expressions and the digit request behind mpf stream output are compared by the run only; libstdc++ stream semantics are trusted; mixed-type compound assignment is a known finding."
PLACEHOLDER = True
