"""C03 part: the mpz object layer of add/sub/add_ui/sub_ui/ui_sub/neg/abs/mul_2exp/set/swap
(sign, size, allocation, aliasing on top of the mpn kernels).  Merged into C03 by tools/check.py."""
from genlib import *

LEAN_MODULES = ["MpirProofs.Props.C03_mpz"]
THEOREMS = ["Mpir.Mpz.mpz_add_exact", "Mpir.Mpz.mpz_sub_exact", "Mpir.Mpz.mpz_add_ui_exact", "Mpir.Mpz.mpz_sub_ui_exact",
            "Mpir.Mpz.mpz_ui_sub_exact", "Mpir.Mpz.mpz_neg_exact", "Mpir.Mpz.mpz_abs_exact", "Mpir.Mpz.mpz_mul_2exp_exact",
            "Mpir.Mpz.mpz_set_exact", "Mpir.Mpz.mpz_swap_exact", "Mpir.Mpz.mpz_add_alias_ok"]
TRUSTED = ["hand-written object-layer model lean/Mpir/Model/Mpz.lean (mirrors mpz/aors.h, aors_ui.h, ui_sub.c, neg.c, abs.c, "
           "set.c, swap.c, mul_2exp.c; tied by correspondence on every run)"]
ASSUMPTIONS = ["the mpz model is value-level: limbs of a block above |size| are not represented, and aliasing enters only through "
               "the destination's allocation and the identity tests the C makes; stale-pointer and in-place read-after-write "
               "errors are looked for by the differential run over every alias mode, not excluded by a theorem",
               "_mp_size/_mp_alloc are unbounded in the model (32-bit int in C)"]
RULE = ("mpz layer: operand sizes 0..12 x 0..12 limbs exhaustively over {4 sign combinations} x {uniform, equal magnitude, differ in the low limb only, "
        "differ in one middle limb, power of B minus small, all-ones plus one (full carry chain), runs/sparse}, sparse sizes to 300; ui operands 0,1,2^63,2^64-1, "
        "the operand's own low limb +-1; shift counts 0,1,63,64,65,127,128,1000 and random; every alias mode (0 distinct, 1 rop=1st, 2 rop=2nd, 3 inputs same, 4 all same)")

UIS = [0, 1, 2, 1 << 63, M, M - 1, (1 << 63) - 1, 1 << 32]
SHIFTS = [0, 1, 63, 64, 65, 127, 128, 1000]

def mag(l):
    v = 0
    for i, x in enumerate(l): v |= x << (64 * i)
    return v

def rand_mag(rng, n, cls=None):
    """a magnitude of exactly n limbs (top limb non-zero); n = 0 gives 0"""
    if n == 0: return 0
    l = rand_limbs(rng, n, cls or rng.choice(["uniform", "uniform", "runs", "sparse", "ones", "top", "onebit"]))
    if l[-1] == 0: l[-1] = rng.choice([1, M, 1 << 63, rng.getrandbits(64) | 1])
    return mag(l)

def mag_pairs(rng, un, vn):
    """(class name, |u|, |v|) with |u| of un limbs and |v| of vn limbs, directed at the branches of aors.h"""
    yield "uniform", rand_mag(rng, un, "uniform"), rand_mag(rng, vn, "uniform")
    yield "mixed", rand_mag(rng, un), rand_mag(rng, vn)
    if un == vn and un > 0:
        a = rand_mag(rng, un)
        yield "equal", a, a
        lo = a & M
        b = a - lo + (lo ^ (1 << rng.randrange(64)))          # same limbs except the lowest
        if b >> (64 * (un - 1)): yield "lowdiff", a, b
        k = rng.randrange(un)                                  # limbs above k equal: cancellation to k+1 limbs or fewer
        hi = a >> (64 * (k + 1)) << (64 * (k + 1))
        b = hi | rand_mag(rng, k + 1, "uniform") if k + 1 < un else rand_mag(rng, un, "uniform")
        if b >> (64 * (un - 1)) or k + 1 == un: yield "middiff", a, b
        yield "ones", (1 << (64 * un)) - 1, 1 if un > 1 else M   # carry out of the top limb
    elif un > vn:
        yield "powB", 1 << (64 * (un - 1)), rand_mag(rng, vn)                 # borrow through zero limbs, result one limb shorter
        yield "ones", (1 << (64 * un)) - 1, max(1, rand_mag(rng, vn, rng.choice(["lowbit", "ones"])))   # carry chain to the top
        if vn: yield "ones2", (1 << (64 * un)) - 1, (1 << (64 * vn)) - 1
    elif un < vn:
        yield "powB", rand_mag(rng, un), 1 << (64 * (vn - 1))
        yield "ones", max(1, rand_mag(rng, un, rng.choice(["lowbit", "ones"]))), (1 << (64 * vn)) - 1

def size_pairs(rng, tier):
    for un in range(13):
        for vn in range(13):
            yield un, vn
    big = [13, 16, 17, 18, 31, 32, 33, 64, 100, 200, 300]
    for _ in range(30 if tier == "quick" else 300):
        un = rng.choice(big + [rng.randrange(13, 301)]); vn = rng.choice([0, 1, 2, un, max(0, un - 1), rng.randrange(0, un + 1), rng.choice(big)])
        yield (un, vn) if rng.random() < 0.5 else (vn, un)

def gen_ops(rng, tier, ctx=None):
    # mpz_add / mpz_sub
    for un, vn in size_pairs(rng, tier):
        for cls, a, b in mag_pairs(rng, un, vn):
            for sa in (1, -1):
                for sb in (1, -1):
                    u, v = sa * a, sb * b
                    for op in ("mpz_add", "mpz_sub"):
                        m = rng.choice([0, 1, 2])
                        yield "%s %x %s %s" % (op, m, hx(u), hx(v))
        a = rand_mag(rng, un)                                   # the same variable twice
        for sa in (1, -1):
            for op in ("mpz_add", "mpz_sub"):
                yield "%s %x %s %s" % (op, rng.choice([3, 4]), hx(sa * a), hx(sa * a))
    for op in ("mpz_add", "mpz_sub"):
        for m in range(5):
            yield "%s %x 0 0" % (op, m)
    # mpz_add_ui / mpz_sub_ui / mpz_ui_sub
    for n in list(range(13)) + [17, 33, 100, 300]:
        ops = []
        for cls in ("uniform", "ones", "powB", "lowonly", "mixed"):
            if n == 0: a = 0
            elif cls == "ones": a = (1 << (64 * n)) - 1
            elif cls == "powB": a = 1 << (64 * (n - 1))
            elif cls == "lowonly": a = (1 << (64 * (n - 1))) | rng.getrandbits(64) if n > 1 else rng.getrandbits(64) | 1
            else: a = rand_mag(rng, n, None if cls == "mixed" else "uniform")
            lo = a & M
            uis = UIS + [lo, (lo + 1) & M, (lo - 1) & M, rng.getrandbits(64), rng.getrandbits(rng.randrange(1, 65))]
            if tier == "quick" and n > 4: uis = rng.sample(uis, 6)
            for ui in uis:
                for s in (1, -1):
                    for op in ("mpz_add_ui", "mpz_sub_ui"):
                        yield "%s %x %s %x" % (op, rng.choice([0, 1]), hx(s * a), ui)
                    yield "mpz_ui_sub %x %x %s" % (rng.choice([0, 1]), ui, hx(s * a))
    for op in ("mpz_add_ui", "mpz_sub_ui"):
        for m in (0, 1):
            for ui in (0, 1, M):
                yield "%s %x 0 %x" % (op, m, ui)
                yield "mpz_ui_sub %x %x 0" % (m, ui)
    # mpz_neg / mpz_abs / mpz_set / mpz_swap
    for n in list(range(13)) + [17, 100, 300]:
        for _ in range(2):
            a = rand_mag(rng, n); b = rand_mag(rng, rng.choice([0, 1, n, n + 1, rng.randrange(0, 13)]))
            for s in (1, -1):
                for m in (0, 1):
                    yield "mpz_neg %x %s" % (m, hx(s * a))
                    yield "mpz_abs %x %s" % (m, hx(s * a))
                    yield "mpz_set %x %s" % (m, hx(s * a))
                yield "mpz_swap 0 %s %s" % (hx(s * a), hx(-b if rng.random() < 0.5 else b))
                yield "mpz_swap 3 %s %s" % (hx(s * a), hx(s * a))
    # mpz_mul_2exp
    for n in list(range(13)) + [17, 100, 300]:
        for cls in ("hightop", "lowtop", "mixed"):
            a = rand_mag(rng, n)
            if n:
                top = a >> (64 * (n - 1)); rest = a & ((1 << (64 * (n - 1))) - 1)
                if cls == "hightop": top |= 1 << 63            # every shift 1..63 spills into a new limb
                if cls == "lowtop": top = 1                    # no shift 1..63 spills
                a = (top << (64 * (n - 1))) | rest
            cnts = SHIFTS + [rng.randrange(0, 64), rng.randrange(64, 700), 64 * rng.randrange(1, 12)]
            if tier == "quick" and n > 6: cnts = rng.sample(cnts, 5)
            for c in cnts:
                for s in (1, -1):
                    yield "mpz_mul_2exp %x %s %x" % (rng.choice([0, 1]), hx(s * a), c)
    for m in (0, 1):
        for c in SHIFTS: yield "mpz_mul_2exp %x 0 %x" % (m, c)
    if tier == "thorough":
        for c in range(0, 130):
            a = rand_mag(rng, rng.randrange(1, 5))
            yield "mpz_mul_2exp %x %s %x" % (rng.choice([0, 1]), hx(rng.choice([1, -1]) * a), c)

def nontrivial(line):
    return line if line.startswith("mpz_") and len(line) > 24 else None

# source pins: the C the Lean model mirrors (see tools/pins.py)
PINS = [('mpz/aors.h', None), ('mpz/aors_ui.h', None), ('mpz/ui_sub.c', None), ('mpz/neg.c', None), ('mpz/abs.c', None), ('mpz/mul_2exp.c', None), ('mpz/set.c', None), ('mpz/swap.c', None)]
