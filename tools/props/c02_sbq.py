"""C02 part: mpn_sb_divappr_q and mpn_sb_div_q — limb-for-limb models lean/Mpir/Model/SbDivQ.lean compared verbatim with the
real functions (ops `sb_divappr_q`, `sb_div_q`; harness/ops_sbdivq.c), theorems MpirProofs/Props/C02_sbq.lean.

Directed recipes (from the case analysis of the proofs, MpirProofs/Lemmas/SbDivQ*.lean).  With d = the divisor after the initial
cut to min(dn, qn+1) limbs, d_j = its top j+2 limbs (the divisor of the step that produces quotient limb j < dn-2), the partial
remainder entering step j is W_j = q_j*d_j + R_j and the next one is W_(j-1) = R_j:
 * truncation "ruins normalisation" (sb_divappr_q.c:133-142, :201-206: all remaining limbs B-1): R_(j+1) = d_(j+1) - e with
   1 <= e <= lowest limb of d_(j+1);
 * q = B-1 step (:144-155): R_(j+1) = B*d_j - e, e small;  cy == d1 with n1 < d0 (:156-164): R_(j+1) = d1*B^(j+2) + small;
 * add-back (:107-113, :176-182): R_j = d_j - e with e <= (q_j+1)*(d_j without its two top limbs);
 * sb_div_q `flag = 0` (:131, :179): divisor limbs all ones and R_(j+1) = d_(j+1) - e;
 * sb_div_q fix-up (:202-298): final remainder with top limb < dn: dividends A*D + r with r tiny, 0, -1, and random tails.
The dividend is built backwards from the chosen (q_j, R_j) chain.  The python mirror below is run on every generated input; it
counts the branches taken (coverage.c02_sbq_model_branches) and its quotient is checked against floor(N/D) (sb_div_q: equal;
sb_divappr_q: equal or one more).
"""
import collections, random, sys, os
sys.path.insert(0, os.path.dirname(os.path.dirname(os.path.abspath(__file__))))
from genlib import *

LEAN_MODULES = ["MpirProofs.Props.C02_sbq"]
THEOREMS = ["Mpir.SbDivQ.sb_divappr_q_contract", "Mpir.SbDivQ.sb_divappr_q_ok", "Mpir.SbDivQ.daFinal_dead", "Mpir.SbDivQ.sb_div_q_exact"]
PINS = [("mpn/generic/sb_divappr_q.c", None), ("mpn/generic/sb_div_q.c", None), ("gmp-impl.h", "udiv_qr_3by2"),
        ("gmp-impl.h", "mpir_invert_pi1"), ("mpn/x86_64/longlong_inc.h", "sub_333")]
TRUSTED = ["hand-written limb-level models of mpn_sb_divappr_q / mpn_sb_div_q in lean/Mpir/Model/SbDivQ.lean (window form of the pointer walk; compared verbatim with the real functions on every run)"]
ASSUMPTIONS = ["both theorems carry the size hypothesis 2*dn + 2 <= 2^64 (sizes are mp_size_t): the accumulated truncation error (dn+1)*B^(dn-1) must stay below D",
               "sb_divappr_q: in __divappr_helper called from the truncating loop the memory cell whose value lives in the register `cy` is stale; only np[dn-2..dn] (which do not depend on it) are modelled and compared"]
RULE = ("sb_divappr_q / sb_div_q: dn in 3..9, 12, 16; qn in 0..2dn+2 (both sides of qn+1 = dn); dividends built backwards from a chosen chain of "
        "quotient limbs and partial remainders to force saturation, q = B-1 steps, add-backs, flag = 0 and the fix-up code at every position")

BR = collections.Counter()
def _val(l): return sum(x << (64 * i) for i, x in enumerate(l))
def _div32(n2, n1, n0, d1, d0): return divmod((n2 << 128) | (n1 << 64) | n0, (d1 << 64) | d0)
def _submul(mem, dl, q):
    """(limbs of mem - dl*q mod B^len, borrow limb)"""
    k = len(mem); t = _val(mem) - _val(dl) * q
    r = t % B ** k
    return limbs_of(r, k), (r - t) >> (64 * k)

# ---------------------------------------------------------------- mirror of Mpir.SbDivQ.sb_divappr_q
def _da_regular(dlo, d1, d0, alo, m0, n1, cy):
    q, rem = _div32(cy, n1, m0, d1, d0)
    w, cy1 = _submul(alo, dlo, q)
    t3 = (rem - cy1) % B ** 3
    return q, w, t3 >> 128, (t3 >> 64) & M, t3 & M
def _da_special(dp, mem, cy):
    r, bor = _submul(mem, dp, M)
    return M, r[:-2], (cy - bor) % B, r[-1], r[-2]
def _da_fix(dlo, d1, d0, s, tag):
    q, w, cy2, cy, n1 = s
    if cy2:
        BR[tag + "addback"] += 1
        k = len(w); t = _val(w) + _val(dlo)
        x = ((cy << 64 | n1) + (d1 << 64 | d0) + (t >> (64 * k))) % B ** 2
        return (q - 1) % B, limbs_of(t % B ** k, k), x >> 64, x & M
    return q, w, cy, n1
def _helper(mem, dp, k):
    hi = mem[1:k + 2]; dl = dp[:len(hi)]
    s = limbs_of((_val(hi) - _val(dl)) % B ** len(hi), len(hi))
    x = ((s[1] << 64 | s[0]) + dp[k]) % B ** 2
    v = _val([mem[0], x & M, x >> 64])
    for y in reversed(dp[:k]): v = (v + y) % B ** 3
    return limbs_of(v, 3)
def m_sb_divappr_q(n, d0l):
    nn, dn0 = len(n), len(d0l); qn0 = nn - dn0
    dp = d0l[dn0 - (qn0 + 1):] if qn0 + 1 < dn0 else d0l
    dn = len(dp)
    hi = n[nn - dn:]
    qh = 1 if _val(hi) >= _val(dp) else 0
    if qh: hi = limbs_of(_val(hi) - _val(dp), dn); BR["a:qh1"] += 1
    d1, d0 = dp[-1], dp[-2]
    xs = list(reversed(n[:nn - dn])); c1 = qn0 + 1 - dn
    w, cy, n1, qs = hi[:dn - 2], hi[dn - 1], hi[dn - 2], []
    for x in xs[:c1]:                                    # first loop
        a = [x] + w
        if cy == d1 and n1 == d0:
            BR["a:1special"] += 1; s = _da_special(dp, a + [n1], cy)
        else:
            BR["a:1regular"] += 1; s = _da_regular(dp[:dn - 2], d1, d0, a[:dn - 2], a[dn - 2], n1, cy)
        q, w, cy, n1 = _da_fix(dp[:dn - 2], d1, d0, s, "a:1")
        qs = [q] + qs
    m = [xs[c1]] + w
    for qn in range(dn - 2, 0, -1):                      # truncating loop
        if cy >= d1:
            mm = m + [n1]
            if cy > d1 or _val(mm[1:]) >= _val(dp[:qn + 1]):
                BR["a:2saturate"] += 1
                return [M] * (qn + 1) + qs, _helper(mm, dp, qn + 1), qh
            if n1 >= d0: BR["a:2special"] += 1; s = _da_special(dp, mm, cy)
            else: BR["a:2rare-regular"] += 1; s = _da_regular(dp[:qn], d1, d0, m[:qn], m[qn], n1, cy)
        else:
            BR["a:2regular"] += 1; s = _da_regular(dp[:qn], d1, d0, m[:qn], m[qn], n1, cy)
        q, m, cy, n1 = _da_fix(dp[:qn], d1, d0, s, "a:2")
        qs = [q] + qs; dp = dp[1:]
    m0 = m[0]
    if cy >= d1:
        if cy > d1 or n1 >= d0:
            BR["a:3saturate"] += 1
            return [M] + qs, _helper([m0, n1, cy], [d0, d1], 1), qh
        BR["a:3rare-regular"] += 1
    else: BR["a:3regular"] += 1
    q, rem = _div32(cy, n1, m0, d1, d0)
    return [q] + qs, [rem & M, rem >> 64, 0], qh

# ---------------------------------------------------------------- mirror of Mpir.SbDivQ.sb_div_q
def _dq_regular(dp, d1, d0, a, n1, tag):
    dn = len(dp) - 2
    q, rem = _div32(n1, a[dn + 1], a[dn], d1, d0)
    w, cy = _submul(a[:dn], dp[:dn], q)
    n1r, n0r = rem >> 64, rem & M
    cy1 = 1 if n0r < cy else 0; n0r = (n0r - cy) % B
    cy = 1 if n1r < cy1 else 0; n1r = (n1r - cy1) % B
    r = w + [n0r]
    if cy:
        BR[tag + "addback"] += 1
        t = _val(r) + _val(dp[:dn + 1])
        return (q - 1) % B, limbs_of(t % B ** (dn + 1), dn + 1), (n1r + d1 + (t >> (64 * (dn + 1)))) % B
    return q, r, n1r
def m_sb_div_q(n, d0l):
    nn, dn0 = len(n), len(d0l); qn0 = nn - dn0
    dp = d0l[dn0 - (qn0 + 1):] if qn0 + 1 < dn0 else d0l
    dn = len(dp)
    hi = n[nn - dn:]
    qh = 1 if _val(hi) >= _val(dp) else 0
    if qh: hi = limbs_of(_val(hi) - _val(dp), dn); BR["q:qh1"] += 1
    xs = list(reversed(n[:nn - dn])); c1 = qn0 + 1 - dn
    w, n1, qs, flag = hi[:dn - 1], hi[dn - 1], [], True
    if dn >= 2:
        d1, d0 = dp[-1], dp[-2]
        for x in xs[:c1]:
            a = [x] + w
            if n1 == d1 and a[dn - 1] == d0:
                BR["q:Aspecial"] += 1
                r, _ = _submul(a, dp, M); q, w, n1 = M, r[:dn - 1], r[dn - 1]
            else:
                BR["q:Aregular"] += 1; q, w, n1 = _dq_regular(dp, d1, d0, a, n1, "q:A")
            qs = [q] + qs
        a = [xs[c1]] + w
        for k in range(dn - 2, -1, -1):
            if n1 >= (d1 if flag else 0):
                r, cy = _submul(a, dp, M); q = M
                if n1 != cy:
                    if n1 < (cy if flag else 0):
                        BR["q:B-1 addback"] += 1; q = M - 1; r = limbs_of((_val(r) + _val(dp)) % B ** (k + 2), k + 2)
                    else:
                        BR["q:flag0" if flag else "q:flag0 again"] += 1; flag = False
                else: BR["q:B-1 exact"] += 1
                a, n1 = r[:k + 1], r[k + 1]
                if k == 0: a = r
            else:
                BR["q:Bregular"] += 1
                if k == 0:
                    q, rem = _div32(n1, a[1], a[0], d1, d0); a, n1 = [rem & M, rem >> 64], rem >> 64
                else: q, a, n1 = _dq_regular(dp, d1, d0, a, n1, "q:B")
            qs = [q] + qs; dp = dp[1:]
        y = a[0]
    else:
        y = n[nn - 2]
    if not (n1 < (dn0 if flag else 0)):
        if flag and n1 < dn0 + 2: BR["q:no fixup, n1 = dn or dn+1"] += 1
        return qs, qh
    BR["q:fixup"] += 1
    if n1 >= dn0 - 2: BR["q:fixup, n1 = dn-2 or dn-1"] += 1
    _fix_n1 = n1
    # fix-up, sb_div_q.c:203-298
    dp = d0l[dn0 - (qn0 + 1):] if qn0 + 1 < dn0 else d0l
    dn = len(dp); sft = dn0 - dn; x = n1
    low = n[:dn0 - 2]; r1 = low[sft:]
    def dec(qs):
        v = _val(qs) - 1
        return limbs_of(v % B ** len(qs), len(qs)), (1 if v < 0 else 0)
    for i in range(dn - 3, -1, -1):
        seg, cy = _submul(r1[i:], dp[:dn - i - 2], qs[i]); r1 = r1[:i] + seg
        if y < cy:
            if x == 0:
                BR["q:fix tri exit"] += 1
                if _fix_n1 >= dn0 - 2: BR["q:decrement with n1 >= dn-2"] += 1
                q2, c = dec(qs); assert c == 0
                return q2, qh
            BR["q:fix tri x--"] += 1; x -= 1
        y = (y - cy) % B
    qn = len(qs)
    if qn + 1 < dn0:
        mem = low[:sft] + r1 + [y]
        bor = 0
        if qh:
            t = _val(mem[qn:]) - _val(d0l[:sft]); bor = 1 if t < 0 else 0
            mem = mem[:qn] + limbs_of(t % B ** sft, sft)
        if bor and x == 0:
            BR["q:fix qh exit"] += 1
            if _fix_n1 >= dn0 - 2: BR["q:decrement with n1 >= dn-2"] += 1
            if qn: q2, c = dec(qs); return q2, (qh - c) % B
            return qs, (qh - bor) % B
        if bor: x -= 1; BR["q:fix qh x--"] += 1
        if qn == 0: return qs, qh
        for i in range(sft - 1, -1, -1):
            seg, cy = _submul(mem[i:i + qn], qs, d0l[i])
            t = _val(mem[qn + i:]) - cy; k = len(mem) - qn - i
            mem = mem[:i] + seg + limbs_of(t % B ** k, k)
            if t < 0:
                if x == 0:
                    BR["q:fix tail exit"] += 1
                    if _fix_n1 >= dn0 - 2: BR["q:decrement with n1 >= dn-2"] += 1
                    return dec(qs)[0], qh
                BR["q:fix tail x--"] += 1; x -= 1
    return qs, qh

# ---------------------------------------------------------------- generators
def _divisors(rng, dn):
    top = [1 << 63, M, (1 << 63) + 1, rng.getrandbits(64) | 1 << 63]
    nxt = [0, 1, M, rng.getrandbits(64)]
    yield [M] * dn
    yield [M] * (dn - 1) + [1 << 63]
    yield [0] * (dn - 1) + [1 << 63]
    for lowcls in ("ones", "uniform", "lowbit", "runs", "sparse"):
        yield rand_limbs(rng, dn - 2, lowcls) + [rng.choice(nxt), rng.choice(top)]

def _chain(rng, d, qn, kind):
    """top part X of a dividend (the qn + 2 limbs from position dn0-2 upwards, see the module docstring) built backwards.
    d: divisor after the cut (dn limbs); returns X or None"""
    dn = len(d); dv = _val(d)
    dj = lambda j: dv >> (64 * (dn - 2 - j))             # top j+2 limbs
    j = rng.randrange(0, dn - 1)                         # level of the forced remainder R_j (j = dn-2: after the exact phase)
    D = dj(j); c = D & M; dlo = D % B ** j
    qj = rng.choice([0, 1, M, M - 1, 1 << 63, rng.getrandbits(64)])
    if kind == "sat": R = D - (rng.choice([1, c, rng.randrange(1, c + 1)]) if c else 1)
    elif kind == "special":
        if j == 0: return None
        R = B * dj(j - 1) - rng.choice([1, 2, rng.randrange(1, 1 << 40)])
    elif kind == "rare": R = (D >> (64 * (j + 1))) << (64 * (j + 1)) | rng.getrandbits(20)
    elif kind == "addback": R = D - rng.choice([1, max(1, dlo), rng.randrange(1, 2 + (qj + 1) * dlo)])
    elif kind == "tiny": R = rng.choice([0, 1, rng.randrange(dn + 2), rng.getrandbits(64 * j + 3)])
    else: R = rng.randrange(D)
    if not (0 <= R < D): return None
    cur = R if j == dn - 2 else qj * D + R               # R_(j+1) = W_j
    for t in range(j + 1, dn - 1):
        if cur >= dj(t): return None
        if t < dn - 2: cur = rng.choice([0, 1, M, M - 1, rng.getrandbits(64)]) * dj(t) + cur
    k = qn - (dn - 2)                                    # exact phase: X = A*d + R_(dn-2), A on k limbs (+ qh)
    A = rng.getrandbits(64 * k)
    if rng.random() < 0.15: A = B ** k - 1
    if rng.random() < 0.1: A += B ** k
    X = A * dv + cur
    return X if X < B ** (qn + 2) else None

def gen_ops(rng, tier, ctx=None):
    quick = tier == "quick"
    def emit(nv, nn, d):
        n = limbs_of(nv, nn)
        Q = _val(n) // _val(d); out = []
        if nn > len(d):
            q, r3, qh = m_sb_divappr_q(n, d)
            got = _val(q) + (qh << (64 * (nn - len(d))))
            assert got in (Q, Q + 1), ("divappr", n, d)
            BR["a:exact" if got == Q else "a:one too large"] += 1
            out.append("sb_divappr_q %s %s" % (vec(n), vec(d)))
        q, qh = m_sb_div_q(n, d)
        assert _val(q) + (qh << (64 * (nn - len(d)))) == Q, ("div_q", n, d)
        out.append("sb_div_q %s %s" % (vec(n), vec(d)))
        return out
    kinds = ["sat", "special", "rare", "addback", "tiny", "random"]
    for dn0 in [3, 4, 5, 6, 7, 9] + ([12] if quick else [8, 12, 16, 24]):
        for D in _divisors(rng, dn0):
            Dv = _val(D)
            for qn in sorted(set([0, 1, 2, 3, dn0 - 2, dn0 - 1, dn0, dn0 + 1, 2 * dn0 + 2])):
                nn = dn0 + qn
                dn = min(dn0, qn + 1)
                d = D[dn0 - dn:]
                f = dn0 - 2                              # position of the lowest limb any window reaches
                for kind in kinds:
                    for rep in range(1 if quick else 3):
                        if qn == 0: break
                        X = _chain(rng, d, qn, kind)
                        if X is None: continue
                        low = rng.choice([0, B ** f - 1, rng.getrandbits(64 * f)]) if f else 0
                        nv = X * B ** f + low
                        if nv < B ** nn: yield from emit(nv, nn, D)
                # dividends around multiples of the full divisor (fix-up code of sb_div_q; one-too-large quotients of divappr)
                for r in (0, 1, -1, Dv - 1, rng.randrange(Dv), rng.randrange(1 << 64)):
                    A = rng.choice([rng.getrandbits(64 * qn + 1), B ** qn - 1, B ** qn, rng.getrandbits(64 * qn) | 1])
                    nv = A * Dv + r
                    if 0 <= nv < B ** nn: yield from emit(nv, nn, D)
                yield from emit(rng.getrandbits(64 * nn), nn, D)
                yield from emit(_val(rand_limbs(rng, nn, "runs")), nn, D)
        # the boundary of the test `n1 < dn` (sb_div_q.c:202): the ignored parts are largest (top limb of the remainder up to
        # dn-2) for divisors with all-ones low limbs, quotient limbs near B-1, qh = 1 and a cut of one or two limbs
        for top in (1 << 63, (1 << 63) + 1, M):
            D = [M] * (dn0 - 1) + [top]; Dv = _val(D)
            for qn in (dn0 - 2, dn0 - 3):
                if qn < 1: continue
                nn = dn0 + qn
                hiq = lambda: _val([rng.randrange(3 << 62, B) for _ in range(qn)])     # every quotient limb >= 3B/4
                for Q in [2 * B ** qn - 1, 2 * B ** qn - 2, B ** qn - 1, (B ** qn - 1) ^ rng.getrandbits(8)] + \
                         [B ** qn + rng.getrandbits(64 * qn) for _ in range(4)] + [B ** qn + hiq() for _ in range(4)]:
                    for r in (-1, -2, 0, 1, -rng.getrandbits(64), rng.getrandbits(64), -rng.getrandbits(64 * (dn0 - 1))):
                        nv = Q * Dv + r
                        if 0 <= nv < B ** nn: yield from emit(nv, nn, D)

def extra(ctx, cov):
    cov["c02_sbq_model_branches"] = dict(BR)
    return []

if __name__ == "__main__":
    tier = sys.argv[1] if len(sys.argv) > 1 else "quick"
    seed = int(sys.argv[2]) if len(sys.argv) > 2 else 1
    n = sum(1 for _ in gen_ops(random.Random(seed), tier))
    print("ops:", n)
    for k in sorted(BR): print("  %-22s %d" % (k, BR[k]))
