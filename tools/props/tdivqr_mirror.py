"""Python mirror of lean/Mpir/Model/TdivQr.lean (= mpn/generic/tdiv_qr.c and divrem.c), parametric in the limb width.

Used by tools/props/c02_tdivqr.py to COUNT the branches an input takes (64-bit limbs) and, standalone
(`python3 tools/props/tdivqr_mirror.py [bits]`), to run the mirror exhaustively on tiny limbs (bits = 2, 3) against Python's
divmod: this is how the structure of the Lean proof (which borrow can occur where, that mpn_sub_1 never leaves rp) was
validated before it was proved.  Not a property module (no THEOREMS): the name does not match c02_*.py on purpose.
"""
import collections, itertools, sys

class W:
    """limb width"""
    def __init__(s, bits=64):
        s.bits = bits; s.B = 1 << bits; s.M = s.B - 1; s.HB = 1 << (bits - 1)

def val(w, l): return sum(x << (w.bits * i) for i, x in enumerate(l))
def limbs(w, v, n):
    assert v >= 0
    return [(v >> (w.bits * i)) & w.M for i in range(n)]
def clz(w, x): return w.bits - x.bit_length()

def lshift(w, u, cnt):
    v = val(w, u) << cnt
    return limbs(w, v, len(u)), v >> (w.bits * len(u))
def rshift(w, u, cnt):
    return limbs(w, val(w, u) >> cnt, len(u))
def add_n(w, a, b):
    assert len(a) == len(b)
    v = val(w, a) + val(w, b)
    return limbs(w, v, len(a)), v >> (w.bits * len(a))
def sub_n(w, a, b):
    assert len(a) == len(b)
    v = val(w, a) - val(w, b)
    return limbs(w, v % w.B ** len(a), len(a)), 1 if v < 0 else 0
def sub(w, a, b):
    assert len(a) >= len(b)
    v = val(w, a) - val(w, b)
    return limbs(w, v % w.B ** len(a), len(a)), 1 if v < 0 else 0
def submul_1(w, r, u, v):
    assert len(r) == len(u)
    t = val(w, r) - val(w, u) * v
    lo = t % w.B ** len(r)
    return limbs(w, lo, len(r)), (lo - t) >> (w.bits * len(r))
def decr(w, u):
    v = val(w, u) - 1
    return limbs(w, v % w.B ** len(u), len(u)), 1 if v < 0 else 0

class Trace:
    def __init__(s): s.br = collections.Counter(); s.ok = True; s.code = 0
    def hit(s, k): s.br[k] += 1
    def fail(s, k): s.ok = False; s.br["FAIL:" + k] += 1

def div_qr(w, n, d, tr, who):
    """contract of the normalised inner divisions (sb / dc / inv / divrem_2): (q: nn-dn limbs, r: dn limbs, qh)"""
    nn, dn = len(n), len(d)
    assert d[-1] & w.HB and nn >= dn
    Q, R = divmod(val(w, n), val(w, d))
    qn = nn - dn
    return limbs(w, Q % w.B ** qn, qn), limbs(w, R, dn), Q >> (w.bits * qn)

def branch_code(w, n, d):
    """the branch token printed by both sides of the op tdiv_qr_model (computed from sizes and top limbs only)"""
    nn, dn = len(n), len(d)
    if dn == 1: return 1
    unnorm = 0 if d[-1] & w.HB else 1
    if dn == 2: return 2 + (1 - unnorm)                  # 2: unnormalised, 3: normalised
    adjust = 1 if n[-1] >= d[-1] else 0
    if nn + adjust >= 2 * dn: return 0x10 + 2 * unnorm + adjust
    qn = nn - dn + adjust
    if qn == 0: return 0x20
    return 0x100 + 0x10 * min(qn, 3) + 2 * unnorm + adjust

def tdiv_qr(w, n, d, tr=None, dc_thr=50, inv_thr=1589):
    """mirror of Mpir.TdivQr.tdiv_qr: returns (q, r); tr records branches; tr.ok False if an ASSERT of the C would fail
    or a limb outside rp would be touched"""
    tr = tr or Trace()
    nn, dn = len(n), len(d)
    tr.code = branch_code(w, n, d) if dn else 0
    if dn == 0: return None
    if dn == 1:
        tr.hit("dn1")
        Q, R = divmod(val(w, n), d[0])
        return limbs(w, Q, nn), [R]
    if dn == 2:
        if d[1] & w.HB == 0:
            cnt = clz(w, d[1])
            d2 = [(d[0] << cnt) & w.M, ((d[1] << cnt) & w.M) | (d[0] >> (w.bits - cnt))]
            n2, cy = lshift(w, n, cnt)
            n2 = n2 + [cy]
            tr.hit("dn2.unnorm.cy%d" % (1 if cy else 0))
            q, r, qhl = div_qr(w, n2[:nn + (1 if cy else 0)], d2, tr, "divrem_2")
            if cy == 0: q = q + [qhl]
            elif qhl: tr.fail("dn2 qhl dropped")
            return q, [(r[0] >> cnt) | ((r[1] << (w.bits - cnt)) & w.M), r[1] >> cnt]
        tr.hit("dn2.norm")
        q, r, qhl = div_qr(w, n, d, tr, "divrem_2")
        return q + [qhl], r
    adjust = 1 if n[-1] >= d[-1] else 0
    if nn + adjust >= 2 * dn:
        if d[-1] & w.HB == 0:
            cnt = clz(w, d[-1])
            d2, c0 = lshift(w, d, cnt); assert c0 == 0
            n2, cy = lshift(w, n, cnt)
            n2 = n2 + [cy]
        else:
            cnt = 0; d2 = d; n2 = n + [0]
        nn2 = nn + adjust
        if adjust == 0 and n2[nn]: tr.fail("first: dropped top limb non-zero")
        callee = "sb" if dn < dc_thr else ("dc" if dn < inv_thr or nn2 < 2 * inv_thr else "inv")
        tr.hit("first.%s.adj%d.%s" % ("unnorm" if cnt else "norm", adjust, callee))
        if callee != "sb" and not (dn >= 6 and nn2 - dn >= 3): tr.fail("dc/inv domain")
        q, r, qh = div_qr(w, n2[:nn2], d2, tr, callee)
        if qh: tr.fail("first: ASSERT_NOCARRY")
        if adjust == 0: q = q + [0]
        return q, (rshift(w, r, cnt) if cnt else r)
    return lt2(w, n, d, adjust, tr, dc_thr, inv_thr)

def lt2(w, n, d, adjust, tr, dc_thr, inv_thr):
    """tdiv_qr.c:155-369, the numerator is less than twice the size of the denominator"""
    nn, dn = len(n), len(d)
    qn0 = nn - dn
    qn = qn0 + adjust
    pad = [0] if adjust == 0 else []                              # qp[nn-dn] = 0 stays when qn = nn-dn
    if qn == 0:
        tr.hit("lt2.qn0")
        return [0], n[:dn]
    in_ = dn - qn
    assert in_ >= 1
    if d[-1] & w.HB == 0:
        cnt = clz(w, d[-1])
        d2, _ = lshift(w, d[in_:], cnt)
        d2[0] |= d[in_ - 1] >> (w.bits - cnt)
        n2, cy = lshift(w, n[nn - 2 * qn:], cnt)
        if adjust: n2 = (n2 + [cy])[1:]
        else:
            n2[0] |= n[nn - 2 * qn - 1] >> (w.bits - cnt)
            if cy: tr.fail("lt2: dropped cy")
    else:
        cnt = 0; d2 = d[in_:]
        n2 = n[nn - 2 * qn:]
        if adjust: n2 = (n2 + [0])[1:]
    tr.hit("lt2.%s.adj%d" % ("unnorm" if cnt else "norm", adjust))
    tr.hit("lt2.qn%s" % (qn if qn < 3 else "3+"))
    tr.hit("lt2.in%s" % (in_ if in_ < 3 else "3+"))
    tr.hit("lt2.in<qn" if in_ < qn else "lt2.in>=qn")
    if qn >= 3:
        callee = "sb" if qn < dc_thr else ("dc_n" if qn < inv_thr else "inv_n")
        tr.hit("lt2.est." + callee)
        if callee != "sb" and qn < 6: tr.fail("dc_n/inv_n domain")
    if not (val(w, n2) < val(w, d2) * w.B ** qn): tr.fail("lt2: estimate does not fit")
    q, rem, qh = div_qr(w, n2, d2, tr, "est")
    if qh: tr.fail("lt2: ASSERT_NOCARRY")
    qp = q + pad
    # step 2
    dl = 0 if in_ - 2 < 0 else d[in_ - 2]
    x = ((d[in_ - 1] << cnt) & w.M) | ((dl >> 1) >> (w.bits - 1 - cnt))
    h = (x * qp[qn - 1]) >> w.bits
    if rem[qn - 1] < h:
        qp, bo = decr(w, qp)
        if bo: tr.fail("lt2: decr borrow (step 2)")
        rem, cy = add_n(w, rem, d2)
        if cy: rem = rem + [cy]
        tr.hit("lt2.step2.dec.carry%d" % cy)
    else: tr.hit("lt2.step2.nodec")
    rn = len(rem)
    too_large = 0
    if cnt != 0:
        s = w.bits - cnt
        l, cy1 = lshift(w, rem, s)
        mask = w.M >> cnt
        l[0] |= n[in_ - 1] & mask
        lo, cy2 = submul_1(w, l[:qn], qp[:qn], d[in_ - 1] & mask)
        if qn != rn:
            if not l[qn] >= cy2: tr.fail("lt2: ASSERT_ALWAYS (n2p[qn] >= cy2)")
            if cy1: tr.fail("lt2: cy1 dropped")
            rem = lo + [(l[qn] - cy2) & w.M]
            tr.hit("lt2.partial.rn=qn+1")
        else:
            rem = lo + [(cy1 - cy2) & w.M]
            too_large = 1 if cy1 < cy2 else 0
            tr.hit("lt2.partial.too_large%d" % too_large)
        rn = qn + 1
        in_ -= 1
    if in_ == 0:                                                    # in < qn always holds here
        if rn != dn: tr.fail("lt2: ASSERT_ALWAYS (rn == dn)")
        tr.hit("lt2.in0")
        rp = rem
    else:
        tp = limbs(w, val(w, qp[:qn]) * val(w, d[:in_]), qn + in_)
        tr.hit("lt2.mul.q_first" if in_ < qn else "lt2.mul.d_first")
        rem, cy = sub(w, rem, tp[in_:])
        hi = rem[:dn - in_]
        if len(rem) > dn - in_ and rem[dn - in_]: tr.fail("lt2: uncopied top limb non-zero")
        if cy: tr.hit("lt2.sub.borrow")
        too_large |= cy
        lo, cy = sub_n(w, n[:in_], tp[:in_])
        # mpn_sub_1 (rp + in, rp + in, rn, cy): rn may be one more than the dn - in limbs that exist
        hv = val(w, hi) - cy
        hi2 = limbs(w, hv % w.B ** len(hi), len(hi)); cy = 1 if hv < 0 else 0
        if rn > len(hi):
            tr.hit("lt2.sub_1.rn>len")
            if cy: tr.fail("lt2: mpn_sub_1 runs past rp[dn-1]")
            cy = 0
        if cy: tr.hit("lt2.sub_1.borrow")
        too_large |= cy
        rp = lo + hi2
    if too_large:
        tr.hit("lt2.too_large")
        qp, bo = decr(w, qp)
        if bo: tr.fail("lt2: decr borrow (final)")
        rp, _ = add_n(w, rp, d)
    else: tr.hit("lt2.exact")
    return qp, rp

def divrem(w, n, d, qxn, tr=None, **kw):
    """mirror of Mpir.TdivQr.divrem: (q: nn-dn+qxn limbs, r: dn limbs, returned top limb)"""
    tr = tr or Trace()
    nn, dn = len(n), len(d)
    assert d[-1] & w.HB and nn >= dn >= 1
    if dn == 1:
        tr.hit("divrem.dn1")
        Q, R = divmod(val(w, n) << (w.bits * qxn), d[0])
        q2 = limbs(w, Q, nn + qxn)
        return q2[:nn + qxn - 1], [R], q2[nn + qxn - 1]
    if dn == 2:
        tr.hit("divrem.dn2")
        Q, R = divmod(val(w, n) << (w.bits * qxn), val(w, d))
        qn = nn - 2 + qxn
        return limbs(w, Q % w.B ** qn, qn), limbs(w, R, 2), Q >> (w.bits * qn)
    tr.hit("divrem.qxn%d" % (1 if qxn else 0))
    n2 = [0] * qxn + n
    q2, r = tdiv_qr(w, n2, d, tr, **kw)
    qn = nn - dn + qxn
    return q2[:qn], r, q2[qn]

def exhaustive(bits, maxdn=3):
    w = W(bits); tot = collections.Counter(); cnt = 0
    for dn in range(1, maxdn + 1):
        for nn in range(dn, 2 * dn + 2):
            for d in itertools.product(range(w.B), repeat=dn):
                if d[-1] == 0: continue
                for n in itertools.product(range(w.B), repeat=nn):
                    tr = Trace()
                    q, r = tdiv_qr(w, list(n), list(d), tr, dc_thr=6, inv_thr=9)
                    Q, R = divmod(val(w, n), val(w, d))
                    assert tr.ok and len(q) == nn - dn + 1 and len(r) == dn and val(w, q) == Q and val(w, r) == R, (n, d, q, r, dict(tr.br))
                    tot.update(tr.br); cnt += 1
    return cnt, tot

if __name__ == "__main__":
    bits = int(sys.argv[1]) if len(sys.argv) > 1 else 2
    maxdn = int(sys.argv[2]) if len(sys.argv) > 2 else 3
    c, t = exhaustive(bits, maxdn)
    print("bits", bits, "cases", c)
    for k, v in sorted(t.items()): print("  %-34s %d" % (k, v))
