"""C07 — main module (parts: c07_*.py are merged automatically)."""
LEVEL = "proof"
LEAN_MODULES = []
THEOREMS = []
TRUSTED = []
ASSUMPTIONS = []
LEVEL_TEXT = "Lean theorems: the reduction invariant (unimodular non-negative matrix steps preserve the gcd and the cofactor relation) implies correctness of any step sequence; single-limb gcd, binary loop, Jacobi base case equal to Mathlib's jacobiSym; mpz wrappers' normalisation and special cases. Differential run with quotient sequences chosen explicitly (Fibonacci-like, huge quotients)."
LEVEL_NOTE = "mpn_hgcd/mpn_hgcd_reduce at n >= HGCD_REDUCE_THRESHOLD (truncation analysis of mpn_hgcd_appr), the bound M->n <= (n-p-1)/2 (hypothesis HgcdMn) and the link from the proved sized model of mpn_gcdext's divide-and-conquer loop to the hypothesis MpnGcdextContractDC of the mpz theorems rest on the correspondence run."
PLACEHOLDER = True
