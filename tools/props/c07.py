"""C07 — main module (parts: c07_*.py are merged automatically)."""
LEVEL = "proof"
LEAN_MODULES = []
THEOREMS = []
TRUSTED = []
ASSUMPTIONS = []
LEVEL_TEXT = "Lean theorems: the reduction invariant (unimodular non-negative matrix steps preserve the gcd and the cofactor relation) implies correctness of any step sequence; single-limb gcd, binary loop, Jacobi base case equal to Mathlib's jacobiSym; mpz wrappers' normalisation and special cases. Differential run with quotient sequences chosen explicitly (Fibonacci-like, huge quotients)."
LEVEL_NOTE = "hgcd2's Lehmer/Jebelean contract and limb-level hgcd matrix arithmetic are checked by correspondence only."
PLACEHOLDER = True
