"""C07 — main module (parts: c07_*.py are merged automatically)."""
LEVEL = "proof"
LEAN_MODULES = []
THEOREMS = []
TRUSTED = []
ASSUMPTIONS = []
LEVEL_TEXT = "Lean theorems: the reduction invariant (unimodular non-negative matrix steps preserve the gcd and the cofactor relation) implies correctness of any step sequence; single-limb gcd, binary loop, Jacobi base case equal to Mathlib's jacobiSym; mpz wrappers' normalisation and special cases. Differential run with quotient sequences chosen explicitly (Fibonacci-like, huge quotients)."
LEVEL_NOTE = "mpn_hgcd/mpn_hgcd_reduce at n >= HGCD_REDUCE_THRESHOLD (the truncation analysis of mpn_hgcd_appr), the bound M->n < M->alloc and the divide-and-conquer range of mpn_gcdext (divisors of >= GCDEXT_DC_THRESHOLD limbs: hypothesis MpnGcdextContractDC of the mpz_gcdext/mpz_invert theorems) rest on the correspondence run only."
PLACEHOLDER = True
