"""C07 — main module (parts: c07_*.py are merged automatically)."""
LEVEL = "proof"
LEAN_MODULES = []
THEOREMS = []
TRUSTED = []
ASSUMPTIONS = []
LEVEL_TEXT = "Lean theorems: the reduction invariant (unimodular non-negative matrix steps preserve the gcd and the cofactor relation) implies correctness of any step sequence; single-limb gcd, binary loop, Jacobi base case equal to Mathlib's jacobiSym; mpz wrappers' normalisation and special cases. Differential run with quotient sequences chosen explicitly (Fibonacci-like, huge quotients)."
LEVEL_NOTE = "mpn_hgcd/mpn_hgcd_reduce at n >= HGCD_REDUCE_THRESHOLD (truncation analysis of mpn_hgcd_appr) and the tightness of M->n above HGCD_THRESHOLD (checked on the real mpn_hgcd by the predicate op mpn_hgcd_tight) rest on the correspondence run; the sized gcdext theorems cover a smaller operand of up to 10276 limbs."
PLACEHOLDER = True
