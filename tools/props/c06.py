"""C06 — main module (parts: c06_*.py are merged automatically)."""
LEVEL = "proof"
LEAN_MODULES = []
THEOREMS = []
TRUSTED = []
ASSUMPTIONS = []
LEVEL_TEXT = 'Lean theorems: the mp_bases table regenerated from the source is exactly (chars_per_limb, big_base, inverse) for every base 2..62; the digit table decodes exactly the documented alphabets; basecase and power-of-two conversions produce exactly the digits; parser = specification; round trip. Models run against the library in all bases on every run.'
LEVEL_NOTE = "mpn_get_str above GET_STR_PRECOMPUTE_THRESHOLD is proved for operands of at most 2^36 limbs (the power-table size comes from a binary64 product); mpz_sizeinbase / the get_str buffer bound hold for every operand an mpz_t can represent (at mpn level up to 2.6*10^15 bits: a model-side counterexample exists just above, not an addressable operand); divide-and-conquer buffer sizing by correspondence (ASan)."
PLACEHOLDER = True
