"""C06 — main module (parts: c06_*.py are merged automatically)."""
LEVEL = "proof"
LEAN_MODULES = []
THEOREMS = []
TRUSTED = []
ASSUMPTIONS = []
LEVEL_TEXT = 'Lean theorems: the mp_bases table regenerated from the source is exactly (chars_per_limb, big_base, inverse) for every base 2..62; the digit table decodes exactly the documented alphabets; basecase and power-of-two conversions produce exactly the digits; parser = specification; round trip. Models run against the library in all bases on every run.'
LEVEL_NOTE = 'sizeinbase for non-power-of-two bases is proved only under a bit-length bound (binary64 constant); divide-and-conquer conversion partly by correspondence.'
PLACEHOLDER = True
