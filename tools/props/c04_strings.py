"""C04 part (integrator): allocator contract and leaks of the string- and stream-level functions, which the signature-driven call
table of c04.py does not reach (char* / FILE* arguments).  The lines use ops of the C06 / C17 parts (answered by their models);
the harness's recording allocator (exact sizes, red zones, leak ledger) appends !alloc / !leak / !oob to the answer.
* NULL-buffer mpz_get_str / mpq_get_str with operands that reach the maximal digit count for their limb counts, negative
  numerators, every class of base: the block must hold sign + digits + '/' + NUL;
* invalid and valid digit strings longer than the 64 KB alloca limit of TMP_ALLOC (the scratch then comes from the heap and an
  early return without TMP_FREE is a leak), for mpz_set_str and mpq_set_str;
* raw input with 0..17 leading zero bytes (leading zero LIMBS must all be stripped)."""
from genlib import *
B = 1 << 64
def gen_ops(rng, tier, ctx=None):
    bases = [2, 3, 7, 10, 16, 17, 36, -2, -10, -17, -36]
    for k in (1, 2, 3):
        for b in bases:
            for num in (B ** k - 1, B ** k - rng.randrange(2, 99), 10 ** (19 * k) if 10 ** (19 * k) < B ** k else B ** k - 1):
                for den in (B ** k - 3, B ** k - 1, 1, B ** (k - 1) + 1 if k > 1 else 3):
                    for sg in (1, -1):
                        from math import gcd
                        g = gcd(num, den)
                        yield "mpq_get_str %s %s %s" % (hx(b), hx(sg * (num // g)), hx(den // g))
                yield "mpz_get_str %s %s" % (hx(b), hx(-num)); yield "mpz_get_str %s %s" % (hx(b), hx(num))
    for L in ([70000, 100000] if tier == "quick" else [65534, 65535, 65536, 65537, 70000, 100000, 200000]):
        for b in (10, 8, 16, 36):
            digs = "0123456789abcdefghijklmnopqrstuvwxyz"[:b]
            good = "".join(rng.choice(digs) for _ in range(L))
            yield "mpz_set_str %s %s" % (hx(b), sbytes(good))
            pos = rng.choice([0, L // 2, L - 1])
            bad = good[:pos] + ("9" if b == 8 else "~") + good[pos + 1:]
            yield "mpz_set_str %s %s" % (hx(b), sbytes(bad))
            yield "mpq_set_str %s %s" % (hx(b), sbytes(good[: L // 2] + "/" + bad[: L // 2]))
            yield "mpq_set_str %s %s" % (hx(b), sbytes(bad[: L // 2 + 3] + "/" + good[: L // 2]))
    for nz in range(0, 18):
        for nd in (0, 1, 7, 8, 9):
            data = bytes(nz) + bytes(rng.randrange(1, 256) for _ in range(nd))
            for neg in (0, 1):
                n = len(data); hdr = ((-n) & 0xffffffff if neg else n).to_bytes(4, "big")
                yield "mpz_inp_raw %s" % sbytes(hdr + data)
