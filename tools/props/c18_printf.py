"""C18 — formatted output/input: generators and theorem registration (part of C18, merged by check.py)."""
import itertools
from genlib import *

LEAN_MODULES = ["MpirProofs.Props.C18"]
THEOREMS = ["Mpir.Printf.snprintf_bound", "Mpir.Printf.doprnti_eq_c99", "Mpir.Printf.doprnti_eq_c99_string",
            "Mpir.Printf.asprintf_block", "Mpir.Printf.doprnti_big_layout", "Mpir.Printf.doprnti_big_layout_length", "Mpir.Printf.parser_total_partial", "Mpir.Scanf.scan_print_roundtrip_partial"]
TRUSTED = ["hand-written models lean/Mpir/Model/Printf.lean of printf/doprnt.c, doprnti.c, doprntf.c, snprntffuns.c, asprntffuns.c, vasprintf.c and lean/Mpir/Model/Scanf.lean of scanf/doscan.c (tied by correspondence on every run)",
           "the C99 specification function cFormatCore/cprintfInt is written from ISO C99 7.19.6.1 and validated against glibc's snprintf on every run (glibc column of the gmp_snprintf_* ops)",
           "harness passes variable arguments as twelve 64-bit slots (x86-64 SysV ABI)"]
ASSUMPTIONS = ["observation F2 (no property violation, output is right): printf/doprntf.c:252 `expval <<= 2` left-shifts a negative long for %Fa/%FA of values below 1 (undefined in C99 6.5.7p4, defined by gcc)",
               "on record, judged not to violate C18 as worded: gmp_*scanf %Zx/%Qx does not accept a 0x/0X prefix, unlike C's %x (text printed with %#Zx is read back by %Zi); %% in a scanf format does not skip white space, unlike C99/glibc",
               "the round-trip op demands equality for the matching read conversion (%Zd for %Zd/%Zi output, %Zo for %Zo, %Zx for %Zx/%ZX without '#', %Zi for '#' forms and plain decimal); Q only without precision",
               "mpz_get_str/mpq_get_str digits are taken from their specification (natDigits); C06 owns their correctness",
               "the C library's vsnprintf is C99 conforming (returns the full length)",
               "%F: mpf_get_str digits are taken from their specification (exact value rounded half up on the next digit; C13 owns mpf_get_str); the %F correspondence uses mantissas of at most two limbs, where mpf/get_str.c computes exactly"]
RULE = ("exhaustive cross product flags subsets(32) x width {none,1,5,40,*,-*} x precision {none,.,.0,.1,.5,.40,.*} x conv {d,i,o,x,X} "
        "x type {Z,N (15 values incl. LONG_MIN/MAX, +-2^64, +-10^40), Q, M}; %F grid 11 flag sets x width {none,12,30,*} x precision {none,.,.0,.1,.3,.10,.25,.*} x f e E g G a A x 13+ values incl. rounding carries; snprintf sizes 0..len+1 on sampled formats; mixed standard/MPIR formats "
        "through all 12 output functions; asprintf lengths around 255/256/512; scanf read-back of printed strings and malformed inputs; "
        "distinct = distinct op lines")

FLAGSETS = ["".join(c) for r in range(6) for c in itertools.combinations("-+ #0", r)]
LMAX = 2 ** 63 - 1
ZVALS = [0, 1, -1, 9, -9, 10, -10, LMAX, -LMAX - 1, 2 ** 64, -2 ** 64, 10 ** 40, -10 ** 40, 8, 255]
QVALS = [(0, 1), (1, 1), (-9, 1), (LMAX, 1), (1, 2), (-10, 3), (2, 4), (0, 5), (10 ** 40, 2 ** 64), (-255, 16)]
MVALS = [0, 1, 9, 10, 255, LMAX, LMAX + 1, 2 ** 64 - 1]
CONVS = "dioxX"

def widths(rng):
    return [("", None), ("1", None), ("5", None), ("40", None), ("*", rng.choice([1, 5, 40])), ("*", -rng.choice([1, 5, 40]))]
def precs(rng):
    return [("", None), (".", None), (".0", None), (".1", None), (".5", None), (".40", None), (".*", rng.choice([0, 1, 5, 40, -1]))]

def nlimbs(v):
    """limb vector + size argument for the N type (sometimes with high zero limbs, which MPN_NORMALIZE strips)"""
    return limbs_of(abs(v))

def one(ty, size, fmt, stars, v, rng=None):
    st = " ".join(hx(x) for x in stars)
    if st: st += " "
    if ty == "Z": return "gmp_snprintf_Z %x %s %s%s" % (size, sbytes(fmt), st, hx(v))
    if ty == "M": return "gmp_snprintf_M %x %s %s%x" % (size, sbytes(fmt), st, v)
    if ty == "Q": return "gmp_snprintf_Q %x %s %s%s %s" % (size, sbytes(fmt), st, hx(v[0]), hx(v[1]))
    l = nlimbs(v)
    if rng is not None and rng.random() < 0.2: l = l + [0] * rng.randrange(1, 3)
    n = len(l)
    return "gmp_snprintf_N %x %s %s%s %s" % (size, sbytes(fmt), st, hx(-n if v < 0 else n), vec(l))

def cross(rng, tier):
    for fl in FLAGSETS:
        for (w, ws) in widths(rng):
            for (p, ps) in precs(rng):
                stars = [x for x in (ws, ps) if x is not None]
                for c in CONVS:
                    for ty, vals in (("Z", ZVALS), ("N", ZVALS), ("Q", QVALS), ("M", MVALS)):
                        f = "%" + fl + w + p + ty + c
                        for v in vals:
                            yield one(ty, 0x100, f, stars, v, rng)

def perm_flags(rng):
    """flag order and repetition must not matter (the old code let the last of `+`/space win)"""
    for _ in range(1500):
        k = rng.randrange(2, 7)
        fl = "".join(rng.choice("-+ #0") for _ in range(k))
        (w, ws) = rng.choice(widths(rng)); (p, ps) = rng.choice(precs(rng))
        stars = [x for x in (ws, ps) if x is not None]
        yield one("Z", 0x100, "%" + fl + w + p + "Z" + rng.choice(CONVS + "u"), stars, rng.choice(ZVALS))

def sizes_sweep(rng, tier):
    """every buffer size 0..len+1 (and a few beyond) for sampled formats: the bound and the return value"""
    n = 150 if tier == "quick" else 1200
    for _ in range(n):
        fl = rng.choice(FLAGSETS); (w, ws) = rng.choice(widths(rng)); (p, ps) = rng.choice(precs(rng))
        stars = [x for x in (ws, ps) if x is not None]
        ty = rng.choice("ZZZNQM"); c = rng.choice(CONVS)
        v = rng.choice({"Z": ZVALS, "N": ZVALS, "Q": QVALS, "M": MVALS}[ty])
        wd = abs(ws) if ws is not None else (int(w) if w else 0)
        pr = ps if ps is not None else (int(p[1:]) if len(p) > 1 and p[1:].isdigit() else 0)
        top = max(wd, pr + 4, 3) if rng.random() < 0.7 else 48
        for size in range(0, min(top, 60) + 3):
            yield one(ty, size, "%" + fl + w + p + ty + c, stars, v)

# ---- mixed formats through the whole function family
def rnd_text(rng):
    return "".join(rng.choice("abc xyz,:;[]()=") for _ in range(rng.randrange(0, 4)))

def rnd_spec(rng):
    """one conversion: (format text, types letters, argument tokens)"""
    kind = rng.choice(["Z", "Z", "Q", "N", "M", "d", "ld", "u", "lx", "hhd", "hu", "lld", "zu", "jd", "td", "qd", "Lo", "c", "s", "%", "n"])
    if kind == "%": return "%%", "", []
    if kind == "n":
        t = rng.choice(["", "hh", "h", "l", "ll", "j", "z", "t", "Z", "Q"])
        return "%" + t + "n", {"Z": "z", "Q": "q"}.get(t, "n"), []
    fl = "".join(rng.sample("-+ #0", rng.randrange(0, 3)))
    w = rng.choice(["", "", "3", "12", "*"]); p = rng.choice(["", "", ".0", ".2", ".7", ".*"])
    if kind == "Q": p = ""                      # the manual leaves the precision undefined for Q
    if kind == "c": p = ""; fl = "-" if "-" in fl else ""
    if kind == "s": fl = "-" if "-" in fl else ""
    ty, args = "", []
    if w == "*": ty += "i"; args.append(hx(rng.choice([0, 4, 9, -6])))
    if p == ".*": ty += "i"; args.append(hx(rng.choice([0, 2, 6, -1])))
    pre = "%" + fl + w + p
    if kind == "Z": return pre + "Z" + rng.choice("dioxX"), ty + "Z", args + [hx(rng.choice(ZVALS + [rand_int(rng, 3)]))]
    if kind == "Q": return pre + "Q" + rng.choice("dioxX"), ty + "Q", args + [hx(rng.choice(ZVALS)), hx(rng.choice([1, 2, 3, 16, 10 ** 20]))]
    if kind == "N":
        v = rng.choice(ZVALS + [rand_int(rng, 3)]); l = limbs_of(abs(v)) + [0] * rng.randrange(0, 2)
        return pre + "N" + rng.choice("dioxX"), ty + "N", args + [vec(l), hx(-len(l) if v < 0 else len(l))]
    if kind == "M": return pre + "M" + rng.choice("dxXou"), ty + "M", args + ["%x" % rng.choice(MVALS + [rng.getrandbits(64)])]
    if kind == "c": return pre + "c", ty + "i", args + ["%x" % rng.choice([0x41, 0x7a, 0x30, 0x7e])]
    if kind == "s":
        return pre + "s", ty + "s", args + [sbytes("".join(rng.choice("hello, world") for _ in range(rng.randrange(0, 12))))]
    conv = kind[-1]; mod = kind[:-1]
    v = rng.choice([0, 1, -1, 127, 128, 255, 256, -129, 32767, 32768, 65535, 2 ** 31 - 1, 2 ** 31, -2 ** 31, 2 ** 32 - 1, LMAX, -LMAX - 1, rng.getrandbits(64) - 2 ** 63])
    return pre + mod + conv, ty + "i", args + [hx(v)]

def mixed_line(rng, fam, size=None):
    nslots, f, ty, args = 0, rnd_text(rng), "", []
    for _ in range(rng.randrange(1, 6)):
        sf, st, sa = rnd_spec(rng)
        slots = sum(2 if ch == "N" else 1 for ch in st)
        if nslots + slots > 11: break
        nslots += slots; f += sf + rnd_text(rng); ty += st; args += sa
    head = "%s %x" % (fam, size) if size is not None else fam
    return " ".join([head, sbytes(f), sbytes(ty)] + args)

UNSIZED = ["gmp_sprintf", "gmp_vsprintf", "gmp_asprintf", "gmp_vasprintf", "gmp_fprintf", "gmp_vfprintf",
           "gmp_obstack_printf", "gmp_obstack_vprintf"]
def mixed(rng, tier):
    n = 2500 if tier == "quick" else 20000
    for i in range(n):
        r = rng.random()
        if r < 0.35: yield mixed_line(rng, rng.choice(["gmp_snprintf_mixed", "gmp_snprintf", "gmp_vsnprintf"]), rng.choice([0, 1, 2, 5, 13, 40, 0x200]))
        elif r < 0.98: yield mixed_line(rng, rng.choice(UNSIZED))
        else: yield mixed_line(rng, rng.choice(["gmp_printf", "gmp_vprintf"]))
    # hand-made: adjacent MPIR conversions (nothing to flush), leading/trailing text, %n of every type
    fixed = [("%Zd%Zd", "ZZ", ["5", "-6"]), ("%Zd", "Z", ["0"]), ("", "", []), ("plain text", "", []), ("%%", "", []),
             ("%d%Zd%d", "iZi", ["1", "2", "3"]), ("a%nb%Znc%Qnd%hhne%lnf", "nzqnn", []), ("%Zd%n%Zx%n", "ZnZn", ["-64", "ff"]),
             ("%s|%Qd|%s", "sQs", [sbytes("x"), "-3", "4", sbytes("")]), ("%#Qx %#Qo %#QX", "QQQ", ["ff", "10", "0", "7", "-ab", "1"]),
             ("%Nd %Nx", "NN", [vec([0, 0, 0]), "3", vec([5, 0]), "-2"]), ("%Mu %Mx %Md %#Mo", "MMMM", ["ffffffffffffffff", "10", "8000000000000000", "8"]),
             ("%5c|%-5c|%c", "iii", ["41", "42", "43"]), ("%.3s|%10.2s|%-6s|", "sss", [sbytes("abcdef")] * 3)]
    for fam in ["gmp_snprintf 200", "gmp_vsnprintf 7"] + UNSIZED + ["gmp_printf", "gmp_vprintf"]:
        for f, ty, a in fixed:
            yield " ".join([fam, sbytes(f), sbytes(ty)] + a)

def asprintf_lengths(rng, tier):
    """output lengths around the initial 256-byte buffer and its doublings, reached through reps (width),
    memory (digits) and format (a libc piece) callbacks"""
    for fam in ("gmp_asprintf", "gmp_vasprintf"):
        for L in list(range(250, 262)) + list(range(507, 517)) + [1022, 1023, 1024, 1025, 2047, 2048, 2049]:
            yield "%s %s %s %x 7" % (fam, sbytes("%*Zd"), sbytes("iZ"), L)
            yield "%s %s %s %x 7" % (fam, sbytes("%-*Zd"), sbytes("iZ"), L)
            yield "%s %s %s %x 7" % (fam, sbytes("%.*Zd"), sbytes("iZ"), L)
            yield "%s %s %s %s" % (fam, sbytes("%s"), sbytes("s"), sbytes("s" * L))
            yield "%s %s %s %s 5" % (fam, sbytes("%s%Zd"), sbytes("sZ"), sbytes("s" * (L - 1)))
            yield "%s %s %s 5 %s" % (fam, sbytes("%Zd%s"), sbytes("Zs"), sbytes("s" * (L - 1)))
            yield "%s %s %s %s" % (fam, sbytes("%Zd"), sbytes("Z"), hx(10 ** (L - 1)))
            yield "%s %s %s %s %s" % (fam, sbytes("%s%s"), sbytes("ss"), sbytes("a" * 200), sbytes("b" * (L - 200)))
        yield "%s %s %s" % (fam, sbytes(""), sbytes(""))

# ---- input: read-back of printed text, field scanning, malformed input
def roundtrip(rng, tier):
    match = {"d": "d", "i": "d", "o": "o", "x": "x", "X": "X"}
    for fl in FLAGSETS:
        for w in ["", "1", "12", "40"]:
            for c in CONVS:
                for p in ["", ".0", ".1", ".7"]:
                    for sc in (match[c], "i"):
                        for v in rng.sample(ZVALS, 5) + [rand_int(rng, 4)]:
                            yield "gmp_print_scan_Z %s %s %s" % (sbytes("%" + fl + w + p + "Z" + c), sbytes("%Z" + sc), hx(v))
                for sc in (match[c], "i"):
                    for (n, d) in rng.sample(QVALS, 4) + [(rand_int(rng, 3), abs(rand_int(rng, 2, False)) + 2)]:
                        yield "gmp_print_scan_Q %s %s %s %s" % (sbytes("%" + fl + w + "Q" + c), sbytes("%Q" + sc), hx(n), hx(d))

SCAN_INPUTS = ["", " ", "-", "+", "0", "-0", "+0", "00", "0x", "0X", "0x/", "0xg", "0x1f", "-0x1f", "+0X1F", "08", "019", "017", "1f", "ff/1f",
               "12", "-12", "+12", "  12", "\t\n12 ", "12abc", "abc", "--5", "+-5", "-+5", "12/", "/5", "12/5", "-12/5", "12/-5", "12/+5", "12 /5", "12/ 5",
               "0x10/0x11", "0x10/11", "010/8", "1/0", "1/0x", "1 2 3", "1,2", "1 , 2", "%5", " %5", "x=12;", "a(5) = 1234\n",
               "12345678901234567890123456789012345678901234567890", "-12345678901234567890123456789012345678901234567890/7", "99999999999999999999 hello 7",
               "A", "zz", "7fffffffffffffff", "1e5", "1.5", "١٢"]
SCAN_FORMATS = [("%Zd", "z"), ("%Zi", "z"), ("%Zx", "z"), ("%ZX", "z"), ("%Zo", "z"), ("%Zu", "z"), ("%Qd", "q"), ("%Qi", "q"), ("%Qx", "q"), ("%Qo", "q"),
                ("%1Zd", "z"), ("%2Zd", "z"), ("%3Zd", "z"), ("%1Zi", "z"), ("%2Zi", "z"), ("%3Zi", "z"), ("%3Qd", "q"), ("%4Qi", "q"), ("%2Zx", "z"),
                ("%Zd%n", "zn"), ("%Zi%n", "zn"), ("%Qi%n", "qn"), ("%Zd%Zn", "zz"), ("%Zd%ln", "zn"), ("%3Zd%Zd", "zz"), ("%Zd %Zd", "zz"), ("%Zd,%Zd", "zz"),
                ("%Zd %Qd %Zd", "zqz"), ("%*Zd %Zd", "z"), ("%*Zd%n", "n"), ("%*3Zd%Zd", "z"), ("x=%Zd;", "z"), ("a(%ld) = %Zd\n", "lz"), ("%%%Zd", "z"), (" %%%Zd", "z"),
                ("%ld %Zd", "lz"), ("%Zd %ld", "zl"), ("%lx%Zx", "lz"), ("%li %Zi", "lz"), ("%Zd %s %ld", "zbl"), ("%s", "b"), ("%3s%Zd", "bz"), ("%c%Zd", "bz"), ("%2c%n", "bn"),
                ("%Zd%c", "zb"), ("", ""), ("abc", ""), (" ", ""), ("%n", "n"), ("%lu", "l"), ("%lo %Zo", "lz")]
def scans(rng, tier):
    esc = lambda t: t.encode().decode("unicode_escape").encode("latin-1") if "\\" in t else t.encode()
    import re
    for f, ty in SCAN_FORMATS:
        for inp in SCAN_INPUTS:
            # a bare "0x" in front of a C-library conversion is glibc's business (it accepts it): not generated
            if re.match(r"^[^%]*%l[xi]", f) and re.match(r"^\s*[-+]?0[xX]([^0-9a-fA-F]|$)", inp): continue
            fam = rng.choice(["gmp_sscanf", "gmp_sscanf", "gmp_vsscanf"])
            yield "%s %s %s %s" % (fam, sbytes(esc(f)), sbytes(ty), sbytes(esc(inp)))
            fam = rng.choice(["gmp_fscanf", "gmp_fscanf", "gmp_vfscanf"])
            yield "%s %s %s %s" % (fam, sbytes(esc(f)), sbytes(ty), sbytes(esc(inp)))

def scan_long_fields(rng, tier):
    """fields whose stored length crosses the growth steps of doscan.c's digit buffer (512, 1024, 1536 characters incl. the NUL):
    the harness allocator has exact sizes and red zones, so a byte stored past the block or lost in the reallocation shows"""
    for L in [510, 511, 512, 513, 514, 1023, 1024, 1025] + ([1535, 1536, 1537, 2048, 2049, 4096] if tier != "quick" else []):
        d = "".join(rng.choice("0123456789") for _ in range(L - 1)); d = rng.choice("123456789") + d
        hxs = "".join(rng.choice("0123456789abcdef") for _ in range(L - 1)); hxs = rng.choice("123456789abcdef") + hxs
        for fam in ("gmp_sscanf", "gmp_fscanf"):
            yield "%s %s %s %s" % (fam, sbytes("%Zd%n"), sbytes("zn"), sbytes(d))
            yield "%s %s %s %s" % (fam, sbytes("%Zd%n"), sbytes("zn"), sbytes("-" + d[:-1]))
            yield "%s %s %s %s" % (fam, sbytes("%Zx %Zd%n"), sbytes("zzn"), sbytes(hxs + " 77"))
            yield "%s %s %s %s" % (fam, sbytes("%Qd%n"), sbytes("qn"), sbytes(d[: L - 3] + "/7"))
            yield "%s %s %s %s" % (fam, sbytes("%Qd%n"), sbytes("qn"), sbytes("3/" + d[: L - 2]))

def scan_positions(rng, tier):
    """well-formed fields damaged at every position (truncation, inserted or replaced character) and every
    width 1..len+1: the count returned, the value, %n and the stream position say how far the scanner went"""
    bases = [("-0x1f/0x3", ["%Qi%n", "%Zi%n", "%Qx%n"]), ("123/45 6", ["%Qd%n", "%Zd%n", "%Qd %Zd%n"]), ("+0777/010", ["%Qi%n", "%Qo%n", "%Zo%n"]),
             ("  -98765432109876543210", ["%Zd%n", "%Zi%n", "%*Zd%n"]), ("0x7f 0X80", ["%Zi %Zi%n", "%Zx %Zx%n"]), ("12,34", ["%Zd,%Zd%n", "%Zd ,%Zd%n"])]
    tys = lambda f: "".join({"Q": "q", "Z": "z"}[m] for m in __import__("re").findall(r"%\d*([QZ])[dioxX]", f)) + "n"
    for text, fmts in bases:
        variants = set()
        for i in range(len(text) + 1):
            variants.add(text[:i])
            for ch in "x/- g0":
                variants.add(text[:i] + ch + text[i:]); variants.add(text[:i] + ch + text[i + 1:])
        for f in fmts:
            for t in sorted(variants):
                yield "gmp_fscanf %s %s %s" % (sbytes(f), sbytes(tys(f)), sbytes(t))
                if rng.random() < 0.3: yield "gmp_sscanf %s %s %s" % (sbytes(f), sbytes(tys(f)), sbytes(t))
            for wdt in range(1, len(text) + 2):
                fw = f.replace("%Q", "%%%dQ" % wdt, 1).replace("%Z", "%%%dZ" % wdt, 1) if ("%Q" in f or "%Z" in f) else f
                yield "gmp_fscanf %s %s %s" % (sbytes(fw), sbytes(tys(f)), sbytes(text))
                yield "gmp_sscanf %s %s %s" % (sbytes(fw), sbytes(tys(f)), sbytes(text))

# ---- %F: layout of doprntf.c around mpf_get_str digits
F_GENERAL_EMPTYPREC = True      # "%.Fg": doprntf.c:85 used to pass MPF_SIGNIFICANT_DIGITS its arguments in the wrong order (F1, repaired a66b298)
def fval(m, e2):
    """tokens `exp size [limbs]` of the mpf with value m * 2^e2"""
    neg = m < 0; m = abs(m)
    if m == 0: return "0 0 []"
    sh = e2 % 64; m <<= sh; e2 -= sh
    while m % B == 0: m >>= 64; e2 += 64
    l = limbs_of(m); n = len(l)
    return "%s %s %s" % (hx(e2 // 64 + n), hx(-n if neg else n), vec(l))
FVALS = [(0, 0), (1, 0), (-1, 0), (1, -1), (3, -1), (1, -3), (5, -4), (12345, 0), (12345, -3), (-9999, -2), (999999, -1), (1, 10), (1, 64), (1, -64),
         (10 ** 15, 0), (3, -20), (255, -8), (1, -10), (123456789, -30), (10 ** 18 + 1, -5), (7, 3), (1999, -1), (9995, -2), (99999, 0), (-99995, -10),
         (1, -14), (1, -13), (100000, 0), (999999, 0), (1000000, 0), (9999995, -1), (15, -4), (-255, -4), (1, 127), (10 ** 19, 0)]
def fgrid(rng, tier):
    fls = ["", "-", "+", " ", "#", "0", "-#", "+0", " #0", "-0", "+ "]
    for fl in fls:
        for w in ["", "12", "30", "*"]:
            for p in ["", ".", ".0", ".1", ".3", ".10", ".25", ".*"]:
                for c in "feEgGaA":
                    if p == "." and c in "gG" and not F_GENERAL_EMPTYPREC: continue
                    ty, st = "", []
                    if w == "*": ty += "i"; st.append(hx(rng.choice([0, 9, 20, -15])))
                    if p == ".*": ty += "i"; st.append(hx(rng.choice([0, 2, 7, -1])))
                    vals = FVALS if tier == "thorough" else rng.sample(FVALS, 12)
                    for (m, e) in vals + [(rng.getrandbits(rng.choice([20, 60, 64, 100, 128])) * rng.choice([1, -1]) | 1, rng.randrange(-140, 70))]:
                        bits = rng.choice([64, 80, 128, 256])
                        yield "gmp_snprintf_F %x %s %s%x %s" % (rng.choice([0x200, 0x200, 0x200, 7, 1, 0]), sbytes("%" + fl + w + p + "F" + c),
                                                                "".join(x + " " for x in st), bits, fval(m, e))
    # tiny values (limb exponent <= -2) with a fixed precision that reaches their digits: the digit-count estimate of
    # doprntf.c (leading zeros from the limb exponent) decides how many digits mpf_get_str is asked for
    for e in list(range(-70, -470, -29 if tier == "quick" else -7)):
        for m in (1, 11, 12345, rng.getrandbits(40) | 1, rng.getrandbits(64) | 1):
            for p in (".25", ".59", ".60", ".80", ".120", ".150"):
                for c in ("f", "e", "g"):
                    yield "gmp_snprintf_F 200 %s %x %s" % (sbytes("%" + rng.choice(["", "#", "+"]) + p + "F" + c), rng.choice([64, 128, 256]), fval(m * rng.choice([1, -1]), e))
    for fam in UNSIZED + ["gmp_printf"]:
        for f, ty, a in [("%Ff", "F", ["80 " + fval(5, -1)]), ("[%d|%10.3Fe|%Zd|%s]", "iFZs", ["-3", "80 " + fval(12345, -3), "-7", sbytes("x")]),
                         ("%Fg %Fg", "FF", ["80 " + fval(1, -20), "40 " + fval(10 ** 8, 0)]), ("%n%.2Ff%n", "nFn", ["80 " + fval(-7, -2)])]:
            yield " ".join([fam, sbytes(f), sbytes(ty)] + a)

def gen_ops(rng, tier, ctx=None):
    yield from cross(rng, tier)
    yield from perm_flags(rng)
    yield from sizes_sweep(rng, tier)
    yield from mixed(rng, tier)
    yield from asprintf_lengths(rng, tier)
    yield from roundtrip(rng, tier)
    yield from scans(rng, tier)
    yield from scan_positions(rng, tier)
    yield from scan_long_fields(rng, tier)
    yield from fgrid(rng, tier)


def extra(ctx, cov):
    """thorough tier: corpus, buffer-size sweeps, asprintf growth, mixed formats, %F (incl. 258-limb precision) and all
    scanf ops once more through the shared sanitizer variant (vlib "asan": -fsanitize=address,bounds) (overruns of the bounded
    writer, of the growing buffer, of mp_bases[] or of the scanner's store would abort there)."""
    import os, random, glob
    import vlib
    if ctx.tier != "thorough":
        cov["asan"] = "run in the thorough tier only"
        return []
    build = vlib.get_build("asan"); h = vlib.get_harness(build, "asan")
    rng = random.Random("C18-asan-%d" % ctx.seed)
    lines = []
    for f in sorted(glob.glob(os.path.join(vlib.VERIF, "corpus", "C18", "*.ops"))):
        lines += [l.rstrip("\n") for l in open(f) if l.strip() and not l.startswith("#")]
    for g in (sizes_sweep, mixed, asprintf_lengths, scans, scan_positions, fgrid):
        lines += list(g(rng, "quick"))
    env = {"ASAN_OPTIONS": "detect_leaks=0"}
    rc, out, err = vlib.run_stream(h, lines, env=env)
    cov["asan_ops"] = len(lines)
    bad = None
    if rc != 0 or len(out) != len(lines):
        # output is block buffered, so bisect for the first op on which the process dies
        lo, hi = 0, len(lines)          # the prefix of length lo survives, of length hi dies
        while hi - lo > 1:
            mid = (lo + hi) // 2
            r2, _, e2 = vlib.run_stream(h, lines[:mid], env=env)
            if r2 != 0: hi = mid; err = e2
            else: lo = mid
        bad = (hi - 1, "harness exited with %d: %s" % (rc, next((l for l in err.split("\n") if "error" in l.lower()), "")))
    else:
        for i, o in enumerate(out):
            if "!oob" in o or "!alloc" in o or "!nonul" in o: bad = (i, o); break
    if bad is None: return []
    k = min(bad[0], len(lines) - 1)
    os.makedirs(os.path.join(vlib.VERIF, "replay"), exist_ok=True)
    n = len(glob.glob(os.path.join(vlib.VERIF, "replay", "C18-asan-*.ops"))) + 1
    path = os.path.join(vlib.VERIF, "replay", "C18-asan-%d.ops" % n)
    with open(path, "w") as f:
        f.write("# property C18: sanitizer build (VARIANT asan) reports on this op: %s\n" % bad[1][:300])
        f.write("".join("# " + l + "\n" for l in err.split("\n")[:60]))
        f.write(lines[k] + "\n")
    return [("asan: %s | %s" % (lines[k][:200], bad[1][:200]), path)]

# source pins: the C the Lean model mirrors (see tools/pins.py)
PINS = [('printf/doprnti.c', None), ('printf/doprnt.c', None), ('printf/snprntffuns.c', None), ('printf/asprntffuns.c', None), ('printf/vasprintf.c', None), ('printf/doprntf.c', None), ('scanf/doscan.c', None)]
