"""C13 part — mpf arithmetic, conversions into mpf, exact functions, precision changes.

Every case is emitted twice: `op ...` (the implementation's answer must equal the bit-exact model's:
"is the model still a mirror of the code") and `op? ...` (the driver evaluates the property's own
predicate — format rules, relative error < 2^(2-p), exact when representable — on the
implementation's answer: that decides violation)."""
from genlib import *

LEAN_MODULES = ["MpirProofs.Props.C13"]
THEOREMS = ["Mpir.Mpf." + t for t in """
    prec_roundtrip prec_ge_two set_exact neg_exact abs_exact mul_2exp_exact div_2exp_exact mpf_mul_div_2exp_err
    floor_spec ceil_spec trunc_spec integer_p_iff
    mpf_mul_wf mpf_mul_zero mpf_mul_err mpf_mul_exact_if_fits
    set_ui_exact set_si_exact set_z_spec mpf_set_spec mpf_neg_spec
    mpf_add_same_sign mpf_add_same_sign_exact_if_fits mpf_add_zero
    mpf_div_err mpf_div_zero mpf_div_ui_err mpf_ui_div_err mpf_set_q_err
    mpf_sqrt_err mpf_sqrt_neg_zero mpf_sqrt_ui_err
    mpf_sub_err mpf_add_err mpf_sub_exact_if_fits mpf_add_exact_if_fits mpf_sub_ui_err mpf_ui_sub_err
    mpf_add_ui_err mpf_mul_ui_err mpf_set_d_exact_partial mpf_set_d_special wf_preserved
    init2_spec set_prec_spec set_prec_raw_spec
""".split()]
TRUSTED = ["hand-written bit-exact mpf model lean/Mpir/Model/Mpf.lean (limb selection, truncation, case analysis and normalisation mirror "
           "mpf/*.c with file:line citations; mpn_mul/tdiv_qr/divmod_1/sqrtrem/add/sub/lshift/rshift are taken at value level) — tied by "
           "correspondence on every run, bit for bit (size, exponent, limbs)",
           "the predicate evaluator Mpir.Ops.Mpf.evalSpec (format rules, |r-E| < 2^(2-p)|E| by exact integer cross-multiplication, "
           "exactness when operands and value fit in p bits) is part of the compiled driver, not of a theorem"]
ASSUMPTIONS = ["64-bit limbs, no nails, BITS_PER_UI == 64 (the pinned x86_64 build)",
               "operands satisfy the mpf operand rules (proper limbs, |size| limbs, top limb non-zero, zero has exponent 0); they may be longer "
               "than their own prec+1 (the state mpf_set_prec_raw leaves); destination precision >= 2 limbs (what __GMPF_BITS_TO_PREC yields)",
               "a destination that is also a (zero-partner / sign-only) operand keeps its stored value: its size must already fit the "
               "destination precision (hypotheses hau/hav of the theorems; the generator emits the predicate form only then)",
               "not proved (correspondence + predicate only): mpf_set_d on denormals, floor/ceil/trunc when the integer part exceeds prec+1 "
               "limbs, mpf_cmp / mpf_eq (model only), get_str/set_str (not modelled here)"]
RULE = ("destination/operand precisions independently from {2,3,4,5,17} limbs (53,64,65,128,192,1000 bits) + random; exponent differences "
        "-(prec+3)..prec+3 exhaustively per destination precision and huge; operand lengths 1, prec-1, prec, prec+1, prec+2.. (raw); "
        "x+1|000.. - x|fff.. across 0..6 limb boundaries with tails/one side exhausted; common leading limbs; low zero limbs; equal operands; "
        "alias modes 0-4; zero operands; ui in {0,1,2^63,2^64-1,..}; div by zero; sqrt of negative; doubles at every shift count, denormals, "
        "NaN/Inf; mpf_eq with n_bits 0; set_prec / set_prec_raw followed by in-place ops; each case in exact and predicate form; "
        "distinct = distinct op lines")

PRECS = [2, 3, 4, 5, 17]

def both(line, pred=True):
    yield line
    if pred:
        op, rest = line.split(" ", 1)
        yield op + "? " + rest

def limbs_nz(rng, n, cls=None, lowzeros=0):
    """n limbs, little-endian, top limb non-zero"""
    if n <= 0: return []
    l = rand_limbs(rng, n, cls)
    for i in range(min(lowzeros, n - 1)): l[i] = 0
    if l[-1] == 0: l[-1] = rng.choice([1, M, 1 << 63, rng.getrandbits(64) | 1])
    return l

def fs(prec, neg, exp, limbs):
    n = len(limbs)
    return "%x %s %s %s" % (prec, hx(-n if neg else n), hx(exp if n else 0), vec(limbs))

def pick_len(rng, own, rprec):
    c = rng.random()
    if c < 0.08: return own + rng.randrange(2, 5)          # raw state: longer than own prec+1
    return max(1, rng.choice([1, 2, own - 1, own, own + 1, own + 1, rprec - 1, rprec, rprec + 1, rng.randrange(1, own + 2)]))

def rand_opnd(rng, rprec, exp=None, neg=None, n=None, cls=None):
    own = rng.choice(PRECS + [rprec, rng.randrange(2, 20)])
    if n is None: n = pick_len(rng, own, rprec)
    own = max(own, 2)
    lz = rng.choice([0, 0, 0, 1, 2, n - 1]) if n > 1 else 0
    l = limbs_nz(rng, n, cls, lz)
    if exp is None: exp = rng.choice([0, 1, -1, 2, n, n - 1, n + 1, rng.randrange(-40, 40), rng.randrange(-(1 << 40), 1 << 40)])
    if neg is None: neg = rng.random() < 0.4
    return (own, neg, exp, l)

def F(t): return fs(*t)

def alias_ok(mode, rprec, u, v):
    """predicate form only when an aliased operand is not longer than the destination's prec+1
       (otherwise an untouched/sign-flipped result legitimately keeps its mpf_set_prec_raw length)"""
    if mode in (1, 4) and len(u[3]) > rprec + 1: return False
    if mode == 2 and len(v[3]) > rprec + 1: return False
    return True

HUGE = [60, 1000, 1 << 20, 1 << 40]

def gen_prec(rng, tier):
    for b in [0, 1, 2, 52, 53, 54, 63, 64, 65, 66, 127, 128, 129, 191, 192, 193, 255, 256, 257, 1000, 1023, 1024, 1025, 4096, 99999] + \
             [rng.randrange(0, 5000) for _ in range(40)]:
        yield "mpf_prec_rt %x" % b
    for _ in range(120 if tier == "quick" else 600):
        p = rng.choice(PRECS + [rng.randrange(2, 12)])
        n = rng.choice([0, 1, p - 1, p, p + 1, p + 1, rng.randrange(0, p + 2)])
        u = (p, rng.random() < 0.4, rng.randrange(-5, 6), limbs_nz(rng, n))
        bits = rng.choice([0, 53, 64, 65, 128, 129, 192, 64 * (p - 1), 64 * (p - 1) + 1, 64 * (p - 2) if p > 2 else 1, 64 * p, rng.randrange(0, 64 * (p + 3))])
        yield "mpf_set_prec %s %x" % (F(u), bits)
        lowbits = rng.choice([0, 53, 64, 65, 128, 64 * (p - 1), rng.randrange(0, 64 * (p - 1) + 1)])
        lowbits = min(lowbits, 64 * (p - 1))
        k = rng.randrange(0, 6)
        if k == 3 and u[1]: u = (u[0], False, u[2], u[3])
        yield "mpf_set_prec_raw %s %x %x" % (F(u), lowbits, k)

def gen_addsub(rng, tier):
    reps = 6 if tier == "quick" else 30
    for rprec in PRECS + [rng.randrange(6, 14)]:
        eds = list(range(-(rprec + 3), rprec + 4)) + [s * h for h in HUGE for s in (1, -1)]
        for ed in eds:
            for _ in range(reps):
                u = rand_opnd(rng, rprec, exp=rng.choice([0, 1, 5, -3, rng.randrange(-100, 100)]))
                v = rand_opnd(rng, rprec, exp=u[2] - ed)
                mode = rng.choice([0, 0, 0, 1, 2])
                huge = abs(ed) > 2000
                for op in ("mpf_add", "mpf_sub"):
                    yield from both("%s %x %x %s %s" % (op, rprec, mode, F(u), F(v)), not huge and alias_ok(mode, rprec, u, v))
        # same variable twice, zero operands, equal values in distinct variables
        for _ in range(reps * 4):
            u = rand_opnd(rng, rprec); z = (rng.choice(PRECS), False, 0, [])
            v = rand_opnd(rng, rprec)
            for op in ("mpf_add", "mpf_sub"):
                m = rng.choice([3, 4])
                yield from both("%s %x %x %s %s" % (op, rprec, m, F(u), F(u)), alias_ok(m, rprec, u, u))
                m = rng.choice([0, 1, 2])
                yield from both("%s %x %x %s %s" % (op, rprec, m, F(u), F(z)), alias_ok(m, rprec, u, z))
                yield from both("%s %x %x %s %s" % (op, rprec, m, F(z), F(v)), alias_ok(m, rprec, z, v))
                yield from both("%s %x 0 %s %s" % (op, rprec, F(z), F(z)))
                w = (rng.choice(PRECS), u[1] if op == "mpf_sub" else not u[1], u[2], list(u[3]))
                yield from both("%s %x %x %s %s" % (op, rprec, m, F(u), F(w)), alias_ok(m, rprec, u, w))
                # same value, different limb counts (low zero limbs appended below)
                w2 = (w[0], w[1], w[2], [0] * rng.randrange(1, 4) + list(u[3]))
                yield from both("%s %x %x %s %s" % (op, rprec, m, F(u), F(w2)), alias_ok(m, rprec, u, w2))

def tail(rng, n):
    return [] if n <= 0 else rand_limbs(rng, n, rng.choice(["uniform", "zero", "ones", "runs", "sparse", "lowbit", "top"]))

def gen_cancel(rng, tier):
    """nearly cancelling operands for mpf_sub (and mpf_add with opposite signs); limbs written most significant first"""
    reps = 4 if tier == "quick" else 20
    def emit(rprec, ube, vbe, uexp, vexp):
        # big-endian limb lists -> operands; strip to satisfy top != 0
        while ube and ube[0] == 0: ube = ube[1:]; uexp -= 1
        while vbe and vbe[0] == 0: vbe = vbe[1:]; vexp -= 1
        u = (rng.choice(PRECS), False, uexp, ube[::-1]); v = (rng.choice(PRECS), False, vexp, vbe[::-1])
        for (a, b) in ((u, v), (v, u)):
            mode = rng.choice([0, 0, 1, 2])
            neg = rng.random() < 0.3
            a2 = (a[0], neg, a[2], a[3]); b2 = (b[0], neg, b[2], b[3])
            yield from both("mpf_sub %x %x %s %s" % (rprec, mode, F(a2), F(b2)), alias_ok(mode, rprec, a2, b2))
            b3 = (b[0], not neg, b[2], b[3])
            yield from both("mpf_add %x %x %s %s" % (rprec, mode, F(a2), F(b3)), alias_ok(mode, rprec, a2, b3))
    for rprec in PRECS:
        for k in range(0, 7):                       # number of 000/fff limb pairs
            for _ in range(reps):
                e = rng.randrange(-3, 8)
                x = rng.choice([0, 1, M - 1, rng.getrandbits(64) % (M - 1)])
                pre = rand_limbs(rng, rng.choice([0, 0, 1, 2, rprec]), "uniform")     # common leading limbs
                tu = rng.choice([0, 0, 1, 2, rprec - 1, rprec, rprec + 2]); tv = rng.choice([0, 0, 1, 2, rprec - 1, rprec, rprec + 2])
                # ediff == 0:  pre | x+1 | 000.. | tail   minus   pre | x | fff.. | tail
                yield from emit(rprec, pre + [x + 1] + [0] * k + tail(rng, tu), pre + [x] + [M] * k + tail(rng, tv), e, e)
                # u runs out during / right after the 000 run; v continues with more fff and a tail
                yield from emit(rprec, pre + [x + 1] + [0] * k, pre + [x] + [M] * (k + rng.randrange(0, 4)) + tail(rng, tv), e, e)
                # v runs out
                yield from emit(rprec, pre + [x + 1] + [0] * k + tail(rng, tu), pre + [x] + [M] * rng.randrange(0, k + 1), e, e)
                # ediff == 1:  1 | 000.. | tail   minus   fff.. | tail   (one limb lower)
                yield from emit(rprec, [1] + [0] * k + tail(rng, tu), [M] * (k + 1) + tail(rng, tv), e, e - 1)
                yield from emit(rprec, [1] + [0] * k, [M] * (k + 1 + rng.randrange(0, 3)) + tail(rng, tv), e, e - 1)
                # near misses of the pattern
                yield from emit(rprec, [1] + [0] * k + tail(rng, tu), [M] * k + [M - 1] + tail(rng, tv), e, e - 1)
                yield from emit(rprec, [2] + [0] * k + tail(rng, tu), [M] * (k + 1) + tail(rng, tv), e, e - 1)
                yield from emit(rprec, [1, 1] + [0] * k + tail(rng, tu), [M] * (k + 1) + tail(rng, tv), e, e - 1)
                yield from emit(rprec, pre + [min(x + 2, M)] + [0] * k + tail(rng, tu), pre + [x] + [M] * k + tail(rng, tv), e, e)
                # common leading limbs only; one operand a prefix of the other, possibly followed by zero limbs
                c = rand_limbs(rng, k + 1, "uniform")
                yield from emit(rprec, c + tail(rng, tu), c + tail(rng, tv), e, e)
                yield from emit(rprec, c, c + [0] * rng.randrange(0, 3) + tail(rng, max(tv, 1)), e, e)
                yield from emit(rprec, c + [0] * rng.randrange(1, 3) + [rng.getrandbits(64) | 1], c, e, e)
                yield from emit(rprec, c, c, e, e)
                yield from emit(rprec, c + [0] * 2, c, e, e)

def gen_muldiv(rng, tier):
    reps = 80 if tier == "quick" else 500
    for rprec in PRECS + [rng.randrange(6, 14)]:
        for _ in range(reps):
            u = rand_opnd(rng, rprec, exp=rng.choice([0, 1, -1, 7, rng.randrange(-(1 << 40), 1 << 40)]))
            v = rand_opnd(rng, rprec, exp=rng.choice([0, 1, -1, 7, rng.randrange(-(1 << 40), 1 << 40)]))
            mode = rng.choice([0, 0, 0, 1, 2, 3, 4])
            yield from both("mpf_mul %x %x %s %s" % (rprec, mode, F(u), F(v)))
            yield from both("mpf_div %x %x %s %s" % (rprec, mode, F(u), F(v)))
        # exactly representable products / quotients, powers of B, all-ones
        for _ in range(reps // 2):
            a = rng.randrange(1, rprec); b = rng.randrange(1, rprec + 1 - a) if rprec - a >= 1 else 1
            u = (rng.choice(PRECS), rng.random() < 0.5, rng.randrange(-5, 6), limbs_nz(rng, a, rng.choice(["uniform", "ones", "top", "lowbit"])))
            v = (rng.choice(PRECS), rng.random() < 0.5, rng.randrange(-5, 6), limbs_nz(rng, b, rng.choice(["uniform", "ones", "top", "lowbit"])))
            yield from both("mpf_mul %x 0 %s %s" % (rprec, F(u), F(v)))
            # quotient exact: dividend = u * v
            prod = limbs_of(sum(x << (64 * i) for i, x in enumerate(u[3])) * sum(x << (64 * i) for i, x in enumerate(v[3])))
            w = (rng.choice(PRECS), False, rng.randrange(-5, 6), prod)
            yield from both("mpf_div %x 0 %s %s" % (rprec, F(w), F(v)))
        z = (2, False, 0, [])
        for _ in range(6):
            u = rand_opnd(rng, rprec)
            yield from both("mpf_mul %x 0 %s %s" % (rprec, F(u), F(z)))
            yield from both("mpf_mul %x 2 %s %s" % (rprec, F(z), F(u)), len(u[3]) <= rprec + 1)
            yield from both("mpf_div %x 0 %s %s" % (rprec, F(u), F(z)))          # -> !div0
            yield from both("mpf_div %x 1 %s %s" % (rprec, F(z), F(u)))
            yield from both("mpf_div %x 0 %s %s" % (rprec, F(z), F(z)))          # -> !div0
            yield from both("mpf_div_ui %x 0 %s 0" % (rprec, F(u)))              # -> !div0
            yield from both("mpf_ui_div %x 0 %s %x" % (rprec, F(z), rand_limb(rng)))   # -> !div0

def gen_sqrt(rng, tier):
    reps = 60 if tier == "quick" else 400
    for rprec in PRECS + [rng.randrange(6, 14)]:
        for _ in range(reps):
            n = rng.choice([1, 2, rprec, 2 * rprec - 2, 2 * rprec - 1, 2 * rprec, 2 * rprec + 1, 2 * rprec + 3, rng.randrange(1, 2 * rprec + 4)])
            u = (rng.choice(PRECS), False, rng.choice([0, 1, 2, 3, -1, -2, -3, rng.randrange(-50, 50), rng.randrange(-(1 << 40), 1 << 40)]), limbs_nz(rng, n))
            mode = rng.choice([0, 0, 1])
            yield from both("mpf_sqrt %x %x %s" % (rprec, mode, F(u)))
        for _ in range(reps // 2):                 # perfect squares
            a = rng.randrange(1, rprec + 1)
            s = sum(x << (64 * i) for i, x in enumerate(limbs_nz(rng, a, rng.choice(["uniform", "ones", "top", "lowbit", "onebit"]))))
            sq = limbs_of(s * s)
            while sq and sq[0] == 0 and rng.random() < 0.5: sq = sq[1:]
            yield from both("mpf_sqrt %x 0 %s" % (rprec, fs(rng.choice(PRECS), False, rng.randrange(-6, 7), sq)))
        yield from both("mpf_sqrt %x 0 %s" % (rprec, fs(2, False, 0, [])))
        yield from both("mpf_sqrt %x 1 %s" % (rprec, fs(2, True, rng.randrange(-3, 4), limbs_nz(rng, rng.randrange(1, 4)))))   # -> !sqrtneg
        for w in [0, 1, 2, 3, 4, 1 << 63, M, (1 << 32) ** 2 - 1, (1 << 32) ** 2 >> 2] + [rand_limb(rng) for _ in range(10)]:
            yield from both("mpf_sqrt_ui %x %x" % (rprec, w))

UIS = [0, 1, 2, 1 << 63, M, M - 1, (1 << 63) - 1, 1 << 32]

def gen_ui(rng, tier):
    reps = 5 if tier == "quick" else 25
    for rprec in PRECS + [rng.randrange(6, 14)]:
        for uexp in list(range(-(rprec + 3), rprec + 5)) + [-(1 << 40), 1 << 40, -1000, 1000]:
            for _ in range(reps):
                u = rand_opnd(rng, rprec, exp=uexp)
                w = rng.choice(UIS + [rand_limb(rng)] * 4)
                mode = rng.choice([0, 0, 1])
                ok = alias_ok(mode, rprec, u, u) and abs(uexp) < 2000
                for op in ("mpf_add_ui", "mpf_sub_ui", "mpf_ui_sub"):
                    yield from both("%s %x %x %s %x" % (op, rprec, mode, F(u), w), ok)
                ok = alias_ok(mode, rprec, u, u)
                w = rng.choice(UIS + [rand_limb(rng)] * 4)
                yield from both("mpf_mul_ui %x %x %s %x" % (rprec, mode, F(u), w), ok)
                if w: yield from both("mpf_div_ui %x %x %s %x" % (rprec, mode, F(u), w), ok)
                yield from both("mpf_ui_div %x %x %s %x" % (rprec, mode, F(u), w), ok)
        # u +- ui with u's integer limb equal / adjacent to ui (cancellation in sub_ui / ui_sub), carries in add_ui
        for _ in range(reps * 10):
            w = rng.choice([1, 2, 1 << 63, M, M - 1, rand_limb(rng) | 1])
            fr = tail(rng, rng.choice([0, 1, 2, rprec - 1, rprec, rprec + 1]))
            ip = rng.choice([w, w, (w + 1) & M or 1, max(w - 1, 1)])
            l = (fr[::-1] if fr else []) + [ip]
            while len(l) > 1 and l[0] == 0 and rng.random() < 0.3: l = l[1:]
            u = (rng.choice(PRECS), rng.random() < 0.3, 1, l)
            mode = rng.choice([0, 0, 1])
            ok = alias_ok(mode, rprec, u, u)
            for op in ("mpf_add_ui", "mpf_sub_ui", "mpf_ui_sub"):
                yield from both("%s %x %x %s %x" % (op, rprec, mode, F(u), w), ok)
            # add_ui carry out of the integer part
            n = rng.randrange(1, rprec + 2); ie = rng.randrange(1, n + 1)
            l = tail(rng, n - ie) + [M] * ie
            l[-1] = l[-1] or 1
            if not l[-1]: l[-1] = 1
            u = (rng.choice(PRECS), False, ie, l)
            yield from both("mpf_add_ui %x %x %s %x" % (rprec, mode, F(u), rng.choice([1, M, rand_limb(rng)])), alias_ok(mode, rprec, u, u))
        z = fs(2, False, 0, [])
        for w in UIS:
            for op in ("mpf_add_ui", "mpf_sub_ui", "mpf_ui_sub", "mpf_mul_ui"):
                yield from both("%s %x 0 %s %x" % (op, rprec, z, w))
            yield from both("mpf_set_ui %x %x" % (rprec, w))
            if w < (1 << 63) + 1: yield from both("mpf_set_si %x -%x" % (rprec, w))
            if w < (1 << 63): yield from both("mpf_set_si %x %x" % (rprec, w))

def gen_exact(rng, tier):
    reps = 100 if tier == "quick" else 600
    for rprec in PRECS + [rng.randrange(6, 14)]:
        for _ in range(reps):
            n = rng.choice([1, 2, rprec - 1, rprec, rprec + 1, rprec + 2, rprec + 4])
            e = rng.choice([0, 1, -1, -2, 2, n - 1, n, n + 1, n + 5, rprec, rprec + 1, rprec + 2, rng.randrange(-(1 << 40), 1 << 40)])
            cls = rng.choice([None, None, "ones", "uniform"])
            u = (rng.choice(PRECS), rng.random() < 0.5, e, limbs_nz(rng, n, cls, rng.choice([0, 0, 1, 2])))
            if rng.random() < 0.2 and 0 < e <= n:        # integer part all ones: ceil/floor carry into a new limb
                l = list(u[3]);
                for i in range(n - e, n): l[i] = M
                u = (u[0], u[1], u[2], l)
            mode = rng.choice([0, 0, 1])
            okal = alias_ok(mode, rprec, u, u)
            for op in ("mpf_neg", "mpf_abs", "mpf_set", "mpf_floor", "mpf_ceil", "mpf_trunc"):
                yield from both("%s %x %x %s" % (op, rprec, mode, F(u)), okal)
            sh = rng.choice([0, 1, 63, 64, 65, 127, 128, rng.randrange(0, 64), rng.randrange(0, 5000), 64 * rng.randrange(0, 50), 1 << 40])
            yield from both("mpf_mul_2exp %x %x %s %x" % (rprec, mode, F(u), sh), okal)
            yield from both("mpf_div_2exp %x %x %s %x" % (rprec, mode, F(u), sh), okal)
            yield from both("mpf_integer_p13 %s" % F(u))
            v = rand_opnd(rng, rprec, exp=rng.choice([e, e, e + 1, e - 1]), neg=rng.choice([u[1], u[1], not u[1]]))
            yield from both("mpf_cmp13 %s %s" % (F(u), F(v)))
            w = (v[0], u[1], u[2], [0] * rng.randrange(0, 3) + list(u[3]))          # equal value, extra low zero limbs
            yield from both("mpf_cmp13 %s %s" % (F(u), F(w)))
            yield from both("mpf_cmp13 %s %s" % (F(w), F(u)))
            l2 = list(u[3]); i = rng.randrange(len(l2)); l2[i] ^= 1 << rng.randrange(64)
            if l2[-1]:
                w2 = (v[0], u[1], u[2], l2)
                yield from both("mpf_cmp13 %s %s" % (F(u), F(w2)))
                nb = rng.choice([1, 2, 63, 64, 65, 64 * len(l2), 64 * len(l2) - 1, 64 * (len(l2) - i), 64 * (len(l2) - i) - 70 if len(l2) - i > 1 else 5, rng.randrange(1, 64 * len(l2) + 130)])
                yield "mpf_eq %s %s %x" % (F(u), F(w2), max(nb, 1))
                yield "mpf_eq %s %s %x" % (F(u), F(w), max(nb, 1))
            yield "mpf_eq %s %s %x" % (F(u), F(v), rng.randrange(0, 300))
            # n_bits = 0 / tiny with (prec+1)-limb operands whose top bit is set (eq.c read up[usize] before 9e50076)
            p1 = rng.choice(PRECS); t1 = limbs_nz(rng, p1 + 1); t1[-1] |= 1 << 63
            t2 = limbs_nz(rng, p1 + 1); t2[-1] |= 1 << 63
            for nb in (0, 0, 1, rng.randrange(0, 3)):
                yield "mpf_eq %s %s %x" % (fs(p1, u[1], e, t1), fs(p1, u[1], e, rng.choice([t1, t2])), nb)
        z = fs(2, False, 0, [])
        for op in ("mpf_neg", "mpf_abs", "mpf_set", "mpf_floor", "mpf_ceil", "mpf_trunc"):
            yield from both("%s %x 0 %s" % (op, rprec, z))
        yield from both("mpf_mul_2exp %x 0 %s 5" % (rprec, z)); yield from both("mpf_div_2exp %x 1 %s 45" % (rprec, z))
        yield from both("mpf_integer_p13 %s" % z); yield from both("mpf_cmp13 %s %s" % (z, z))

def gen_set(rng, tier):
    reps = 60 if tier == "quick" else 400
    for rprec in PRECS + [rng.randrange(6, 14)]:
        for _ in range(reps):
            nz = rng.choice([0, 1, rprec - 1, rprec, rprec + 1, rprec + 2, rprec + 5])
            zv = sum(x << (64 * i) for i, x in enumerate(limbs_nz(rng, nz, None, rng.choice([0, 0, 1, 2]))))
            if rng.random() < 0.4: zv = -zv
            yield from both("mpf_set_z %x %s" % (rprec, hx(zv)))
            nn = rng.choice([0, 1, 2, rprec, rprec + 1, rprec + 3, rng.randrange(0, 2 * rprec + 3)]); nd = rng.choice([1, 1, 2, rprec, rprec + 1, rprec + 3, rng.randrange(1, 2 * rprec + 3)])
            num = sum(x << (64 * i) for i, x in enumerate(limbs_nz(rng, nn)))
            den = sum(x << (64 * i) for i, x in enumerate(limbs_nz(rng, nd, rng.choice([None, None, "onebit", "lowbit", "top"]))))
            if rng.random() < 0.2: num = den * rng.randrange(1, 1 << 70)
            if rng.random() < 0.4: num = -num
            yield from both("mpf_set_q %x %s %x" % (rprec, hx(num), den))
        # doubles: every shift count of extract_double, denormals, extremes, specials
        ds = [0, 1 << 63, 1, (1 << 52) - 1, 1 << 52, (1 << 52) | 1, 0x7fefffffffffffff, 0x7ff0000000000000, 0xfff0000000000000, 0x7ff8000000000001, 0x3ff0000000000000, 0xbff0000000000000]
        ds += [((1023 + k) << 52) | rng.choice([0, 1, (1 << 52) - 1, rng.getrandbits(52)]) | (rng.getrandbits(1) << 63) for k in range(-70, 71)]
        ds += [rng.getrandbits(64) for _ in range(reps)] + [rng.getrandbits(52 - rng.randrange(0, 52)) for _ in range(20)]
        for b in ds: yield from both("mpf_set_d13 %x %x" % (rprec, b))

def gen_all(rng, tier):
    yield from gen_prec(rng, tier)
    yield from gen_addsub(rng, tier)
    yield from gen_cancel(rng, tier)
    yield from gen_muldiv(rng, tier)
    yield from gen_sqrt(rng, tier)
    yield from gen_ui(rng, tier)
    yield from gen_exact(rng, tier)
    yield from gen_set(rng, tier)

def gen_ops(rng, tier, ctx=None):
    yield from gen_all(rng, tier)

def nontrivial(line):
    return line if line.startswith("mpf_") and "[" in line or line.startswith("mpf_set_") else None
