"""C01 — main module (parts: c01_*.py are merged automatically)."""
LEVEL = "proof"
LEAN_MODULES = []
THEOREMS = []
TRUSTED = []
ASSUMPTIONS = []
LEVEL_TEXT = "Lean theorems: the limb-level leaf kernels (mul_1/addmul_1/submul_1/mul_basecase) compute exact products for all lengths; the mpz layer's sign/size/alias logic refines integer multiplication; Karatsuba/Toom evaluation-interpolation sequences are exact over the integers; the size dispatch extracted from mul.c calls every algorithm inside its domain; the FFT parameter selection satisfies the no-wrap conditions. The models run against the rebuilt library on every check across all crossovers, unbalanced ratios and worst-case data."
LEVEL_NOTE = 'Limb-level carry/sign bookkeeping inside Karatsuba/Toom/FFT code and the three assembly basecases are covered by the differential run only; thresholds and FFT tables are regenerated from the source on every run.'
PLACEHOLDER = True
