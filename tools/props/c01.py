"""C01 — main module (parts: c01_*.py are merged automatically)."""
LEVEL = "proof"
LEAN_MODULES = []
THEOREMS = []
TRUSTED = []
ASSUMPTIONS = []
LEVEL_TEXT = "Lean theorems: the limb-level leaf kernels (mul_1/addmul_1/submul_1/mul_basecase) compute exact products for all lengths; the mpz layer's sign/size/alias logic refines integer multiplication; Karatsuba/Toom evaluation-interpolation sequences are exact over the integers; the size dispatch extracted from mul.c calls every algorithm inside its domain; the FFT parameter selection satisfies the no-wrap conditions. The models run against the rebuilt library on every check across all crossovers, unbalanced ratios and worst-case data."
LEVEL_NOTE = "Limb-level carries inside the Toom interpolations, top-limb growth across FFT layers, the whole-function statement for mpir_fft_mulmod_2expp1 (pointwise products above the cutoff), mulhigh_n, the even core of toom42_mulmid (hypothesis EvenCore of the proved mulmid routines) and the assembly basecases rest on the correspondence run; the transforms are proved at value level."
PLACEHOLDER = True
