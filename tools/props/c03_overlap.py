"""C03 part: the overlap clause — "…for every source/destination overlap the manual permits".
Memory-level models (lean/Mpir/Model/KernelsMem.lean: memory = address -> limb, loads/stores in the order of the C)
with theorems for ALL sizes, contents and pointer positions satisfying the C's own overlap ASSERT; tied by the ops
`mem_*` (harness/ops_kernmem.c, lean/Mpir/Ops/KernelsMem.lean) which run the real function / the model on one
buffer at given offsets and compare the WHOLE buffer afterwards (result region + frame) and the return value.
The generator never requests an overlap the manual forbids (the harness would refuse it).
Merged into C03 by tools/check.py."""
from genlib import *

LEAN_MODULES = ["MpirProofs.Props.C03_overlap"]
THEOREMS = ["Mpir.Mem.lshift_mem_overlap", "Mpir.Mem.rshift_mem_overlap", "Mpir.Mem.copyi_mem_overlap", "Mpir.Mem.copyd_mem_overlap",
            "Mpir.Mem.add_n_mem_inplace", "Mpir.Mem.sub_n_mem_inplace", "Mpir.Mem.add_1_mem", "Mpir.Mem.sub_1_mem",
            "Mpir.Mem.add_mem", "Mpir.Mem.sub_mem", "Mpir.Mem.mul_1_mem_overlap", "Mpir.Mem.addmul_1_mem", "Mpir.Mem.submul_1_mem",
            "Mpir.Mem.com_n_mem", "Mpir.Mem.neg_n_mem", "Mpir.Mem.lshift_mem_val"]
TRUSTED = ["hand-written memory-level models lean/Mpir/Model/KernelsMem.lean (load/store order of mpn/generic/*.c and the mpir.h inlines; "
           "tied by correspondence on whole buffers, every permitted offset, on every run; also replayed under AddressSanitizer)"]
ASSUMPTIONS = ["memory model: flat word-addressed memory, one load/store per C access in source order; the compiler may reorder or widen accesses "
               "only as far as C semantics for possibly-aliasing (non-restrict) pointers allow — that step is covered by the differential run, not by the theorems",
               "mpn_add/mpn_sub/mpn_add_1/mpn_sub_1/mpn_neg_n are the mpir.h inline bodies (the library objects add.c, add_1.c, … compile the same text)"]
RULE = ("overlap: every kernel at n = 1..20 and a few large sizes x every offset rp-up in {-n-1..n+1} that the function's overlap rule permits "
        "(lshift/copyd: rp>=up or separate; rshift/copyi/mul_1: rp<=up or separate; others: same or separate; add_n/sub_n: {rp=up, rp=vp, all same, "
        "separate} x sources overlapping each other; add/sub: wp=xp, wp=yp with ysize<xsize, separate), whole buffer compared (result + frame), "
        "shift counts 1..63, data classes of genlib plus carry chains stopping at every position / zero runs of every length")

PAD_CLASSES = ["uniform", "ones", "sparse"]

def _buf(rng, length, regions):
    """a buffer of `length` limbs: uniform random, each (off, limbs) of `regions` stored on top (later ones win)"""
    b = [rng.getrandbits(64) for _ in range(length)]
    for off, l in regions:
        b[off:off + len(l)] = l
    return b

def _layout(rng, offs_sizes):
    """place regions given as {name: (relative offset, size)} into one buffer with 1..2 pad limbs on both sides;
    returns (absolute offsets dict, total length)"""
    lo = min(o for o, _ in offs_sizes.values()); hi = max(o + s for o, s in offs_sizes.values())
    pad1, pad2 = rng.randrange(1, 3), rng.randrange(1, 3)
    return {k: o - lo + pad1 for k, (o, _) in offs_sizes.items()}, hi - lo + pad1 + pad2

def permitted(rule, d, n):
    """d = rp - up; the predicates of gmp-impl.h"""
    overlap = -n < d < n
    if rule == "decr": return d >= 0 or not overlap           # MPN_SAME_OR_DECR_P
    if rule == "incr": return d <= 0 or not overlap           # MPN_SAME_OR_INCR_P
    return d == 0 or not overlap                              # MPN_SAME_OR_SEPARATE_P

def offsets(rng, rule, n, tier):
    ds = [d for d in range(-n - 1, n + 2) if permitted(rule, d, n)]
    if n > 20:   # large sizes: the boundary offsets and a few inside
        keep = {-n - 1, -n, -n + 1, -2, -1, 0, 1, 2, n - 1, n, n + 1}
        inner = [d for d in ds if d not in keep]
        ds = [d for d in ds if d in keep] + rng.sample(inner, min(len(inner), 3 if tier == "quick" else 10))
    return ds

def src_data(rng, n, kind):
    """source operand classes: genlib classes plus directed ones"""
    if kind == "chain":      # all ones up to a random stop: add_1/incr carry runs, shifts with every bit crossing
        st = rng.randrange(0, n + 1); l = [M] * n
        if st < n: l[st] = rng.getrandbits(63)
        return l
    if kind == "zrun":       # zero run then arbitrary: sub_1/decr borrow runs, neg_n's zero loop
        z = rng.randrange(0, n + 1)
        return [0] * z + [rng.getrandbits(64) | 1 for _ in range(n - z)]
    return rand_limbs(rng, n, kind)

SRC_KINDS = DATA_CLASSES + ["chain", "zrun"]

ONE_SRC = [  # op, rule, extra argument kind
    ("mem_lshift", "decr", "cnt"), ("mem_rshift", "incr", "cnt"), ("mem_copyi", "incr", None), ("mem_copyd", "decr", None),
    ("mem_mul_1", "incr", "limb"), ("mem_addmul_1", "sep", "limb"), ("mem_submul_1", "sep", "limb"),
    ("mem_add_1", "sep", "limb1"), ("mem_sub_1", "sep", "limb1"), ("mem_com_n", "sep", None), ("mem_neg_n", "sep", None)]

def one_src(rng, op, extra, n, d, kind):
    off, length = _layout(rng, {"up": (0, n), "rp": (d, n)})
    b = _buf(rng, length, [(off["up"], src_data(rng, n, kind))])
    s = "%s %s %x %x %x" % (op, vec(b), off["up"], off["rp"], n)
    if extra == "cnt": s += " %x" % rng.randrange(1, 64)
    elif extra == "limb": s += " %x" % rand_limb(rng)
    elif extra == "limb1": s += " %x" % rng.choice([1, 1, 1, 0, M, rand_limb(rng)])
    return s

def gen_ops(rng, tier, ctx=None):
    thorough = tier != "quick"
    small = list(range(1, 21))
    large = [33, 64, 100, 257, 500] + ([1000, 2000] if thorough else [])
    reps = 3 if thorough else 2
    # --- one source, one destination: every permitted offset
    for op, rule, extra in ONE_SRC:
        for n in small + large:
            for d in offsets(rng, rule, n, tier):
                kinds = SRC_KINDS if (thorough and n <= 20) else [rng.choice(SRC_KINDS) for _ in range(4 if rule == "sep" else reps)]
                if op in ("mem_add_1", "mem_neg_n") and "chain" not in kinds: kinds = kinds + ["chain"]
                if op in ("mem_sub_1", "mem_neg_n") and "zrun" not in kinds: kinds = kinds + ["zrun"]
                for kind in kinds:
                    yield one_src(rng, op, extra, n, d, kind)
        if op in ("mem_copyi", "mem_copyd"):      # n = 0 is allowed for the copies
            for d in (-1, 0, 1):
                off, length = _layout(rng, {"up": (0, 0), "rp": (d, 0)})
                yield "%s %s %x %x 0" % (op, vec(_buf(rng, length, [])), off["up"], off["rp"])
    # --- every shift count at a few sizes and permitted overlapping offsets
    for cnt in range(1, 64):
        for n in (1, 2, 3, 9):
            for op, sign in (("mem_lshift", 1), ("mem_rshift", -1)):
                d = sign * rng.choice([0, 1, min(2, n), n - 1 if n > 1 else 0, n])
                off, length = _layout(rng, {"up": (0, n), "rp": (d, n)})
                b = _buf(rng, length, [(off["up"], rand_limbs(rng, n, rng.choice(["uniform", "ones", "runs"])))])
                yield "%s %s %x %x %x %x" % (op, vec(b), off["up"], off["rp"], n, cnt)
    # --- add_n / sub_n: rp vs up and rp vs vp each same or separate; the sources may overlap each other freely
    for op in ("mem_add_n", "mem_sub_n"):
        for n in small + large[:2]:
            seps = [-n - 1, -n, 0, n, n + 1]
            for du in seps:
                for dv in seps:
                    off, length = _layout(rng, {"up": (-du, n), "vp": (-dv, n), "rp": (0, n)})
                    regs = [(off["up"], src_data(rng, n, rng.choice(SRC_KINDS))), (off["vp"], src_data(rng, n, rng.choice(SRC_KINDS)))]
                    yield "%s %s %x %x %x %x" % (op, vec(_buf(rng, length, regs)), off["up"], off["vp"], off["rp"], n)
            # sources partially overlapping each other, destination separate from both or equal to one of them
            for _ in range(4 * reps):
                k = rng.randrange(-n, n + 1)                     # vp - up
                lo, hi = min(0, k), max(0, k) + n
                rpo = rng.choice([0, k, lo - n, lo - n - 1, hi, hi + 1])
                if not (permitted("sep", rpo, n) and permitted("sep", rpo - k, n)): continue
                off, length = _layout(rng, {"up": (0, n), "vp": (k, n), "rp": (rpo, n)})
                b = _buf(rng, length, [(min(off["up"], off["vp"]), src_data(rng, n + abs(k), rng.choice(SRC_KINDS)))])
                yield "%s %s %x %x %x %x" % (op, vec(b), off["up"], off["vp"], off["rp"], n)
            # carry / borrow chains stopping at each position, in place on either operand
            for st in range(n + 1) if n <= 20 else (0, n // 2, n):
                u = [M] * n; v = [0] * n; v[0] = 1
                if st < n: u[st] = rng.getrandbits(63)
                if op == "mem_sub_n":
                    u = [0] * n
                    if st < n: u[st] = 1 + rng.getrandbits(62)
                mode = rng.choice(["up", "vp", "sep"])
                rel = {"up": {"up": (0, n), "vp": (n + 1, n), "rp": (0, n)}, "vp": {"up": (0, n), "vp": (n, n), "rp": (n, n)},
                       "sep": {"up": (0, n), "vp": (n, n), "rp": (2 * n, n)}}[mode]
                off, length = _layout(rng, rel)
                yield "%s %s %x %x %x %x" % (op, vec(_buf(rng, length, [(off["up"], u), (off["vp"], v)])), off["up"], off["vp"], off["rp"], n)
    # --- mpn_add / mpn_sub (xsize >= ysize >= 0): wp = xp or separate; wp = yp (any ysize) or separate
    for op in ("mem_add", "mem_sub"):
        for xn in list(range(1, 13)) + [20, 33] + ([100] if thorough else []):
            yns = sorted(set([0, 1, xn // 2, max(0, xn - 1), xn]))
            for yn in yns:
                for dx in (-xn - 1, -xn, 0, xn, xn + 1):          # wp - xp
                    # y placed relative to w: same pointer, just below, just above, further away; must not break x's rule by itself (x,y may overlap)
                    for ymode in ("same", "below", "above", "inx"):
                        wp = 0; xp = -dx
                        if ymode == "same": yp = wp
                        elif ymode == "below": yp = wp - yn - rng.randrange(0, 2)
                        elif ymode == "above": yp = wp + xn + rng.randrange(0, 2)
                        else:
                            if dx == 0 or yn > xn: continue
                            yp = xp + rng.randrange(0, xn - yn + 1)     # y inside x (sources may overlap), x separate from w
                        off, length = _layout(rng, {"xp": (xp, xn), "yp": (yp, max(yn, 1)), "wp": (wp, xn)})
                        kind = rng.choice(SRC_KINDS)
                        x = src_data(rng, xn, "chain" if op == "mem_add" and rng.random() < 0.5 else "zrun" if rng.random() < 0.5 else kind)
                        y = rand_limbs(rng, yn, rng.choice(["uniform", "lowbit", "ones"])) if yn else []
                        regs = [(off["xp"], x), (off["yp"], y)] if rng.random() < 0.5 or ymode == "inx" else [(off["yp"], y), (off["xp"], x)]
                        if ymode == "inx": regs = [(off["xp"], x)]
                        yield "%s %s %x %x %x %x %x" % (op, vec(_buf(rng, length, regs)), off["xp"], xn, off["yp"], yn, off["wp"])

def nontrivial(line):
    return line if line.startswith("mem_") else None

# source pins: the C text the memory-level models mirror statement by statement
PINS = [("mpn/generic/lshift.c", "mpn_lshift"), ("mpn/generic/rshift.c", "mpn_rshift"), ("mpn/generic/add_n.c", "mpn_add_n"),
        ("mpn/generic/sub_n.c", "mpn_sub_n"), ("mpn/generic/mul_1.c", "mpn_mul_1"), ("mpn/generic/addmul_1.c", "mpn_addmul_1"),
        ("mpn/generic/submul_1.c", "mpn_submul_1"), ("mpn/generic/com_n.c", "mpn_com_n"),
        ("mpn/generic/copyi.c", None), ("mpn/generic/copyd.c", None),
        ("gmp-impl.h", "MPN_COPY_INCR#2"), ("gmp-impl.h", "MPN_COPY_DECR#2"),   # #2: the generic (non HAVE_NATIVE) variant
        ("gmp-impl.h", "MPN_OVERLAP_P"), ("gmp-impl.h", "MPN_SAME_OR_SEPARATE_P"), ("gmp-impl.h", "MPN_SAME_OR_SEPARATE2_P"),
        ("gmp-impl.h", "MPN_SAME_OR_INCR_P"), ("gmp-impl.h", "MPN_SAME_OR_INCR2_P"), ("gmp-impl.h", "MPN_SAME_OR_DECR_P"), ("gmp-impl.h", "MPN_SAME_OR_DECR2_P"),
        ("mpir.h", "__GMPN_AORS_1"), ("mpir.h", "__GMPN_AORS"), ("mpir.h", "__GMPN_ADD"), ("mpir.h", "__GMPN_SUB"),
        ("mpir.h", "__GMPN_ADDCB"), ("mpir.h", "__GMPN_SUBCB"), ("mpir.h", "__GMPN_COPY_REST#2"), ("mpir.h", "__GMPN_COPY"), ("mpir.h", "mpn_neg_n")]
