"""C02 part: schoolbook division mpn_sb_div_qr — theorem for all lengths and limb contents about the limb-for-limb
model lean/Mpir/Model/SbDiv.lean (MpirProofs/Props/C02_sb.lean), plus directed inputs for its rare branches.

Directed recipes come from the case analysis of the proof (MpirProofs/Lemmas/SbDiv.lean):
 * add-back (sb_div_qr.c:94-98): the 3/2 estimate q is one too large exactly when the window W = q*d - e with
   1 <= e <= q*dlo (dlo = the divisor without its two top limbs), so n = (A*d - e)*B^i + low with a non-zero low
   limb of A reaches it at the step that produces that limb (regular_b).
 * `n1 == d1 && np[1] == d0` (sb_div_qr.c:78-83): the partial remainder agrees with d in its two top limbs, i.e. it is
   d - 1 - e with e < dlo; n = (A*d + d - 1 - e)*B^i + low with i >= 1 (sbSpecial_spec).
 * qh = 1: the dn high limbs of n are >= d (sb_init).
The python mirror of the model below is run on every generated input to COUNT the branches taken
(`python3 tools/props/c02_sb.py [quick|thorough]`; the counts go into the evidence as coverage.c02_sb_model_branches).
Quick tier, seed 1, standalone (`python3 tools/props/c02_sb.py`): plain 7790, special 2216, addback 1034, qh1 370 over 1636 ops.
"""
import collections, random, sys, os
sys.path.insert(0, os.path.dirname(os.path.dirname(os.path.abspath(__file__))))
from genlib import *

LEAN_MODULES = ["MpirProofs.Props.C02_sb"]
THEOREMS = ["Mpir.SbDiv.sb_div_qr_val", "Mpir.SbDiv.sb_div_qr_floor", "Mpir.SbDiv.sb_div_qr_contract"]
PINS = [("mpn/generic/sb_div_qr.c", None), ("gmp-impl.h", "udiv_qr_3by2"), ("gmp-impl.h", "mpir_invert_pi1"),
        ("mpn/x86_64/longlong_inc.h", "sub_333")]
TRUSTED = ["hand-written limb-level model of mpn_sb_div_qr in lean/Mpir/Model/SbDiv.lean (window form of the pointer walk; tied by correspondence on every run)"]
ASSUMPTIONS = ["sub_333 is the three-limb subtraction of mpn/x86_64/longlong_inc.h (subq/sbbq/sbbq); the dividend limbs above np[dn-1] that the C leaves behind are scratch and not modelled"]
RULE = ("mpn_sb_div_qr: dn in 3..9 and 16, qn in 0..dn+2, divisors with all-ones / zero / random low limbs; dividends built backwards "
        "to force the add-back, the q = B-1 branch and qh = 1 at every loop position")

BR = collections.Counter()
def _val(l): return sum(x << (64 * i) for i, x in enumerate(l))

def m_step(dp, d1, d0, a, n1):
    """mirror of Mpir.SbDiv.sbStep (values only)"""
    dn = len(dp) - 2
    if n1 == d1 and a[dn + 1] == d0:
        BR["special"] += 1
        r = limbs_of((_val(a) - _val(dp) * M) % B ** (dn + 2), dn + 2)
        return M, r[:dn + 1], r[dn + 1]
    q, rem = divmod(n1 * B * B + a[dn + 1] * B + a[dn], d1 * B + d0)
    t = _val(a[:dn]) - _val(dp[:dn]) * q
    rl = limbs_of(t % B ** dn, dn)
    cy2 = (_val(rl) - t) >> (64 * dn)
    t3 = (rem - cy2) % B ** 3
    cy, n1s, n0s = t3 >> 128, (t3 >> 64) & M, t3 & M
    r = rl + [n0s]
    if cy:
        BR["addback"] += 1
        s = _val(r) + _val(dp[:dn + 1])
        return (q - 1) % B, limbs_of(s % B ** (dn + 1), dn + 1), (n1s + d1 + (s >> (64 * (dn + 1)))) % B
    BR["plain"] += 1
    return q, r, n1s

def m_sb_div_qr(n, d):
    nn, dn = len(n), len(d)
    hi = n[nn - dn:]
    qh = 1 if _val(hi) >= _val(d) else 0
    if qh: hi = limbs_of(_val(hi) - _val(d), dn); BR["qh1"] += 1
    w, n1, qs = hi[:dn - 1], hi[dn - 1], []
    for x in reversed(n[:nn - dn]):
        q, w, n1 = m_step(d, d[-1], d[-2], [x] + w, n1)
        qs = [q] + qs
    return qs, w + [n1], qh

def _divisors(rng, dn):
    top = [1 << 63, M, (1 << 63) + 1, rng.getrandbits(64) | 1 << 63]
    nxt = [0, 1, M, rng.getrandbits(64)]
    for lowcls in ("ones", "uniform", "lowbit", "runs"):
        low = rand_limbs(rng, dn - 2, lowcls)
        yield low + [rng.choice(nxt), rng.choice(top)]

def gen_ops(rng, tier, ctx=None):
    quick = tier == "quick"
    def emit(nv, nn, d):
        n = limbs_of(nv, nn)
        q, r, qh = m_sb_div_qr(n, d)                     # counts branches; self-check of the mirror
        Q, R = divmod(_val(n), _val(d))
        assert _val(q) + (qh << (64 * (nn - len(d)))) == Q and _val(r) == R
        return "mpn_sb_div_qr %s %s" % (vec(n), vec(d))
    for dn in [3, 4, 5, 6, 7, 9, 16] + ([] if quick else [8, 12, 24, 40]):
        for d in _divisors(rng, dn):
            dv = _val(d); dlo = _val(d[:dn - 2])
            for qn in sorted(set([0, 1, 2, 3, dn - 1, dn + 2] + ([] if quick else [5, 2 * dn + 1]))):
                nn = dn + qn
                # qh = 1 and qh = 0 on the boundary
                for top in (dv, dv - 1, min(B ** dn - 1, dv + 1)):
                    yield emit(top * B ** qn + rng.getrandbits(64 * qn), nn, d)
                if qn == 0: continue
                for i in range(qn):                      # position of the forced step (limbs below it)
                    A = rng.getrandbits(64 * (qn - i)) | 1          # non-zero low limb
                    if dlo:
                        e = rng.choice([1, 2, min(dlo, dv), rng.randrange(1, dlo + 1)])
                        nv = (A * dv - e) * B ** i + rng.getrandbits(64 * i)
                        if 0 <= nv < B ** nn: yield emit(nv, nn, d)           # add-back
                    if i >= 1 and dlo:
                        e = rng.choice([0, dlo - 1, rng.randrange(dlo)])
                        A = rng.getrandbits(64 * (qn - i))
                        nv = (A * dv + dv - 1 - e) * B ** i + rng.getrandbits(64 * i)
                        if nv < B ** nn: yield emit(nv, nn, d)                # n1 == d1 && np[1] == d0
                yield emit(rng.getrandbits(64 * nn), nn, d)
    # the three examples of MpirProofs/Props/C02_sb.lean
    yield "mpn_sb_div_qr [a,b,c,d] [1,2,8000000000000003]"
    yield "mpn_sb_div_qr [0,0,0,4000000000000000] [ffffffffffffffff,0,8000000000000000]"
    yield "mpn_sb_div_qr [9,3,7,8000000000000000] [5,7,8000000000000000]"
    yield "mpn_sb_div_qr [1,2,3,4,5,ffffffffffffffff,ffffffffffffffff,ffffffffffffffff] [ffffffffffffffff,fffffffffffffffe,7,8000000000000001]"

def extra(ctx, cov):
    cov["c02_sb_model_branches"] = dict(BR)
    return []

if __name__ == "__main__":
    tier = sys.argv[1] if len(sys.argv) > 1 else "quick"
    n = sum(1 for _ in gen_ops(random.Random(1), tier))
    print("ops:", n, dict(BR))
