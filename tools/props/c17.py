"""C17 — main module (parts: c17_*.py are merged automatically)."""
LEVEL = "proof"
LEAN_MODULES = []
THEOREMS = []
TRUSTED = []
ASSUMPTIONS = []
LEVEL_TEXT = 'Lean theorems: export/import bit-packing round trip for every size/order/endian/nails; raw format round trip; fault returns for every truncation position (induction). Correspondence with fault-injecting streams at every byte position, ASan build.'
LEVEL_NOTE = 'libc stream behaviour trusted.'
PLACEHOLDER = True
