"""C15 — main module (parts: c15_*.py are merged automatically)."""
LEVEL = "proof"
LEAN_MODULES = []
THEOREMS = []
TRUSTED = []
ASSUMPTIONS = []
LEVEL_TEXT = 'Lean theorem: interleaving-irrelevance for operations with disjoint write footprints (induction over interleavings); the footprint obligations are discharged from a regenerated scan of every static-storage object and every store to it in the compiled library; TSan build runs seeded multi-threaded op lists compared with sequential model answers.'
LEVEL_NOTE = 'Real schedules beyond the sampled TSan runs; indirect writes approximated by the escape scan.'
PLACEHOLDER = True
