"""C15 — concurrent use from several threads is race-free and gives sequential results."""
import os, re
import vlib, gen_globals
from genlib import *
LEVEL = "proof"
LEAN_MODULES = ["MpirProofs.Props.C15"]
THEOREMS = ["Mpir.Threads.interleaving_irrelevant", "Mpir.Gen.no_undocumented_shared_state"]
GEN = [gen_globals.gen_globals]
TRUSTED = ["tools/gen_globals.py: objdump (-h/-t/-dr/-r) scan of libmpir.a built from the working tree: objects of every ALLOC, non-READONLY section incl. local symbols; stores / loads / address-taken per instruction through PC-relative, GOT and absolute relocations, attributed to the containing function; direct-call graph (indirect writes through escaped pointers: part c15_globals, source side)",
           "ThreadSanitizer (gcc -fsanitize=thread) on sampled schedules"]
ASSUMPTIONS = ["the footprint model: a reentrant operation writes only its own destination objects and temporaries; discharged by the regenerated global-store scan, not by a proof about the C",
               "real schedules are covered by the static absence of shared writes plus sampled TSan runs"]
RULE = ("threads N seed nops: N in 2..8 threads each run a seeded list of 40 kinds of public operations (mpz/mpq/mpf arithmetic, division, gcd, powm, radix conversion, gmp_snprintf/gmp_sscanf to private "
        "buffers, private random states, primality helpers) on private destinations reading shared sources of 200 bits to 2600 limbs (stack and heap temporaries); per-thread digests are compared with a "
        "sequential run of the same lists; the same ops run on a -fsanitize=thread build; distinct = distinct (N, seed, nops)")
LEVEL_TEXT = ("Lean theorem: in the footprint model every interleaving of the threads' operation lists leaves each thread with exactly the result of running its own list alone (induction over the schedule); "
              "the footprint obligation is discharged from a scan, regenerated on every run, of every static-storage object of the library built from the working tree and of every instruction that stores to it: "
              "the stored-to objects must be exactly the documented shared state (kernel-checked by decide); the functions that write each documented cell must be exactly the documented setters, and histories that do not write a cell another thread uses are schedule-independent in the cell model (interleaving_irrelevant_cells). Seeded multi-threaded op lists run on a plain and on a ThreadSanitizer build and are compared with their sequential results.")
LEVEL_NOTE = ("Real schedules beyond the sampled TSan runs are covered only through the static scan. Indirect writes: every source occurrence of every writable static is classified from the clang AST "
              "(escaped_statics_harmless: undocumented, non-constant statics are only loaded, compared, or passed to pointer-to-const parameters; local pointer aliases are followed); pointer-to-const parameters are followed into "
              "callees defined in the library); not followed: function-pointer calls and libc callees (prototype trusted).")

def gen_ops(rng, tier, ctx=None):
    n = 6 if tier == "quick" else 40
    for i in range(n):
        yield "threads %x %x %x" % (rng.choice([2, 3, 4, 8]), rng.randrange(1, 1 << 30), rng.choice([200, 600, 1500]))

def nontrivial(line): return line

def extra(ctx, cov):
    build = vlib.get_build("tsan"); exe = vlib.get_harness(build, "tsan")
    import random
    rng = random.Random("C15-tsan-%d" % ctx.seed)
    lines = ["threads %x %x %x" % (rng.choice([2, 4, 8]), rng.randrange(1, 1 << 30), rng.choice([150, 400])) for _ in range(4 if ctx.tier == "quick" else 30)]
    env = {"TSAN_OPTIONS": "halt_on_error=1:exitcode=66:report_signal_unsafe=0"}
    rc, out, err = vlib.run_stream(exe, lines, env=env, timeout=3000)
    cov["tsan_runs"] = len(lines); cov["tsan_exit"] = rc
    if rc == 0 and out == ["0"] * len(lines): return []
    k = len(out) if rc != 0 else next(i for i, o in enumerate(out) if o != "0")
    path = os.path.join(vlib.VERIF, "replay", "C15-tsan-%d.ops" % ctx.seed)
    os.makedirs(os.path.dirname(path), exist_ok=True)
    with open(path, "w") as f:
        f.write("# ThreadSanitizer build: harness rc=%d; answers %s\n" % (rc, out))
        f.write("".join("# " + l + "\n" for l in err.split("\n")[:120]))
        f.write(lines[min(k, len(lines) - 1)] + "\n")
    m = re.search(r"WARNING: ThreadSanitizer: ([^\n]*)", err)
    return [("tsan: %s at %s" % (m.group(1) if m else "thread result differs", lines[min(k, len(lines) - 1)]), path)]

def explain_broken(ctx, proof_broken):
    """when no_undocumented_shared_state fails, list the static objects that are stored to but not documented"""
    import json
    try:
        objs, written, taken = gen_globals.scan(ctx.build)
    except Exception as e: return "scan failed: %s" % e
    doc = {"__gmp_allocate_func", "__gmp_reallocate_func", "__gmp_free_func", "__gmp_default_fp_limb_precision", "__gmp_rands", "__gmp_rands_initialized", "__gmp_errno", "__gmp_junk"}
    bad = ["%s (%s, %d stores)" % (k[1], k[0], written[k]) for k in written if k[1] not in doc]
    return "static objects stored to by library code and not in the documented list: " + ", ".join(sorted(bad)) if bad else ""
