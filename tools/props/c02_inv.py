"""C02 part: division with a precomputed Newton inverse — mpn_is_invert, mpn_invert (contract), mpn_inv_div_qr_n.
Theorems (MpirProofs/Props/C02_inv.lean) about the value-level model lean/Mpir/Model/InvDiv.lean, tied to the real functions
by the ops inv_is_invert / inv_invert / inv_div_qr_n / inv_div_qr_n_auto (harness/ops_invdiv.c), which call
__gmpn_is_invert, __gmpn_invert, __gmpn_inv_div_qr_n directly on small sizes (1 <= dn <= 126).

The number of rounds of the final loop of mpn_inv_div_qr_n (inv_div_qr_n.c:99-103) is not observable from outside; the
closed form of the proof (rounds = floor(N1/D) - max(floor(W*X/B^(dn+1)) - 1, 0), X = B^dn + inv, W = the dn+1 top limbs)
is evaluated on every generated input and counted (BR: adds=k, ret2=0/1, mulmod = the B^m+1 wrap-around branch).
"""
import collections, random, sys, os
sys.path.insert(0, os.path.dirname(os.path.dirname(os.path.abspath(__file__))))
from genlib import *

LEAN_MODULES = ["MpirProofs.Props.C02_inv"]
THEOREMS = ["Mpir.InvDiv." + t for t in """
isInvert_iff reduceTop_exact estimate_exact estimate_bounds finalLoop_exact
""".split()]
PINS = [("mpn/generic/invert.c", "mpn_is_invert"), ("mpn/generic/invert.c", "mpn_invert"), ("mpn/generic/inv_div_qr_n.c", None)]
TRUSTED = ["hand-written value-level model lean/Mpir/Model/InvDiv.lean of mpn_is_invert and mpn_inv_div_qr_n (limb areas as naturals "
           "with explicit limb counts; tied by correspondence on every run)",
           "callee contracts inside that model: mpn_mul / mpn_mul_n = product, mpn_mulmod_Bexpp1_fft = canonical residue modulo B^m+1",
           "mpn_invert: only its documented contract is modelled (the unique X with A*X < B^(2n) <= A*(X+1)); the Newton iteration of "
           "invert.c is compared with that closed form on every run (differential only)"]
ASSUMPTIONS = ["the composition of the proved pieces (reduceTop_exact, estimate_exact, estimate_bounds, finalLoop_exact) into one theorem "
               "inv_div_qr_n_exact for mpn_inv_div_qr_n is NOT yet proved (the glue proof hit a kernel recursion limit); the mulmod (B^m+1) branch "
               "for dn > 64 is differential only; on every op the driver checks q, r against floor(n/d), n mod d (!modelspec)",
               "mpn_inv_div_qr_n with dn+1 >= FFT_MULMOD_2EXPP1_CUTOFF = 128 in the mulmod branch (mpir_fft_adjust_limbs) is not modelled",
               "mpn_inv_div_qr, mpn_inv_divappr_q_n, mpn_inv_divappr_q, mpn_inv_div_q remain assumed contracts (exercised through mpn_tdiv_qr / mpn_tdiv_q only)"]
RULE = ("inv_div_qr_n: dn in 1..10, 16, 33, 63..66, 100, 126; divisors all ones, 2^63*B^(dn-1) (+1), B^dn/2+B^lo-1, random, long runs; "
        "dividends q*D+r with q in {0,1,B^dn-1,B^dn,B^dn+1,2^k,random}, r in {0,D-1,random}, D*B^dn-1, D*B^dn, B^(2dn)-1; searched inputs for "
        "1, 2 and 3 rounds of the final loop; inv_is_invert: the inverse and its neighbours +-1, +-2, random; inv_invert: n in 1..40 and around 2^k")

BR = collections.Counter()
def P(k): return 1 << (64 * k)
def inverse(n, D): return (P(2 * n) - 1) // D - P(n)

def rounds(dn, N, D):
    X = P(dn) + inverse(dn, D)
    ret2 = 1 if (N >> (64 * dn)) >= D else 0
    N1 = N - ret2 * D * P(dn)
    W = N1 >> (64 * (dn - 1))
    qf = (W * X) >> (64 * (dn + 1))
    qe = max(qf - 1, 0)
    adds = N1 // D - qe
    assert 0 <= adds <= 3
    BR["adds=%d" % adds] += 1; BR["ret2=%d" % ret2] += 1
    if dn > 64: BR["mulmod"] += 1
    return adds

def _divisors(rng, n):
    lo = n // 2
    ds = [P(n) - 1, P(n) // 2, P(n) // 2 + 1, P(n) // 2 + P(lo) - 1, rng.getrandbits(64 * n) | P(n) // 2,
          rrandomb(rng, 64 * n) | P(n) // 2, P(n) - rng.getrandbits(20) - 1, P(n) // 2 + rng.getrandbits(64 * n - 70 if n > 1 else 30)]
    return [d for d in ds if P(n) // 2 <= d < P(n)]

def gen_ops(rng, tier, ctx=None):
    quick = tier == "quick"
    def emit(dn, N, D, auto=False):
        if not (0 <= N < P(2 * dn)): return None
        rounds(dn, N, D)
        if auto: return "inv_div_qr_n_auto %s %s" % (vec(limbs_of(N, 2 * dn)), vec(limbs_of(D, dn)))
        return "inv_div_qr_n %s %s %s" % (vec(limbs_of(N, 2 * dn)), vec(limbs_of(D, dn)), vec(limbs_of(inverse(dn, D), dn)))
    dns = list(range(1, 11)) + [16, 33, 63, 64, 65, 66, 100, 126]
    for dn in dns:
        reps = (3 if dn <= 10 else 1) if quick else (12 if dn <= 10 else 4)
        for D in _divisors(rng, dn):
            qs = [0, 1, 2, P(dn) - 1, P(dn), P(dn) + 1, P(dn) // 2, 1 << rng.randrange(64 * dn), rng.getrandbits(64 * dn), rng.getrandbits(64 * dn) + P(dn),
                  rng.getrandbits(64 * dn) >> rng.randrange(64 * dn)]
            cases = [q * D + r for q in qs for r in (0, D - 1, rng.randrange(D))]
            cases += [D * P(dn) - 1, D * P(dn), D * P(dn) + D - 1, P(2 * dn) - 1, 0, D - 1, D, rng.getrandbits(128 * dn), rrandomb(rng, 128 * dn)]
            cases = [c for c in cases if 0 <= c < P(2 * dn)]
            if quick and dn > 4: cases = rng.sample(cases, min(len(cases), 10 if dn <= 10 else 5))
            for i, N in enumerate(cases):
                ln = emit(dn, N, D, auto=(i % 4 == 3))
                if ln: yield ln
            # search: many rounds of the final loop (the estimate is far below the quotient)
            found = 0
            for _ in range(200 if quick else 2000):
                N = rng.getrandbits(128 * dn) % (D * P(dn)) if rng.random() < .5 else (rng.getrandbits(64 * dn) * D + D - 1 - rng.getrandbits(rng.randrange(1, 64)))
                if not (0 <= N < P(2 * dn)): continue
                X = P(dn) + inverse(dn, D); N1 = N - (D * P(dn) if (N >> (64 * dn)) >= D else 0)
                if N1 // D - max((((N1 >> (64 * (dn - 1))) * X) >> (64 * (dn + 1))) - 1, 0) >= 2:
                    yield emit(dn, N, D); found += 1
                    if found >= reps: break
    # mpn_is_invert
    for n in list(range(1, 9)) + [17, 40]:
        for D in _divisors(rng, n):
            X = inverse(n, D)
            for x in (X, X + 1, X - 1, X + 2, X - 2, 0, P(n) - 1, rng.getrandbits(64 * n), X ^ (1 << rng.randrange(64 * n))):
                if 0 <= x < P(n): yield "inv_is_invert %s %s" % (vec(limbs_of(x, n)), vec(limbs_of(D, n)))
        yield "inv_is_invert %s %s" % (vec(limbs_of(rng.getrandbits(64 * n), n)), vec(limbs_of(rng.getrandbits(64 * n), n)))   # any A
        yield "inv_is_invert %s %s" % (vec([0] * n), vec([0] * n))
    # mpn_invert against its contract
    ns = list(range(1, 41)) + [63, 64, 65, 127, 128, 129] + ([] if quick else [255, 256, 257, 600, 1499, 1500, 1501, 1502, 1600, 2100, 3001])
    for n in ns:
        ds = _divisors(rng, n)
        if quick and n > 12: ds = rng.sample(ds, 3)
        for D in ds: yield "inv_invert %s" % vec(limbs_of(D, n))

if __name__ == "__main__":
    k = 0
    for ln in gen_ops(random.Random(1), "quick"): k += 1
    print(k, dict(BR))
