"""C08 — main module (parts: c08_*.py are merged automatically)."""
LEVEL = "proof"
LEAN_MODULES = []
THEOREMS = []
TRUSTED = []
ASSUMPTIONS = []
LEVEL_TEXT = 'Lean theorems: sliding-window exponentiation computes b^e in any monoid for every window size; REDC returns x·B^-n mod m below m; CRT recombination for even moduli; every mpz_powm path returns b^e mod |m| in range and well formed; exact powers. Differential run over odd/even/power-of-two moduli and all window widths.'
LEVEL_NOTE = "The FFT branch of mpn_mulmod_2expp1_basecase (half sizes above 128 limbs, i.e. redc_n above 256 limbs: contract P1Spec assumed) and mpn_dc_bdiv_q inside mpn_binvert's base case (sizes >= DC_BDIV_Q_THRESHOLD) rest on the correspondence run (mpn_binvert itself is proved: mpn_binvert_correct); mpz_powm_ui and the CRT index model are flag models tied through values and pins."
PLACEHOLDER = True
