"""C08 — main module (parts: c08_*.py are merged automatically)."""
LEVEL = "proof"
LEAN_MODULES = []
THEOREMS = []
TRUSTED = []
ASSUMPTIONS = []
LEVEL_TEXT = 'Lean theorems: sliding-window exponentiation computes b^e in any monoid for every window size; REDC returns x·B^-n mod m below m; CRT recombination for even moduli; every mpz_powm path returns b^e mod |m| in range and well formed; exact powers. Differential run over odd/even/power-of-two moduli and all window widths.'
LEVEL_NOTE = "The FFT branch of mpn_mulmod_2expp1_basecase (half sizes above 128 limbs, i.e. redc_n above 256 limbs: contract P1Spec assumed) and mpn_binvert internals rest on the correspondence run; mpz_powm_ui and the CRT index model are flag models tied through values and pins."
PLACEHOLDER = True
