"""C08 — main module (parts: c08_*.py are merged automatically)."""
LEVEL = "proof"
LEAN_MODULES = []
THEOREMS = []
TRUSTED = []
ASSUMPTIONS = []
LEVEL_TEXT = 'Lean theorems: sliding-window exponentiation computes b^e in any monoid for every window size; REDC returns x·B^-n mod m below m; CRT recombination for even moduli; every mpz_powm path returns b^e mod |m| in range and well formed; exact powers. Differential run over odd/even/power-of-two moduli and all window widths.'
LEVEL_NOTE = "mpn_mulmod_2expm1 / mpn_mulmod_bnm1 / mpn_mulmod_bnm1_next_size are proved (part c08_mm1) over the contract of mpn_mulmod_2expp1_basecase, whose FFT branch (half sizes above 128 limbs, i.e. mpn_redc_n above 256 limbs) is covered by the differential run only; mpn_binvert internals by their meaning; the CRT path of mpz_powm and mpz_powm_ui have index-range / operand-condition theorems beside their value-level theorems, not a functional memory model."
PLACEHOLDER = True
