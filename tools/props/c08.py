"""C08 — main module (parts: c08_*.py are merged automatically)."""
LEVEL = "proof"
LEAN_MODULES = []
THEOREMS = []
TRUSTED = []
ASSUMPTIONS = []
LEVEL_TEXT = 'Lean theorems: sliding-window exponentiation computes b^e in any monoid for every window size; REDC returns x·B^-n mod m below m; CRT recombination for even moduli; every mpz_powm path returns b^e mod |m| in range and well formed; exact powers. Differential run over odd/even/power-of-two moduli and all window widths.'
LEVEL_NOTE = "mpn_redc_2 by correspondence only; mpn_mulmod_bnm1 / mpn_binvert internals and mpn_mulmod_bnm1_next_size above 256 limbs are hypotheses of the limb-level theorems; mpz_powm_ui at value level."
PLACEHOLDER = True
