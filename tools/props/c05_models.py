"""C05 part: alias theorems proved on the object-level models (mpz add/mul families, all of mpq).
The mpq theorems quantify over all variable ids of a store, so every alias pattern is one statement."""
LEAN_MODULES = ["MpirProofs.Props.C03_mpz", "MpirProofs.Props.C01_mpz", "MpirProofs.Props.C12"]
THEOREMS = ["Mpir.Mpz.mpz_add_alias_ok", "Mpir.Mpz.mpz_mul_alias_ok",
            "Mpir.Mpq.mpq_aors_spec", "Mpir.Mpq.mpq_mul_spec", "Mpir.Mpq.mpq_div_spec", "Mpir.Mpq.mpq_inv_spec",
            "Mpir.Mpq.mpq_mul_2exp_spec", "Mpir.Mpq.mpq_div_2exp_spec", "Mpir.Mpq.mpq_neg_spec", "Mpir.Mpq.mpq_abs_spec", "Mpir.Mpq.mpq_set_spec", "Mpir.Mpq.mpq_swap_spec"]
