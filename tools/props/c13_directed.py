"""C13 part (integrator): mpf_mul_ui when the operand has more limbs than the destination precision and the carry-in from the
dropped limb ripples through every kept limb (mpn_mul_1 returns 0, the addition of the carry-in creates the new top limb)."""
from props import c13_mpf as base
from genlib import *
B = 1 << 64; M = B - 1
def gen_ops(rng, tier, ctx=None):
    for rprec in base.PRECS:
        for v in [3, 5, 7, 10, 0xffffffff, M, (1 << 63) + 1, rng.getrandbits(64) | 1, rng.getrandbits(20) | 1]:
            kept = B ** rprec // v
            if kept >> (64 * (rprec - 1)) == 0: continue
            for low in ([M], [0, M], [rng.getrandbits(64), M], [M - 1], [1 << 63]):
                l = low + limbs_of(kept, rprec)
                for neg in (False, True):
                    for e in (0, 1, rprec, -3):
                        u = (rprec + len(low), neg, e, l)
                        for mode in (0, 1):
                            yield from base.both("mpf_mul_ui %x %x %s %x" % (rprec, mode, base.F(u), v), base.alias_ok(mode, rprec, u, u))
