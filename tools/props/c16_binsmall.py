"""C16 part: the small-k / divide-and-conquer / bdiv binomial algorithms of mpz/bin_uiui.c, the dispatcher for every
argument, mpz_mfac_uiui (merged into c16.py automatically)."""
import os, sys
from genlib import *

LEAN_MODULES = ["MpirProofs.Props.C16_binsmall"]
THEOREMS = ["Mpir.Numth.mulfunc_identities", "Mpir.Numth.maxfacs_spec", "Mpir.Numth.smallk_tables_ok", "Mpir.Numth.smallk_shift_nonneg",
            "Mpir.Numth.hensel_rsh_exact_division", "Mpir.Numth.smallk_bin_uiui_spec", "Mpir.Numth.smallkdc_bin_uiui_spec",
            "Mpir.Numth.bdiv_inverse_spec", "Mpir.Numth.bdiv_quotient_fits", "Mpir.Numth.bdiv_bin_uiui_spec", "Mpir.Numth.choose_two_adic_lt_limb", "Mpir.Numth.bdiv_shift_count_spec",
            "Mpir.Numth.mpz_bin_uiui_spec", "Mpir.Numth.mfac_gcd_reduction", "Mpir.Numth.mfac_uiui_spec"]
TRUSTED = ["hand-written models of mpz_smallk_bin_uiui / mpz_smallkdc_bin_uiui / mpz_bdiv_bin_uiui / mul1..mul8 / "
           "mpn_divrem_hensel_rsh_qr_1_preinv / mpz_mfac_uiui in lean/Mpir/Model/Numth.lean (tied by the ops smallk_bin_uiui, smallkdc_bin_uiui, "
           "bdiv_bin_uiui, bin_uiui_sel, mpz_mfac_uiui and bin_mulfunc, hensel_rsh_preinv, bin_alg_assert: the last one runs a copy of the tree's "
           "mpz/bin_uiui.c compiled with its ASSERTs alive and reports a failing ASSERT)"]
ASSUMPTIONS = ["mpz_bdiv_bin_uiui: mpn_sb_bdiv_q (np, wp, np, nn, kp, MIN (kn, nn), dinv) is replaced by its meaning N * D^-1 mod B^nn (the quotient of an "
               "exact division by an odd D; C04/C10 parts cover mpn_sb_bdiv_q itself), mpn_mul_1 / mpn_lshift / mpz_mul / mpz_prodlimbs by the product; "
               "mpz_mfac_uiui: mpn_gcd_1 by Euclid's algorithm, mpz_ui_pow_ui by the power"]
RULE = ("bin_mulfunc: every mulW at m = limbroot(W) - W + 1 +-2 (the `M_i` bounds: last m for which no partial product wraps), m = 0, 1, 2^64-W.., random limbs; "
        "smallk: n at every limbroots entry +-1 and n-k+1.. chunks crossing them, every k = 2..25, n = 2^64-1; smallkdc: every k = 26..70 at n = 2k, "
        "n - k/2 = ODD_FACTORIAL_EXTTABLE_LIMIT +-1 (bc_bin_uiui on the table indices 61..65 of facinv), n at limbroots; bdiv: k = 26, 27, 71, 72 .. , "
        "n at limbroots +-1, n = 2k, 2k+1, k such that alloc = k + 1 or the 3*maxn/2 formula +-1, n near 2^64; all three also through bin_alg_assert; "
        "bin_uiui_sel: (n,k) at every dispatcher switch +-1; hensel_rsh_preinv: exact multiples of odd d shifted by every s class, and inexact dividends; "
        "mfac: g = gcd in {1,2,3,>3} x m/g in {1,2,3,>3}, n at m+1, m+2, maximal n and m")

M64 = (1 << 64) - 1
ROOTS = [M64, 0xffffffff, 0x285145, 0xffff, 7131, 1625, 565, 255]      # __gmp_limbroots_table

def consts(ctx):
    try:
        from props.c16_sieve import consts as c
        return c(ctx)
    except Exception:
        return dict(ODD_FACTORIAL_TABLE_LIMIT=25, ODD_FACTORIAL_EXTTABLE_LIMIT=67, ODD_CENTRAL_BINOMIAL_TABLE_LIMIT=35,
                    BIN_GOETGHELUCK_THRESHOLD=1000, BIN_UIUI_ENABLE_SMALLDC=1, BIN_UIUI_RECURSIVE_SMALLDC=1)

def gen_mulfunc(rng, tier):
    for w in range(1, 9):
        r = ROOTS[w - 1]
        ms = {0, 1, 2, 3, 7, 8, M64, M64 - 1, M64 - w, M64 - w + 1, 1 << 63, (1 << 32) - 1, 1 << 32}
        for d in range(-3, 4):
            m = r - (w - 1) + d                                     # largest factor m + w - 1 = r + d
            if 0 <= m <= M64: ms.add(m)
        for _ in range(12 if tier == "quick" else 200):
            ms.add(rng.randrange(0, max(2, r)))                     # inside the bound: value = product / 2^tcnt
            ms.add(rng.getrandbits(64))                             # outside: wrapping arithmetic still has to agree
        for m in sorted(ms): yield "bin_mulfunc %x %x" % (w, m)

def gen_hensel(rng, tier):
    odd = [1, 3, 5, M64, M64 - 2, (1 << 63) + 1, 0x335281867ec241ef, 0xc29cb72925ef2cff]
    for _ in range(30 if tier == "quick" else 400):
        d = rng.choice(odd + [rng.getrandbits(rng.randrange(1, 65)) | 1])
        m = pow(d, -1, 1 << 64)
        n = rng.choice([1, 1, 2, 2, 3, 4, 7, rng.randrange(1, 30)])
        s = rng.choice([0, 1, 2, 5, 31, 32, 62, 63, rng.randrange(64)])
        kind = rng.randrange(4)
        if kind <= 1:                                               # exact: x = (d * T) << s, T as large as fits
            tb = max(1, 64 * n - s - d.bit_length())
            T = rng.getrandbits(tb) if kind == 0 else (1 << tb) - 1
            x = ((d * T) << s) | rng.getrandbits(s) if s else d * T
            x &= (1 << (64 * n)) - 1
        elif kind == 2: x = rng.getrandbits(64 * n)                 # inexact: remainder/borrow chain through every limb
        else: x = (1 << (64 * n)) - 1
        yield "hensel_rsh_preinv %s %x %x %x" % (vec(limbs_of(x, n)), d, m, s)

def gen_bin(rng, tier, C):
    ext = C["ODD_FACTORIAL_EXTTABLE_LIMIT"]; kt = C["ODD_FACTORIAL_TABLE_LIMIT"]; kdc = 2 * C["ODD_CENTRAL_BINOMIAL_TABLE_LIMIT"]
    gt = C["BIN_GOETGHELUCK_THRESHOLD"]
    from props.c16_sieve import dispatch, ALG
    def both(alg, n, k):
        name = {3: "smallk_bin_uiui", 4: "smallkdc_bin_uiui", 6: "bdiv_bin_uiui"}[alg]
        yield "%s %x %x" % (name, n, k)
        yield "bin_alg_assert %x %x %x" % (alg, n, k)
    # smallk: nmax changes at the limb roots; the first chunk starts at n-k+1, so also n = root + k - 1 +- 1
    ns = set()
    for r in ROOTS:
        for d in (-1, 0, 1, 2):
            if 4 <= r + d <= M64: ns.add(r + d)
        for k in (2, 3, 8, 9, 17, kt):
            for d in (-1, 0, 1):
                if r + k - 1 + d <= M64: ns.add(r + k - 1 + d)
    ns |= {2 * kt, 2 * kt + 1, ext, ext + 1, 61, 62, 63, 64, 65, 66, M64, M64 - 1, 1 << 63}
    for _ in range(10 if tier == "quick" else 150): ns.add(rng.randrange(4, 1 << rng.randrange(3, 65)))
    for n in sorted(ns):
        ks = range(2, kt + 1) if (tier != "quick" or n in ROOTS or n - 1 in ROOTS) else (2, 3, 7, 8, 9, 15, 16, 17, 24, kt)
        for k in ks:
            if 2 * k <= n: yield from both(3, n, k)
    # smallkdc: every k at n = 2k (and 2k+1), n - k/2 at the EXTTABLE boundary, roots
    for k in range(kt + 1, kdc + 1):
        hk = k // 2
        for n in sorted({max(2 * k, ext + 1), max(2 * k, ext + 1) + 1, ext + hk - 1, ext + hk, ext + hk + 1, ext + hk + 2, 61 + hk, 62 + hk}):
            if 2 * k <= n and n > ext: yield from both(4, n, k)
    for n in [r + d for r in ROOTS for d in (-1, 0, 1) if r + d <= M64 and r + d > 2 * kdc] + [rng.randrange(2 * kdc, 1 << rng.randrange(8, 65)) for _ in range(6 if tier == "quick" else 80)]:
        for k in ((kt + 1, 33, 34, 35, 36, 50, 51, 52, kdc - 1, kdc) if tier == "quick" else range(kt + 1, kdc + 1)):
            if 2 * k <= n: yield from both(4, n, k)
    # bdiv: from k = 26 (its ASSERT) and from kdc + 1 (the dispatcher); alloc = MIN (19 + MAX (3*maxn/2, 20), k) + 1
    pts = set()
    for k in (kt + 1, kt + 2, 38, 39, 40, 41, kdc + 1, kdc + 2, 100, 128, 255, 256, 257, 565, 566, gt - 1, gt, gt + 1):
        for n in (2 * k, 2 * k + 1, 3 * k, 16 * k - 1, 16 * k, 16 * k + 16, 1625 + k, 7131 + k, 65535 + k, 0x285145 + k, (1 << 32) + k, M64, M64 - 1, (1 << 63) + 5):
            if 2 * k <= n and (k < 300 or n < (1 << 22) or tier != "quick"): pts.add((n, k))
    for maxn in (13, 14, 15, 18, 19, 20):                           # 3*maxn/2 against SOME_THRESHOLD
        n = 64 * (maxn - 1)
        for k in (39, 40, n // 2 - 1, n // 2):
            if kt < k and 2 * k <= n: pts.add((n, k)); pts.add((n + 63, k))
    for r in ROOTS[2:]:
        for d in (-1, 0, 1):
            for k in (kdc + 1, 97):
                if 2 * k <= r + d: pts.add((r + d, k))
    for _ in range(20 if tier == "quick" else 300):
        k = rng.randrange(kt + 1, 400 if tier == "quick" else 1500); pts.add((rng.randrange(2 * k, 1 << rng.randrange(k.bit_length() + 1, 65)), k))
    for n, k in sorted(pts): yield from both(6, n, k)
    # the dispatcher at every switch +-1 (algorithm expected by the generator is checked by the Lean side)
    sel = set()
    for n in (ext - 1, ext, ext + 1, ext + 2, 2 * kdc - 1, 2 * kdc, 2 * kdc + 1, 2 * kdc + 2, 2 * kdc + 3, 16 * gt - 1, 16 * gt, 16 * gt + 15, 16 * gt + 16, 16 * gt + 17, 1 << 32, M64 - 1, M64):
        for k in (0, 1, 2, 3, kt - 1, kt, kt + 1, kt + 2, kdc - 1, kdc, kdc + 1, kdc + 2, gt - 1, gt, gt + 1, (n >> 4) - 1, n >> 4, (n >> 4) + 1, n // 2 - 1, n // 2, n // 2 + 1):
            if 0 <= k <= n and (min(k, n - k) <= 3 * gt or n <= (1 << 17)):
                sel.add((n, k)); sel.add((n, n - k))
        if n < M64: sel.add((n, n + 1))
    for n, k in sorted(sel): yield "bin_uiui_sel %x %x %x" % (n, k, ALG[dispatch(n, k, C)])

def gen_mfac(rng, tier):
    pts = set()
    for g in (1, 2, 3, 4, 6, 35, 1 << 20):
        for m0 in (1, 2, 3, 4, 5, 9, 64):
            for n0 in (m0, m0 + 1, m0 + 2, m0 + 3, 2 * m0 + 1, 7 * m0 + 3, 50, 51, 97, 300, 301):
                import math
                if math.gcd(n0, m0) == 1 or rng.random() < 0.3: pts.add((n0 * g, m0 * g))
    for m in (1, 2, 3, 5, 1 << 32, M64 // 3, M64 // 2, M64 - 1, M64):
        for n in (m, m + 1, m + 2, m + 3, 2 * m, 2 * m + 1, 3 * m + 2, M64, M64 - 1):
            if n <= M64 and (n // m) <= 3000: pts.add((n, m))
    for _ in range(40 if tier == "quick" else 600):
        g = rng.choice([1, 1, 2, 3, 5, 12, rng.randrange(1, 1 << rng.randrange(1, 40))])
        m0 = rng.choice([1, 2, 3, 4, 7, rng.randrange(1, 50)]); n0 = rng.randrange(0, 40 * m0 + 40)
        if n0 * g <= M64 and (m0 > 2 or n0 * 1 < 3000): pts.add((n0 * g, m0 * g))
    for n, m in sorted(pts):
        if m >= 1 and (m > 2 and n // m < 4000 or n < 6000): yield "mpz_mfac_uiui %x %x" % (n, m)

def gen_ops(rng, tier, ctx=None):
    C = consts(ctx)
    yield from gen_mulfunc(rng, tier)
    yield from gen_hensel(rng, tier)
    yield from gen_bin(rng, tier, C)
    yield from gen_mfac(rng, tier)

_MINE = ("bin_mulfunc", "bin_alg_assert", "hensel_rsh_preinv")
def nontrivial(line):
    return line if line.split(" ", 1)[0] in _MINE else None

# source pins: the C the theorems of this part speak about (see tools/pins.py)
PINS = [("mpz/bin_uiui.c", "mul1"), ("mpz/bin_uiui.c", "mul2"), ("mpz/bin_uiui.c", "mul3"), ("mpz/bin_uiui.c", "mul4"),
        ("mpz/bin_uiui.c", "mul5"), ("mpz/bin_uiui.c", "mul6"), ("mpz/bin_uiui.c", "mul7"), ("mpz/bin_uiui.c", "mul8"),
        ("mpz/bin_uiui.c", "MAXFACS#1"), ("mpz/bin_uiui.c", "SOME_THRESHOLD"),
        ("mpz/bin_uiui.c", "mpz_smallk_bin_uiui"), ("mpz/bin_uiui.c", "bc_bin_uiui"), ("mpz/bin_uiui.c", "mpz_smallkdc_bin_uiui"),
        ("mpz/bin_uiui.c", "mpz_bdiv_bin_uiui"), ("mpz/bin_uiui.c", "mpz_bin_uiui"), ("gmp-impl.h", "log_n_max"),
        ("mpn/generic/divrem_hensel_rsh_qr_1.c", None), ("mpz/mfac_uiui.c", None)]
