"""C02, word level: division macros of gmp-impl.h and the one-limb division kernels.

Directed recipes come from the case analyses of the proofs in lean/MpirProofs/Lemmas/DivWord.lean:
 * udiv_qrnnd_preinv2: the estimate q1 is exact or one short; which one is decided by
   n - (q1+1) d < 0, so dividends q*d + r with r in {0, 1, d-1} and nl on both sides of 2^63 hit both
   values of the final mask and both values of nmask.
 * udiv_qr_3by2: the first correction fires when r1 >= q0; the second (r >= d afterwards) has
   probability ~2^-64 on uniform data and is CONSTRUCTED: d1 = 2^63 + small, d0 = B - small (or small),
   n = q*d + d - 1 - small.  The python mirror below is run on every generated input to COUNT the
   branches taken (printed by `python3 tools/props/c02_word.py`, stored in the evidence by extra()).
 * invert_pi1: branch a (p < d0), a_mask (p >= d1 inside a), b (p < t1), c (p >= d1), c_dec / c_nodec; c_nodec
   (p == d1 and t0 < d0) needs floor(d0 v / B) + d0 = B^2 - (B+v) d1 + d1 exactly and is SOLVED for d0 (pi1_c_nodec).
 * mpn_divrem_1: every path label of divrem_1.c (Hensel / euclidean_qr_1 asm / fraction limbs, normalised or not,
   skip step taken or not); mpn_divrem_euclidean_r_1: mod_1_1 / mod_1_2 / mod_1_3 folding and the plain loop;
   the 2-adic division: one-limb and two-limb steps with and without borrow, with and without the `h++` fix-up.

Branch coverage of the model on the quick tier, seed 1 (python tools/props/c02_word.py quick; the same numbers go
into evidence/C02.json as coverage.c02_word_model_branches on every run):
    ops: 65733
    3by2.adj1                    2785
    3by2.adj2                    48
    3by2.adj2_outer_only         1574
    3by2.no_adj1                 1072
    3by2.no_adj2                 2235
    divexact_1.even              1789
    divexact_1.odd               1781
    divexact_1.size1             190
    divrem_1.euclid_asm_norm     751
    divrem_1.euclid_asm_unnorm   1977
    divrem_1.frac_norm           987
    divrem_1.frac_unnorm         3304
    divrem_1.hensel              565
    divrem_1/mod_1.norm_top_ge_d 889
    divrem_1/mod_1.norm_top_lt_d 849
    divrem_1/mod_1.unnorm_noskip 3972
    divrem_1/mod_1.unnorm_skip   1874
    hensel.pair_borrow           6365
    hensel.pair_h_inc            1721
    hensel.pair_h_noinc          31990
    hensel.pair_noborrow         27346
    hensel.qr_1_1                2064
    hensel.qr_1_2                1728
    hensel.step_borrow           3713
    hensel.step_noborrow         13111
    invert_pi1.a                 2476
    invert_pi1.a_mask            567
    invert_pi1.b                 1013
    invert_pi1.c                 678
    invert_pi1.c_dec             598
    invert_pi1.c_nodec           80
    invert_pi1.not_a             1524
    invert_pi1.not_b             2987
    mod_1.norm                   1738
    mod_1.unnorm                 5846
    preinv1.r_ge_d               1833
    preinv1.r_lt_d               2820
    preinv1.xh1                  1837
    preinv1.xh2                  195
    preinv2.fix_add_d            3338
    preinv2.nmask0               2359
    preinv2.nmask1               2294
    preinv2.no_fix               1315
    r_1.loop                     3255
    r_1.mod_1_1                  549
    r_1.mod_1_2                  810
    r_1.mod_1_3                  2970
"""
import os, sys, collections
sys.path.insert(0, os.path.dirname(os.path.dirname(os.path.abspath(__file__))))
from genlib import *

LEAN_MODULES = ["MpirProofs.Props.C02_word"]
THEOREMS = []          # filled at the bottom
def _gen():
    import gen_minv_tab
    return [gen_minv_tab.gen_minv_tab, gen_minv_tab.gen_div_params]
GEN = _gen()
TRUSTED = ["W primitives umul_ppmm/add_ssaaaa/sub_ddmmss/udiv_qrnnd/count_leading_zeros/count_trailing_zeros defined by their arithmetic meaning (inline asm of longlong.h), correspondence-tested",
           "hand-written models lean/Mpir/Model/DivWord.lean of the gmp-impl.h division macros and mpn/generic one-limb division kernels (tied by correspondence on every run)",
           "assembly mpn_divrem_euclidean_qr_1 modelled by mpn/generic/divrem_euclidean_qr_1.c, mpn_divexact_by3c by mpn/generic/divexact_by3c.c, mpn_modexact_1c_odd by the dataflow of mpn/x86_64/modexact_1c_odd.as"]
ASSUMPTIONS = ["64-bit limbs, no nails; udiv_qrnnd_preinv = udiv_qrnnd_preinv2, invert_limb = udiv_qrnnd macro, thresholds as resolved into lean/Mpir/Gen/DivParams.lean (regenerated and re-checked on every run)"]
RULE = ("word macros: normalised d in {2^63, 2^63+1, B-1, B-2, 2^63+-small, runs, random} x nh in {0,1,d-1,d-2,random} x nl in {0,1,B-1,2^63,2^63-1,random}, "
        "dividends q*d+r with r in {0,1,d-1}; 3by2/invert_pi1 inputs constructed so that every correction branch fires (counted by the python mirror, "
        "stored as coverage.c02_word_model_branches); one-limb kernels: divisor classes 1,2,3,2^k,2^k-1,odd,even,B-1,path thresholds (2^62+1, (B-1)/3+1, 2^63+1) "
        "x sizes 1..40 (+ a few up to 300) x data classes x dividends q*d+r; predicate ops (modlimb_invert_ok, mpn_divexact_1_ok) evaluate the property on the "
        "implementation's output; distinct = distinct op lines")

HB = 1 << 63

# ---------------------------------------------------------------- python mirror (branch accounting only)
def _umul(a, b): p = a * b; return p >> 64, p & M
def _add2(ah, al, bh, bl): s = ((ah << 64) + al + (bh << 64) + bl) % (B * B); return s >> 64, s & M
def _sub2(ah, al, bh, bl): s = ((ah << 64) + al - (bh << 64) - bl) % (B * B); return s >> 64, s & M
def m_invert_limb(d): return (((M - d) << 64) + M) // d

def m_preinv2(nh, nl, d, di, br):
    nmask = M if nl >> 63 else 0
    br["preinv2.nmask1" if nmask else "preinv2.nmask0"] += 1
    nadj = (nl + (nmask & d)) & M
    xh, xl = _umul(di, (nh - nmask) & M); xh, xl = _add2(xh, xl, nh, nadj)
    q1 = M - xh
    xh, xl = _umul(q1, d); xh, xl = _add2(xh, xl, nh, nl); xh = (xh - d) & M
    br["preinv2.fix_add_d" if xh else "preinv2.no_fix"] += 1
    return (xh - q1) & M, (xl + (d & xh)) & M

def m_preinv1(nh, nl, d, di, br):
    q, _ = _umul(nh, di); q = (q + nh) & M
    xh, xl = _umul(q, d); xh, r = _sub2(nh, nl, xh, xl)
    if xh != 0:
        br["preinv1.xh1"] += 1
        xh, r = _sub2(xh, r, 0, d); q = (q + 1) & M
        if xh != 0: br["preinv1.xh2"] += 1; r = (r - d) & M; q = (q + 1) & M
    if r >= d: br["preinv1.r_ge_d"] += 1; r -= d; q = (q + 1) & M
    else: br["preinv1.r_lt_d"] += 1
    return q, r

def m_invert_pi1(d1, d0, br):
    v = m_invert_limb(d1); p = (d1 * v) & M; p = (p + d0) & M
    if p < d0:
        br["invert_pi1.a"] += 1; v = (v - 1) & M
        mask = M if p >= d1 else 0
        if mask: br["invert_pi1.a_mask"] += 1
        if p == d1: br["invert_pi1.a_p_eq_d1"] += 1
        p = (p - d1) & M; v = (v + mask) & M; p = (p - (mask & d1)) & M
    else: br["invert_pi1.not_a"] += 1
    t1, t0 = _umul(d0, v); p = (p + t1) & M
    if p < t1:
        br["invert_pi1.b"] += 1; v = (v - 1) & M
        if p >= d1:
            br["invert_pi1.c"] += 1
            if p > d1 or t0 >= d0: br["invert_pi1.c_dec"] += 1; v = (v - 1) & M
            else: br["invert_pi1.c_nodec"] += 1
    else: br["invert_pi1.not_b"] += 1
    return v

def m_3by2(n2, n1, n0, d1, d0, dinv, br):
    q, q0 = _umul(n2, dinv); q, q0 = _add2(q, q0, n2, n1)
    r1 = (n1 - d1 * q) & M; r1, r0 = _sub2(r1, n0, d1, d0); t1, t0 = _umul(d0, q); r1, r0 = _sub2(r1, r0, t1, t0); q = (q + 1) & M
    if r1 >= q0: br["3by2.adj1"] += 1; q = (q - 1) & M; r1, r0 = _add2(r1, r0, d1, d0)
    else: br["3by2.no_adj1"] += 1
    if r1 >= d1:
        if r1 > d1 or r0 >= d0: br["3by2.adj2"] += 1; q = (q + 1) & M; r1, r0 = _sub2(r1, r0, d1, d0)
        else: br["3by2.adj2_outer_only"] += 1
    else: br["3by2.no_adj2"] += 1
    return q, r1, r0

def m_modlimb_invert(n):
    inv = pow(n, -1, 256)
    for _ in range(3): inv = (2 * inv - inv * inv * n) & M
    return inv

def m_hensel(x, d, s, cin, two, br):
    """mirror of mpn_rsh_divrem_hensel_qr_1_1 (two=False) / _1_2 (two=True); returns (limbs, ret)"""
    n = len(x); ml = m_modlimb_invert(d)
    hB, one = _umul(d, ml); assert one == 1
    mh = (ml * ((-hB) & M)) & M
    def step(xj, h, c):
        t = (h + c) & M
        c2 = 1 if t > xj else 0
        br["hensel.step_borrow" if c2 else "hensel.step_noborrow"] += 1
        h1 = (xj - t) & M; q = (h1 * ml) & M
        return q, _umul(q, d)[0], c2
    out = []; q, h, c = step(x[0], cin, 0); qo = q >> s
    hi = lambda qq: ((qq << (63 - s)) & M) << 1 & M
    j = 1
    while two and j + 1 <= n - 1:
        xl, xh = x[j], x[j + 1]; t = (h + c) & M
        c = 1 if (xh == 0 and t > xl) else 0
        br["hensel.pair_borrow" if c else "hensel.pair_noborrow"] += 1
        xh, xl = _sub2(xh, xl, 0, t)
        qh, ql = _umul(xl, ml); qh = (qh + xh * ml + xl * mh) & M
        out.append(qo | hi(ql)); qo = ql >> s
        out.append(qo | hi(qh)); qo = qh >> s
        h, h1 = _umul(qh, d)
        if h1 > xh: h = (h + 1) & M; br["hensel.pair_h_inc"] += 1
        else: br["hensel.pair_h_noinc"] += 1
        j += 2
    while j <= n - 1:
        q, h, c = step(x[j], h, c)
        out.append(qo | hi(q)); qo = q >> s; j += 1
    out.append(qo)
    if s == 0:     # unshifted: the defining identity of the 2-adic quotient
        assert sum(v << (64 * i) for i, v in enumerate(out)) * d + cin == sum(v << (64 * i) for i, v in enumerate(x)) + (((h + c) & M) << (64 * n))
    return out, (h + c) & M

# thresholds of mpn/x86_64/gmp-mparam.h, only used to label the path an op takes
T_HENSEL, T_HQR, T_M13, T_M12, T_M11 = 30, 19, 13, 7, 6
def path_divrem_1(un, d, qxn):
    if qxn == 0:
        if d <= (HB >> 1) + 1 and un >= T_HENSEL: return "divrem_1.hensel"
        return "divrem_1.euclid_asm_norm" if d >> 63 else "divrem_1.euclid_asm_unnorm"
    return "divrem_1.frac_norm" if d >> 63 else "divrem_1.frac_unnorm"
def path_r_1(n, d):
    if d <= (HB >> 1) + 1 and n >= T_M13: return "r_1.mod_1_3"
    if d <= M // 3 + 1 and n >= T_M12: return "r_1.mod_1_2"
    if d <= HB + 1 and n >= T_M11: return "r_1.mod_1_1"
    return "r_1.loop"

BR = collections.Counter()

# ---------------------------------------------------------------- value classes
def norm_divisors(rng):
    ds = [HB, HB + 1, M, M - 1, HB + 2, HB + (1 << 32), HB | ((1 << 32) - 1), M - (1 << 32), 0xAAAAAAAAAAAAAAAA, 0xD555555555555555,
          0xC000000000000000, 0xFFFFFFFF00000000, 0x8000000000000003]
    for _ in range(8): ds.append(HB + rng.getrandbits(rng.randrange(1, 20)))
    for _ in range(8): ds.append(M - rng.getrandbits(rng.randrange(1, 20)))
    for _ in range(12): ds.append(HB | rng.getrandbits(63))
    for _ in range(6): ds.append(HB | rrandomb(rng, 63))
    return ds

def word_vals(rng):
    return [0, 1, 2, M, M - 1, HB, HB - 1, HB + 1, 1 << 32, (1 << 32) - 1, rng.getrandbits(64), rng.getrandbits(64), rrandomb(rng, 64), rng.getrandbits(rng.randrange(1, 65))]

def limb_divisors(rng):
    """(class, d) pairs: every single-limb divisor class of the design"""
    out = [("one", 1), ("two", 2), ("three", 3), ("Bm1", M), ("Bm2", M - 1), ("hb", HB), ("hb+1", HB + 1), ("hb+2", HB + 2),
           ("q+1", (HB >> 1) + 1), ("q+2", (HB >> 1) + 2), ("q", HB >> 1), ("third+1", M // 3 + 1), ("third+2", M // 3 + 2), ("five", 5), ("six", 6), ("ten", 10)]
    ks = list(range(2, 64))
    for k in rng.sample(ks, 8): out.append(("pow2", 1 << k))
    for k in rng.sample(ks, 8) + [64]: out.append(("pow2m1", (1 << k) - 1))
    for _ in range(5): out.append(("odd", rng.getrandbits(rng.randrange(2, 65)) | 1))
    for _ in range(5):
        sh = rng.randrange(1, 12)
        out.append(("even", (rng.getrandbits(rng.randrange(2, 65 - sh)) | 1) << sh))
    for _ in range(3): out.append(("oddnorm", HB | rng.getrandbits(63) | 1))
    for _ in range(2): out.append(("evennorm", (HB | rng.getrandbits(63)) & ~1))
    return out

def dividend(rng, n, d, kind):
    """n limbs; `kind` in r0/r1/rd1 builds q*d + r backwards from the answer"""
    if kind in ("r0", "r1", "rd1"):
        r = {"r0": 0, "r1": min(1, d - 1), "rd1": d - 1}[kind]
        top = (1 << (64 * n)) - 1
        qmax = (top - r) // d
        qcls = rng.choice(["uniform", "runs", "ones", "sparse", "max"])
        if qcls == "max": q = qmax
        else:
            q = 0
            for i, x in enumerate(rand_limbs(rng, n, qcls)): q |= x << (64 * i)
            q = min(q, qmax) if rng.random() < 0.5 else q % (qmax + 1)
        return limbs_of(q * d + r, n)
    return rand_limbs(rng, n, kind)

# ---------------------------------------------------------------- generators
def gen_words(rng, tier):
    reps = 1 if tier == "quick" else 4
    for _ in range(reps):
        for d in norm_divisors(rng):
            di = m_invert_limb(d)
            yield "invert_limb %x" % d
            nhs = [0, 1, d - 1, d - 2, d >> 1, rng.randrange(d), rng.randrange(d), rng.getrandbits(rng.randrange(1, 63))]
            nls = [0, 1, M, M - 1, HB, HB - 1, rng.getrandbits(64), rrandomb(rng, 64)]
            cases = [(nh, nl) for nh in nhs for nl in nls]
            for q in [0, 1, M, M - 1, HB, rng.getrandbits(64), rrandomb(rng, 64)]:
                for r in [0, 1, d - 1, d - 2, rng.randrange(d)]:
                    n = q * d + r
                    cases.append((n >> 64, n & M))
            for nh, nl in cases:
                assert nh < d
                q2, r2 = m_preinv2(nh, nl, d, di, BR)
                q1, r1 = m_preinv1(nh, nl, d, di, BR)
                assert (q2, r2) == divmod((nh << 64) | nl, d) == (q1, r1)
                yield "udiv_qrnnd_preinv %x %x %x" % (nh, nl, d)
                if rng.random() < 0.4: yield "udiv_qrnnd_preinv1 %x %x %x" % (nh, nl, d)
                if rng.random() < 0.3: yield "udiv_qrnnd_preinv2 %x %x %x" % (nh, nl, d)
                if rng.random() < 0.4: yield "udiv_qrnnd %x %x %x" % (nh, nl, d)
    # primitives on arbitrary (not normalised) divisors, carries, every bit position
    for _ in range(300 * reps):
        d = rng.choice(word_vals(rng)) or 1
        n1 = rng.choice([0, d - 1, rng.randrange(d)]); n0 = rng.choice(word_vals(rng))
        yield "udiv_qrnnd %x %x %x" % (n1, n0, d)
        a = [rng.choice(word_vals(rng)) for _ in range(4)]
        yield "add_ssaaaa %x %x %x %x" % tuple(a)
        yield "sub_ddmmss %x %x %x %x" % tuple(a)
    for k in range(64):
        for x in (1 << k, (1 << k) | rng.getrandbits(k) if k else 1, ((1 << k) | rng.getrandbits(k)) if k else 1, M >> (63 - k), (M << k) & M):
            if x:
                yield "count_leading_zeros %x" % x
                yield "count_trailing_zeros %x" % x
    # modlimb_invert: every table index, every high pattern
    for n in range(1, 256, 2):
        yield "modlimb_invert %x" % n
        yield "modlimb_invert_ok %x" % (n | (rng.getrandbits(56) << 8))
    for _ in range(200 * reps):
        yield "modlimb_invert %x" % (rng.choice(word_vals(rng)) | 1)
    for k in range(1, 65):
        yield "modlimb_invert %x" % ((1 << k) - 1)
        if k < 64: yield "modlimb_invert %x" % ((1 << k) + 1)

def pi1_c_nodec(rng):
    """(d1, d0) on which mpir_invert_pi1 takes branch c WITHOUT the inner decrement (p == d1 and t0 < d0 after the
    carry).  From the proof (pi1PhaseB_spec): with v the value after phase A and G = B^2 - (B+v) d1 - d0 the branch needs
    floor(d0 v / B) - G = d1, i.e. floor(d0 v / B) + d0 = B^2 - (B+v) d1 + d1 =: K; solve d0 ~ K B / (B + v) and check."""
    for _ in range(200):
        d1 = rng.choice([HB, HB + 1, HB + rng.getrandbits(rng.randrange(1, 40)), M - rng.getrandbits(rng.randrange(1, 40)), HB | rng.getrandbits(63)])
        v0 = m_invert_limb(d1)
        for j in range(3):
            v = v0 - j
            if v < 0: continue
            K = B * B - (B + v) * d1 + d1
            c = K * B // (B + v)
            for d0 in range(c - 2, c + 3):
                if 0 <= d0 < B:
                    b = collections.Counter(); m_invert_pi1(d1, d0, b)
                    if b["invert_pi1.c_nodec"]: return d1, d0
    return HB, 0xc000000000000001

def pi1_a_p_eq_d1(rng):
    """(d1, d0) on which the first correction of mpir_invert_pi1 meets p == d1 exactly (the boundary of `_mask = -(_p >= d1)`,
    gmp-impl.h:2840): with v = invert_limb (d1), p = d1*v + d0 mod B, the branch `p < d0` is taken with p == d1 iff
    d0 = d1*(1 - v) mod B and d0 > d1.  For a given d1 at most ONE d0 of the 2^64 qualifies (about 40 % of the d1 have one), so
    neither uniform nor run-structured data meets it; seeded change C02_b_1 (`>=` -> `>`) is wrong exactly there."""
    for _ in range(400):
        d1 = rng.choice([HB | rng.getrandbits(63), HB + rng.getrandbits(rng.randrange(1, 63)), M - rng.getrandbits(rng.randrange(1, 62)), HB | rrandomb(rng, 63)])
        v = m_invert_limb(d1); d0 = (d1 * (1 - v)) & M
        if d0 > d1:
            b = collections.Counter(); m_invert_pi1(d1, d0, b)
            if b["invert_pi1.a_p_eq_d1"]: return d1, d0
    return 0x800000000002a309, 0x8000001bcfe47c4d

def gen_3by2(rng, tier):
    n = 4000 if tier == "quick" else 40000
    for it in range(n):
        d1 = rng.choice([HB, HB + 1, M, M - 1, HB + rng.getrandbits(8), M - rng.getrandbits(8), HB | rng.getrandbits(63), HB | rrandomb(rng, 63)])
        d0 = rng.choice([0, 1, 2, M, M - 1, rng.getrandbits(8), M - rng.getrandbits(8), rng.getrandbits(64), rrandomb(rng, 64), HB])
        if it % 50 == 7: d1, d0 = pi1_c_nodec(rng)
        if it % 50 == 23: d1, d0 = pi1_a_p_eq_d1(rng)
        d = (d1 << 64) | d0
        dinv = m_invert_pi1(d1, d0, BR)
        assert dinv == (B ** 3 - 1) // d - B
        if it % 4 == 0 or it % 50 in (7, 23): yield "invert_pi1 %x %x" % (d1, d0)
        q = rng.choice([0, 1, M, M - 1, HB, rng.getrandbits(64), rng.getrandbits(8), M - rng.getrandbits(8), rrandomb(rng, 64)])
        r = rng.choice([0, 1, d - 1, d - 2, d - 1 - rng.getrandbits(8), rng.randrange(d), d - 1 - rng.getrandbits(64), d1 << 64, (d1 << 64) - 1,
                        ((d1 << 64) + rng.randrange(d0)) if d0 else 0])
        if not (0 <= r < d): continue
        nn = q * d + r
        n2, n1, n0 = nn >> 128, (nn >> 64) & M, nn & M
        if rng.random() < 0.15:      # arbitrary numerator below d*B
            n2, n1, n0 = rng.choice([d1, d1 - 1, rng.randrange(d1 + 1)]), rng.choice(word_vals(rng)), rng.choice(word_vals(rng))
            if not ((n2 << 64 | n1) < d): continue
            nn = (n2 << 128) | (n1 << 64) | n0
        qq, r1, r0 = m_3by2(n2, n1, n0, d1, d0, dinv, BR)
        assert qq == nn // d and ((r1 << 64) | r0) == nn % d
        yield "udiv_qr_3by2 %x %x %x %x %x" % (n2, n1, n0, d1, d0)

def gen_limbs(rng, tier):
    reps = 1 if tier == "quick" else 3
    kinds = ["r0", "r1", "rd1"] + DATA_CLASSES
    for _ in range(reps):
        for cls, d in limb_divisors(rng):
            szs = list(range(1, 41)) + [rng.randrange(41, 300) for _ in range(2)]
            for n in szs:
                ks = ["r0", rng.choice(["r1", "rd1"]), rng.choice(DATA_CLASSES)]
                if n <= 4: ks = kinds
                for kind in ks:
                    u = dividend(rng, n, d, kind)
                    qxn = rng.choice([0, 0, 0, 1, 2, 3, 7])
                    BR[path_divrem_1(n, d, qxn)] += 1
                    if d >> 63: BR["divrem_1/mod_1.norm_top_ge_d" if u[-1] >= d else "divrem_1/mod_1.norm_top_lt_d"] += 1
                    else: BR["divrem_1/mod_1.unnorm_skip" if u[-1] < d else "divrem_1/mod_1.unnorm_noskip"] += 1
                    yield "mpn_divrem_1%s %s %x %x" % (rng.choice(["", "", "_ip"]), vec(u), d, qxn)
                    yield "mpn_mod_1 %s %x" % (vec(u), d)
                    BR["mod_1.norm" if d >> 63 else "mod_1.unnorm"] += 1
                    if rng.random() < 0.5:
                        yield "mpn_divrem_euclidean_qr_1 %s %x" % (vec(u), d)
                    BR[path_r_1(n, d)] += 1
                    yield "mpn_divrem_euclidean_r_1 %s %x" % (vec(u), d)
                    dn = d << (64 - d.bit_length())
                    if kind in ("r0", "r1", "rd1") and dn != d: un = dividend(rng, n, dn, kind)
                    else: un = u
                    yield "mpn_preinv_mod_1 %s %x" % (vec(un), dn)
                    # exact division: exact multiples always, arbitrary data sometimes (the result is still a function of the input)
                    if kind == "r0" or rng.random() < 0.3:
                        BR["divexact_1.size1" if n == 1 else ("divexact_1.odd" if d & 1 else "divexact_1.even")] += 1
                        yield "mpn_divexact_1%s %s %x" % (rng.choice(["", "_ip"]), vec(u), d)
                        if kind == "r0" and rng.random() < 0.3: yield "mpn_divexact_1_ok %s %x" % (vec(u), d)
                    if d & 1:
                        c = rng.choice([0, 0, 1, d - 1, rng.randrange(d), d, rng.getrandbits(64)])
                        yield "mpn_modexact_1c_odd %s %x %x" % (vec(u), d, c)
                        s = rng.choice([0, 1, 63, rng.randrange(64)])
                        cin = rng.choice([0, 0, 1, d - 1, rng.randrange(d)])
                        BR["hensel.qr_1_1" if n < T_HQR else "hensel.qr_1_2"] += 1
                        m_hensel(u, d, s, cin, n >= T_HQR, BR)
                        yield "mpn_rsh_divrem_hensel_qr_1 %s %x %x %x" % (vec(u), d, s, cin)
                        if rng.random() < 0.3: yield "mpn_rsh_divrem_hensel_qr_1_1 %s %x %x %x" % (vec(u), d, s, cin)
                        if n >= 2 and rng.random() < 0.3: yield "mpn_rsh_divrem_hensel_qr_1_2 %s %x %x %x" % (vec(u), d, s, cin)
        # divexact_by3c: multiples of 3 (all carries), arbitrary data
        for n in list(range(1, 41)) + [rng.randrange(41, 300) for _ in range(3)]:
            for kind in ["r0", "r1", "rd1"] + [rng.choice(DATA_CLASSES) for _ in range(2)]:
                u = dividend(rng, n, 3, kind)
                for c in [0, 1, 2] + ([rng.getrandbits(64)] if rng.random() < 0.2 else []):
                    yield "mpn_divexact_by3c%s %s %x" % (rng.choice(["", "_ip"]), vec(u), c)
        # mpn_divrem_1 with a dividend of zero limbs (only fraction limbs)
        for cls, d in limb_divisors(rng)[:24]:
            yield "mpn_divrem_1 [] %x %x" % (d, rng.randrange(1, 6))
            yield "mpn_mod_1 [] %x" % d

def gen_ops(rng, tier, ctx=None):
    BR.clear()
    yield from gen_words(rng, tier)
    yield from gen_3by2(rng, tier)
    yield from gen_limbs(rng, tier)

def nontrivial(line):
    return line if line.split(" ", 1)[0] not in ("count_leading_zeros", "count_trailing_zeros") else None

def extra(ctx, cov):
    cov["c02_word_model_branches"] = dict(sorted(BR.items()))
    return []

THEOREMS = ["Mpir.DivWord." + t for t in [
    "invert_limb_spec", "udiv_qrnnd_preinv_spec", "udiv_qrnnd_preinv1_spec", "invert_pi1_spec", "udiv_qr_3by2_spec", "modlimb_invert_spec", "divrem_euclidean_qr_1_val",
    "divrem_1_val", "divrem_euclidean_r_1_val", "rsh_divrem_hensel_qr_1_val", "mod_1_val", "preinv_mod_1_val", "divexact_1_val", "divexact_by3c_val", "modexact_1c_odd_val",
]]

if __name__ == "__main__":
    import random
    tier = sys.argv[1] if len(sys.argv) > 1 else "quick"
    n = sum(1 for _ in gen_ops(random.Random("C02-1"), tier))
    print("ops:", n)
    for k, v in sorted(BR.items()): print("%-28s %d" % (k, v))
