"""C09 part `rootrem` — the Newton iterations behind mpn_rootrem (rootrem_basecase.c, rootrem.c), merged into c09.py."""
from genlib import *

LEAN_MODULES = ["MpirProofs.Props.C09Rootrem", "MpirProofs.Props.C09"]
THEOREMS = ["Mpir.Rootrem.rootrem_basecase_spec", "Mpir.Rootrem.rootrem_basecase_spec_threshold",
            "Mpir.Rootrem.mpn_rootrem_newton_round_partial", "Mpir.Rootrem.mpn_rootrem_internal_round",
            "Mpir.Rootrem.mpn_rootrem_schedule_ok", "Mpir.Rootrem.mpn_rootrem_internal_spec",
            "Mpir.Rootrem.mpn_rootrem_internal_approx_spec", "Mpir.Rootrem.mpn_rootrem_spec",
            "Mpir.Root.rootrem_contract", "Mpir.Root.mpz_root_spec", "Mpir.Root.perfect_power_p_sound",
            "Mpir.Root.perfect_power_p_iff",
            "Mpir.Rootrem.mpn_dc_sqrtrem_limb_spec", "Mpir.Rootrem.mpn_sqrtrem_even_limb_spec"]
PINS = [("mpn/generic/rootrem_basecase.c", "mpn_rootrem_basecase"), ("mpn/generic/pow_1.c", "mpn_pow_1"),
        ("mpn/generic/rootrem.c", "mpn_rootrem"), ("mpn/generic/rootrem.c", "mpn_rootrem_internal"),
        ("mpz/perfpow.c", None), ("mpz/root.c", None), ("mpz/rootrem.c", None), ("mpz/nthroot.c", None),
        ("mpn/generic/sqrtrem.c", "mpn_dc_sqrtrem"), ("mpn/generic/sqrtrem.c", "mpn_sqrtrem")]
TRUSTED = ["hand-written model lean/Mpir/Model/SqrtremLimb.lean: mpn_dc_sqrtrem on limb buffers (every buffer a natural modulo B^size, "
           "mpn_sub_n / mpn_add_n / mpn_sub_1 / mpn_add_1 / mpn_addmul_1 / mpn_sqr / mpn_half / mpn_intdivrem by their value + carry "
           "contracts, the C's int c, b and limb q); tied by op mpn_sqrtrem_dc (even limb count, normalised top limb: the operand "
           "reaches mpn_dc_sqrtrem unshifted and its return value is stored as rp[tn])",
           "hand-written model lean/Mpir/Model/Rootrem.lean: mpn_rootrem_basecase at value + limb-count level "
           "(every value, every limb count a test reads, every branch and ASSERT_ALWAYS in source order; buffer capacities "
           "PP_ALLOC/EXTRA and their ASSERT_ALWAYS, carries inside the mpn kernels are not represented); mpn_pow_1, mpn_tdiv_qr, "
           "mpn_addmul_1, mpn_divrem_1 enter by their value contracts (C02/C06 kernels)",
           "mpn_rootrem_internal and the mpn_rootrem dispatcher: value-level model (schedule sizes[], Newton round with the 2^b clamp, "
           "correction loop with ASSERT_ALWAYS (c <= 1), approx flag, padded call); the limb surgery that inserts bits [kk, kk+b) "
           "of U into the remainder (rootrem.c:274-297) is represented by its value"]
ASSUMPTIONS = ["rootrem_basecase_spec is stated for operands below 2^32 bits (`bitLen U <= 2^32`): the test `un - pn == xn` of "
               "rootrem_basecase.c:163 recognises a quotient with xn+1 limbs only while nth^2 is small against B^xn; for "
               "astronomically large nth (operands of more than 2^32 bits) the model leaves this case open",
               "mpn_rootrem_internal / mpn_rootrem are proved in full on the model for operands of at most 2^62 resp. 2^61 bits "
               "(mpn_rootrem_schedule_ok: sizes[] ends in 0, ni <= 64, chain condition; mpn_rootrem_internal_spec, "
               "mpn_rootrem_internal_approx_spec, mpn_rootrem_spec); beyond 2^63 bits and k = 2 the schedule has 66 entries and "
               "ASSERT_ALWAYS (ni < GMP_NUMB_BITS + 1) would fire (no address space holds such an operand).  RootremSpec is "
               "discharged pointwise (rootrem_contract) for every operand an mpz_t can hold: mpz_root_spec, perfect_power_p_sound, "
               "perfect_power_p_iff carry only the size hypothesis bitLen |u| <= 2^61 (|SIZ| < 2^31 limbs gives 2^37)",
               "the mpz layer calls the value-level model Mpir.Root.rootrem (Model/Root.lean); Lemmas/RootremBridge.lean proves it equal to "
               "the Option-valued mirror Mpir.Rootrem.rootrem wherever that answers `some` (internal part) and re-proves its basecase "
               "with the same invariants; both models answer ops of the differential run (mpn_rootrem / mpn_rootrem_i)",
               "op mpn_rootrem_basecase calls __gmpn_rootrem_basecase directly at every size (the library uses it below ROOTREM_THRESHOLD limbs)"]

def _iroot(n, u):
    if u < 2: return u
    lo, hi = 1, 1 << (u.bit_length() // n + 1)
    while lo + 1 < hi:
        m = (lo + hi) // 2
        if m ** n <= u: lo = m
        else: hi = m
    return lo

def _roots(rng, bits):
    j = max(1, bits)
    yield (1 << j) - 1                                       # all ones
    yield 1 << (j - 1)                                       # power of two
    yield (1 << (j - 1)) + 1
    if j > 2: yield (1 << j) - (1 << rng.randrange(1, j))    # ones then zeros
    yield rrandomb(rng, j) | (1 << (j - 1))
    yield rng.getrandbits(j) | (1 << (j - 1))

def _bc(u, k):
    return "mpn_rootrem_basecase %s %x" % (vec(limbs_of(u)), k)

def basecase_ops(rng, tier):
    quick = tier == "quick"
    # every small operand x every small index: the bit-by-bit path that reaches `done` directly (xnb - 2 < bits(nth))
    for u in range(1, 300 if quick else 3000):
        for k in (2, 3, 4, 5, 7, 8, 64, 65):
            yield _bc(u, k)
    # r^k, r^k +- 1, (r+1)^k - 1 with structured roots; k from 2 to beyond the bit length; 1..12 limbs (the threshold is 6)
    for nl in list(range(1, 13)) + ([] if quick else [16, 24, 40]):
        ks = [2, 3, 4, 5, 6, 7, 9, 15, 16, 17, 31, 33, 63, 64, 65, 100, nl * 16, nl * 32, nl * 64 - 1, nl * 64, nl * 64 + 1,
              rng.randrange(2, nl * 64 + 70)]
        for k in ks:
            if k < 2: continue
            rb = max(1, (nl * 64) // k - rng.randrange(0, 2))
            for r in list(_roots(rng, rb))[: (6 if nl <= 6 or not quick else 3)]:
                p = r ** k
                for u in (p - 1, p, p + 1, (r + 1) ** k - 1, (r + 1) ** k):
                    if u > 0 and u.bit_length() <= nl * 64 + 64: yield _bc(u, k)
            u = 0
            for i, x in enumerate(rand_limbs(rng, nl)): u |= x << (64 * i)
            u |= 1 << (64 * (nl - 1) + rng.randrange(64))
            yield _bc(u, k)
    # iterate saturation (rootrem_basecase.c:163-171): root B^xn - 1 - small, operand just below B^(xn k): the Newton
    # iterate reaches B^xn, the quotient has xn + 1 limbs and un - pn == xn
    for _ in range(400 if quick else 6000):
        xn = rng.choice([1, 1, 2, 3]); k = rng.choice([2, 3, 4, 5, 7, 9, 16, 17, 33])
        W = B ** xn
        s = W - 1 - rng.choice([0, 0, 0, 1, 2, k, rng.getrandbits(8)])
        u = rng.choice([(s + 1) ** k - 1 - rng.getrandbits(rng.choice([1, 8, 64, 64 * xn])), s ** k + rng.getrandbits(8), s ** k,
                        B ** (xn * k) - 1 - rng.getrandbits(rng.choice([1, 8, 64]))])
        if u > 0: yield _bc(u, k)
    # all-ones / sparse operands at the limb counts around the basecase/internal switch, every k up to 70
    for nl in (4, 5, 6, 7):
        for k in range(2, 71 if not quick else 24):
            for cls in ("ones", "top", "runs", "uniform"):
                u = 0
                for i, x in enumerate(rand_limbs(rng, nl, cls)): u |= x << (64 * i)
                if u >> (64 * (nl - 1)) == 0: u |= 1 << (64 * (nl - 1))
                yield _bc(u, k)
    # huge index: root 1
    for nl in (1, 2, 5, 6, 9):
        u = 0
        for i, x in enumerate(rand_limbs(rng, nl, "uniform")): u |= x << (64 * i)
        u |= 1 << (64 * (nl - 1))
        for k in (1 << 32, (1 << 32) + 1, 1 << 63, (1 << 64) - 1, u.bit_length() - 1, u.bit_length(), u.bit_length() + 1):
            if k >= 2: yield _bc(u, k)

def _ri(rng, u, k):
    yield "mpn_rootrem_i %s %x" % (vec(limbs_of(u)), k)
    yield "mpn_rootrem_i_norem %s %x" % (vec(limbs_of(u)), k)

def internal_ops(rng, tier):
    """mpn_rootrem at and above ROOTREM_THRESHOLD (6 limbs): mpn_rootrem_internal with approx = 0 and, for remp == NULL
    and un / k > 2, the padded approximate call; below the threshold the dispatcher goes to the basecase."""
    quick = tier == "quick"
    for nl in [4, 5, 6, 7, 8, 9, 10, 12, 13, 16] + ([] if quick else [20, 33, 64, 100]):
        ks = [2, 3, 4, 5, 6, 7, 8, 9, 15, 16, 17, 31, 32, 33, 63, 64, 65, 127, 128, 129, nl * 16, nl * 32 - 1, nl * 32, nl * 64 - 1, nl * 64,
              nl * 64 + 1, rng.randrange(2, nl * 64 + 70), 1 << 32, (1 << 63) + 1, (1 << 64) - 1]
        for k in ks:
            if k < 2: continue
            rb = max(1, (nl * 64) // k - rng.randrange(0, 2))
            for r in list(_roots(rng, rb))[: (6 if nl <= 8 or not quick else 2)]:
                p = r ** k if k < 100000 else 1
                for u in (p - 1, p, p + 1, (r + 1) ** k - 1 if k < 100000 else 0):
                    if u > 0 and nl * 64 - 64 < u.bit_length() <= nl * 64 + 64: yield from _ri(rng, u, k)
            u = 0
            for i, x in enumerate(rand_limbs(rng, nl, rng.choice(["uniform", "runs", "ones", "top", "sparse"]))): u |= x << (64 * i)
            if u >> (64 * (nl - 1)) == 0: u |= 1 << (64 * (nl - 1) + rng.randrange(64))
            yield from _ri(rng, u, k)
    # roots B^j - 1 (all ones: the candidate S*2^b + Q must not lose its top limb when decremented), operands B^(jk) - small
    for j in (1, 2, 3, 4):
        for k in (2, 3, 4, 5, 6, 7, 8, 9, 12, 16):
            W = B ** j
            for u in (W ** k - 1, W ** k - 2, (W - 1) ** k, (W - 1) ** k + 1, (W - 1) ** k - 1, W ** k - rng.getrandbits(64 * j), W ** k - rng.getrandbits(64),
                      (W - 1) ** k + rng.getrandbits(64 * j), W ** k, W ** k + 1):
                if u > 0 and len(limbs_of(u)) >= 6 and len(limbs_of(u)) <= 70: yield from _ri(rng, u, k)
    # the padded path (remp == NULL, un / k > 2): exact powers whose padded root ends in a limb 0 (exact) / 1 / >= 2
    for _ in range(300 if quick else 5000):
        k = rng.choice([2, 2, 3, 3, 4, 5, 6, 7])
        xl = rng.randrange(3, 8 if quick else 16)
        x = rng.choice([rng.getrandbits(64 * xl - rng.randrange(0, 64)) | 1, (1 << (64 * xl - rng.randrange(0, 64))) - 1,
                        (1 << (64 * xl - 1 - rng.randrange(0, 64))) + rng.getrandbits(rng.choice([1, 8, 64]))])
        if x < 2: continue
        p = x ** k
        for u in (p, p + 1, p - 1, p + rng.getrandbits(rng.choice([8, 64, 64 * xl]))):
            if len(limbs_of(u)) >= 6: yield "mpn_rootrem_i_norem %s %x" % (vec(limbs_of(u)), k)

def _rr_sched(logk, b):
    """the list sizes[] of rootrem.c:215-233"""
    out = []
    while b != 0:
        out.append(b); c = (b + logk + 1) // 2
        if c >= b: c = b - 1
        b = c
    return out + [0]

def schedule_ops(rng, tier):
    """walk the schedule sizes[] of mpn_rootrem_internal on purpose: root bit counts xnb = 2^j - 1, 2^j, 2^j + 1 (every
    length ni of the halving phase), and xnb - 1 around logk + 1 = the point where the schedule switches to one bit per
    round (beta = 2): xnb - 1 in logk - 1 .. logk + 4, for k at and around powers of two (logk changes at 2^j + 1).
    Operands: r^k, r^k -+ 1, (r+1)^k - 1 for structured roots r of exactly xnb bits, and uniform/sparse operands of every
    bit length k (xnb - 1) + 1 + r, r in {0, k - 1, random} (first and last operand of the root's bit window)."""
    quick = tier == "quick"
    lim = 6400 if quick else 40000           # operand bits
    ks = [2, 3, 4, 5, 7, 8, 9, 15, 16, 17, 31, 32, 33, 63, 64, 65, 127, 128, 129, 255, 256, 257, 1023, 1025]
    if quick: ks = [2, 3, 5, 8, 9, 17, 32, 33, 65, 129, 257]
    seen = set()
    def emit(u, k, both=True):
        if u <= 0 or len(limbs_of(u)) < 6 or u.bit_length() > lim + 64: return
        if (u, k) in seen: return
        seen.add((u, k))
        yield "mpn_rootrem_i %s %x" % (vec(limbs_of(u)), k)
        if both: yield "mpn_rootrem_i_norem %s %x" % (vec(limbs_of(u)), k)
    def window(k, xnb, full):
        T = xnb - 1
        if T < 1 or k * xnb > lim: return
        roots = [(1 << xnb) - 1, 1 << T, (1 << T) + 1, rng.getrandbits(xnb) | (1 << T), rrandomb(rng, xnb) | (1 << T)]
        for r in (roots if full else roots[:1] + roots[3:4]):
            p = r ** k
            for u in ((p, p - 1, p + 1, (r + 1) ** k - 1) if full else (p, p + 1)):
                if u.bit_length() > k * T: yield from emit(u, k)
        for rr in ((0, k - 1) if quick else (0, k - 1, rng.randrange(k))):
            nb = k * T + 1 + rr
            u = rng.getrandbits(nb) | (1 << (nb - 1))
            yield from emit(u, k, both=False)
            u = (1 << nb) - 1 - rng.getrandbits(rng.choice([1, 8, 64]))
            yield from emit(u, k, both=False)
            yield from emit(1 << (nb - 1), k)
    for k in ks:
        logk = (k - 1).bit_length()
        lens = set()
        for j in range(1, 14 if quick else 16):
            for xnb in ((1 << j) - 1, 1 << j, (1 << j) + 1):
                if xnb >= 2 and k * xnb <= lim:
                    lens.add(len(_rr_sched(logk, xnb - 1)))
                    yield from window(k, xnb, full=(not quick or (xnb == (1 << j) + 1 and j <= 7)))
        # the switch to single bits: T = logk + 1 is the first size reached by the halving phase
        for T in range(max(1, logk - 1), logk + 6):
            yield from window(k, T + 1, full=(not quick or T in (logk + 1, logk + 2)))
        # every schedule length that fits: smallest T with that many rounds
        for ni in range(2, 40):
            T = next((t for t in range(1, lim // k) if len(_rr_sched(logk, t)) == ni + 1), None)
            if T is not None and (ni + 1) not in lens: yield from window(k, T + 1, full=False)
    # huge indices with a root of 2..4 bits: every round has beta = 2
    for k in (1000, 1 << 12, (1 << 12) + 1) + (() if quick else (1 << 14, 40000)):
        for T in (1, 2, 3):
            if k * (T + 1) > (20000 if quick else 200000): continue
            for rr in (0, k - 1, rng.randrange(k)):
                nb = k * T + 1 + rr
                u = rng.getrandbits(nb) | (1 << (nb - 1))
                yield "mpn_rootrem_i %s %x" % (vec(limbs_of(u)), k)
                yield "mpn_rootrem_i_norem %s %x" % (vec(limbs_of((1 << nb) - 1)), k)
            for r in range(1 << T, 1 << (T + 1)):
                yield "mpn_rootrem_i %s %x" % (vec(limbs_of(r ** k)), k)
                yield "mpn_rootrem_i_norem %s %x" % (vec(limbs_of(r ** k + 1)), k)
                if r > 2: yield "mpn_rootrem_i %s %x" % (vec(limbs_of(r ** k - 1)), k)

def perfpow_ops(rng, tier):
    """mpz_perfect_power_p on the exits the completeness proof distinguishes: cofactors whose prime factors are all
    >= SMALLEST_OMITTED_PRIME (1009) so that the root-attempt loops decide — exact root at a prime exponent reached late,
    the cut-off `root < 1009` (1009^m has root exactly 1009 at nth = m, about 1009^(m/nth) before), the bounded loop over
    prime divisors of n2 (2-adic valuation and small-prime multiplicities composite), negative operands (odd exponents
    only; power-of-two multiplicities), cofactor 1."""
    quick = tier == "quick"
    big = [1009, 1013, 1019, 1021, 10007, 65537, (1 << 31) - 1, (1 << 61) - 1]
    for _ in range(90 if quick else 3000):
        m = rng.choice([2, 3, 5, 7, 11, 13, 17, 19, 23, 4, 6, 9, 15, 25, 49])
        t = 1
        for _ in range(rng.randrange(1, 3)): t *= rng.choice(big) ** rng.randrange(1, 3)
        if t.bit_length() * m > 3000: continue
        v = t ** m
        n2 = rng.choice([0, 0, m, 2 * m, 3 * m, 6, 12, 15, 30, 4, 8, 9, 1, 2, 3])
        sm = rng.choice([1, 1, 3 ** m, 3 ** (2 * m) * 5 ** (3 * m), 7 ** 6, 3 ** 4 * 5 ** 6, 3 ** 9 * 5 ** 6, 3 ** 2 * 997 ** 4])
        for w in (v, v << n2, (v << n2) * sm, v * sm, (v + 2) << n2, v * rng.choice(big), 1 << n2, sm << n2):
            if w > 1:
                yield "mpz_perfect_power_p %s" % hx(w); yield "mpz_perfect_power_p %s" % hx(-w)
    for m in range(2, 24 if quick else 40):
        for q in (1009, 1013):
            yield "mpz_perfect_power_p %s" % hx(q ** m); yield "mpz_perfect_power_p %s" % hx(-(q ** m))
            yield "mpz_perfect_power_p %s" % hx(q ** m * 1021)
    for u in (0, 1, -1, 2, -2, 4, -4, 8, -8, 16, -16, 64, -64, 4096, -4096, 1 << 30, -(1 << 30), 1 << 64, -(1 << 64), -(1 << 63)):
        yield "mpz_perfect_power_p %s" % hx(u)

def sqrtdc_ops(rng, tier):
    """mpn_sqrtrem on even limb counts with a normalised top limb (mpn_dc_sqrtrem unshifted): operands built backwards from
    the root so that the carries of the recursion take every value — remainder 0, 2S (c = 1 at the top), roots B^n - 1
    (q carries out of {sp + l, h}), low half of the root zero (q = 1 at :274 needs it), odd/even quotients (c at :271),
    squares minus one (the correction branch), both l == h and l + 1 == h."""
    quick = tier == "quick"
    def emit(N, n):
        if N >> (128 * n - 2) and N < (1 << (128 * n)): yield "mpn_sqrtrem_dc %s" % vec(limbs_of(N) + [0] * (2 * n - len(limbs_of(N))))
    for n in list(range(1, 14)) + ([16, 17, 31, 32] if quick else [16, 17, 31, 32, 33, 63, 64, 65, 100, 129]):
        W = 1 << (64 * n)
        roots = [W - 1, W - 2, W // 2, W // 2 + 1, (W // 2) | 1, W - (1 << (32 * n)), (W - 1) ^ ((1 << (64 * (n // 2))) - 1),
                 (W // 2) + (1 << (64 * (n // 2))), W - 1 - (1 << (64 * (n // 2)))]
        for _ in range(2 if quick else 40):
            roots.append(rng.getrandbits(64 * n) | (W // 2))
            roots.append(rrandomb(rng, 64 * n) | (W // 2))
        for s in roots:
            rs = (0, 1, 2 * s, 2 * s - 1, s, s + 1, s - 1, W - 1, W, W + 1, rng.randrange(2 * s + 1), rrandomb(rng, 64 * n) % (2 * s + 1))
            for r in (rs if not quick else rs[:4] + rs[7:11]):
                if 0 <= r <= 2 * s: yield from emit(s * s + r, n)
        for _ in range(10 if quick else 100):
            N = 0
            for i, x in enumerate(rand_limbs(rng, 2 * n, rng.choice(["uniform", "runs", "ones", "top", "sparse"]))): N |= x << (64 * i)
            N |= 1 << (128 * n - 1 - rng.randrange(2))
            yield from emit(N, n)

def gen_ops(rng, tier, ctx=None):
    yield from sqrtdc_ops(rng, tier)
    yield from basecase_ops(rng, tier)
    yield from internal_ops(rng, tier)
    yield from schedule_ops(rng, tier)
    yield from perfpow_ops(rng, tier)
