"""C06 part: the divide-and-conquer conversions (mpn_dc_get_str / mpn_dc_set_str and their power tables) and the
stream functions.  Theorems in MpirProofs/Props/C06_dc.lean; the dc MODELS (lean/Mpir/Model/RadixDc.lean) run against
the real mpn_get_str / mpn_set_str / mpn_set_str_compute_powtab at sizes above the thresholds.
Merged into tools/props/c06.py by check.py (lists concatenated, generators chained)."""
import os, sys
sys.path.insert(0, os.path.dirname(os.path.dirname(os.path.abspath(__file__))))
from genlib import *
import gen_bases as _gb
from props.c06_radix import to_digits, cpl_of, is_pow2, rand_value, thresholds, text, digit_char

LEAN_MODULES = ["MpirProofs.Props.C06_dc"]
THEOREMS = [
    "Mpir.RadixDc.dc_tables_ok",
    "Mpir.RadixDc.dc_thresholds_ok",
    "Mpir.RadixDc.powtab_ok",
    "Mpir.RadixDc.set_powtab_ok",
    "Mpir.RadixDc.dc_get_str_digits",
    "Mpir.RadixDc.dc_set_str_val",
    "Mpir.RadixDc.mpn_get_str_spec_partial",
    "Mpir.RadixDc.mpn_get_str_full_spec_partial",
    "Mpir.RadixDc.mpn_set_str_spec",
    "Mpir.RadixDc.mpn_set_str_full_spec",
    "Mpir.Radix.mpz_out_str_spec",
    "Mpir.Radix.mpz_inp_str_spec",
    "Mpir.Radix.inp_out_roundtrip",
    "Mpir.Radix.mpq_out_str_spec",
    "Mpir.Radix.mpq_inp_str_spec",
    "Mpir.Radix.mpq_inp_out_roundtrip",
]
PINS = [("mpn/generic/get_str.c", "mpn_get_str"), ("mpn/generic/get_str.c", "mpn_dc_get_str"),
        ("mpn/generic/get_str.c", "mpn_sb_get_str"),
        ("mpn/generic/set_str.c", "mpn_set_str"), ("mpn/generic/set_str.c", "mpn_set_str_compute_powtab"),
        ("mpn/generic/set_str.c", "mpn_dc_set_str"), ("mpn/generic/set_str.c", "mpn_bc_set_str"),
        ("mpz/out_str.c", "mpz_out_str"), ("mpz/inp_str.c", "mpz_inp_str"), ("mpz/inp_str.c", "mpz_inp_str_nowhite"),
        ("mpq/out_str.c", "mpq_out_str"), ("mpq/inp_str.c", "mpq_inp_str"),
        ("gmp-impl.h", "mpn_dc_set_str_powtab_alloc"), ("gmp-impl.h", "mpn_dc_get_str_powtab_alloc")]
TRUSTED = ["hand-written dc models lean/Mpir/Model/RadixDc.lean tied by correspondence (digits / limbs as returned; the set_str power table entry by entry); "
           "mpn_sqr, mpn_mul, mpn_mul_1, mpn_divexact_1, mpn_tdiv_qr, mpn_add_n inside the dc code by their arithmetic meaning; "
           "the binary64 evaluation of xn (get_str.c:412) as exact rational + round-to-nearest-even"]
ASSUMPTIONS = ["mpn_get_str above GET_STR_PRECOMPUTE_THRESHOLD is proved for operands of at most 2^36 limbs (mpn_get_str_spec_partial): the table size xn comes from a "
               "binary64 product and cannot be certified for unbounded sizes",
               "scratch and table allocations of the dc code (powtab_mem, tmp; the ASSERT_ALWAYS on powtab_mem_ptr) are outside the value-level model (C04)"]
RULE = ("dc conversions: operand sizes ±2 limbs around GET_STR_DC/PRECOMPUTE thresholds and their doubles, digit counts ±2 around SET_STR_DC/PRECOMPUTE "
        "thresholds and their doubles (read from the build's gmp-mparam.h); bases 10, 3, 36, 62 always plus sampled non-power-of-two bases (all in the "
        "thorough tier); values b^k-1, b^k, b^k+1, long zero runs in the low part (zero padding), leading/embedded/trailing zero digit runs (hn == 0), "
        "0/1-run limbs; the set_str power table for un around every power of two; streams: what out_str wrote followed by every kind of non-digit "
        "continuation (and by a digit / a second `/`), read back by inp_str, all bases incl. upper-case output, base-0 prefixes in rationals")

ALWAYS = [10, 3, 36, 62]

def bases_for(rng, tier):
    nonp2 = [b for b in range(3, 63) if not is_pow2(b)]
    if tier != "quick": return nonp2
    rest = [b for b in nonp2 if b not in ALWAYS]
    return ALWAYS + rng.sample(rest, 8)

def around(ts, lo=1):
    s = set()
    for t in ts:
        for d in (-2, -1, 0, 1, 2): s.add(max(lo, t + d))
    return sorted(s)

def get_values(b, n, rng):
    """operands of exactly n limbs"""
    lo, hi = 1 << (64 * (n - 1)), (1 << (64 * n)) - 1
    k = len(to_digits(lo, b))                    # b^k is the first power with n limbs (or the last below)
    out = []
    for kk in (k - 1, k, k + 1):
        for d in (-1, 0, 1):
            v = b ** kk + d
            if lo <= v <= hi: out.append(v)
    # long zero runs in the low part: h * b^j, h * b^j + small, for j around half the digits
    for j in (k // 2, k // 2 + 1, (2 * k) // 3, k - 3):
        if j < 1: continue
        h = rng.randrange(1, b ** max(1, k - j - 1))
        for small in (0, 1, rng.randrange(b), b ** max(0, j // 3)):
            v = h * b ** j + small
            if lo <= v <= hi: out.append(v)
    # big_base powers: the divisors themselves and their neighbours
    cpl, bb = cpl_of(b)
    e = 1
    while bb ** e <= hi:
        for d in (-1, 0, 1):
            v = bb ** e + d
            if lo <= v <= hi: out.append(v)
        v = rng.randrange(1, bb) * bb ** e
        if lo <= v <= hi: out.append(v)
        e *= 2
    out.append(lo); out.append(hi); out.append(lo + 1)
    out.append(rand_value(rng, n)); out.append(rand_value(rng, n))
    return out

def set_strings(b, n, rng):
    """digit strings of exactly n digits"""
    def rs(m): return [rng.randrange(b) for _ in range(m)]
    out = []
    out.append([b - 1] * n)                                  # b^n - 1
    out.append([1] + [0] * (n - 1))                          # b^(n-1)
    out.append([1] + [0] * (n - 2) + [1])                    # b^(n-1) + 1
    out.append([b - 1] * (n - 1) + [b - 2])
    z = rng.randrange(1, max(2, n // 2))
    out.append([0] * z + [1] + rs(n - z - 1))                # leading zeros: hn == 0 / non-normalised high part
    out.append([0] * (n - 1) + [rng.randrange(1, b)])        # value below b
    out.append([0] * n)                                      # zero
    h = rng.randrange(1, n - 1)
    out.append(rs(h) + [0] * (n - h))                        # long zero run in the low part
    out.append([0] * (n - h) + rs(h))                        # the high half all zero
    m = n // 3
    out.append(rs(m) + [0] * m + rs(n - 2 * m))              # embedded zero run
    d = rs(n)
    if d[0] == 0: d[0] = 1
    out.append(d)
    return out

def gen_ops(rng, tier, ctx=None):
    thr = thresholds(ctx)
    quick = tier == "quick"
    gdc, gpre = thr["GET_STR_DC_THRESHOLD"], thr["GET_STR_PRECOMPUTE_THRESHOLD"]
    sdc, spre = thr["SET_STR_DC_THRESHOLD"], thr["SET_STR_PRECOMPUTE_THRESHOLD"]
    bases = bases_for(rng, tier)
    # ---- mpn_get_str: sizes around both thresholds (the dc path needs >= PRECOMPUTE; the sub-operands then cross DC)
    gsz = around([gdc, gpre, 2 * gdc, gpre + gdc, 2 * gpre, 4 * gdc])
    gbig = [3 * gpre + 1, 97] if quick else [3 * gpre + 1, 97, 200, 411, 1000]
    for b in bases:
        for n in gsz + gbig:
            vals = get_values(b, n, rng)
            if n in gbig or (quick and n > 2 * gpre + 2): vals = vals[:4] + vals[-3:]
            for v in vals:
                yield "mpn_get_str_dcmodel %s %s" % (hx(b), vec(limbs_of(v)))
    # ---- mpn_set_str: digit counts around both thresholds
    ssz = around([sdc, spre, 2 * sdc, 2 * spre])
    sbig = [3 * spre + 7] if quick else [3 * spre + 7, 4 * spre, 20011]
    for b in bases:
        cpl, _ = cpl_of(b)
        lens = list(ssz) + sbig
        # lengths whose halves land exactly on the dc threshold / on digits_in_base boundaries
        lens += [spre + cpl, (spre // cpl + 1) * cpl, (spre // cpl + 1) * cpl + 1]
        if quick and b not in ALWAYS: lens = rng.sample(sorted(set(lens)), 8)
        for n in sorted(set(lens)):
            strs = set_strings(b, n, rng)
            if quick and (n in sbig or b not in ALWAYS): strs = rng.sample(strs, 4)
            for ds in strs:
                yield "mpn_set_str_dcmodel %s %s" % (hx(b), sbytes(bytes(ds)))
    # ---- the set_str power table: un around every power of two and at the sizes used above
    uns = set()
    for k in range(1, 12 if quick else 15):
        for d in (-1, 0, 1, 2): uns.add(max(2, (1 << k) + d))
    for n in ssz: uns.add(n // 19 + 1)
    for b in bases:
        for un in sorted(uns) if (not quick or b in ALWAYS) else rng.sample(sorted(uns), 6):
            yield "set_str_powtab %s %s" % (hx(b), hx(un))
    # ---- streams
    yield from stream_ops(rng, tier)

def stream_ops(rng, tier):
    """what mpz_out_str / mpq_out_str write, followed by a continuation that does not continue the number, read
    back by mpz_inp_str / mpq_inp_str (inp_out_roundtrip, mpq_inp_out_roundtrip); and continuations that do"""
    quick = tier == "quick"
    for base in list(range(2, 63)) + [-b for b in range(2, 37)]:
        b = abs(base)
        # characters that are not digits of base b (under its case rule) and a digit that is
        non = [0x20, 0x0a, 0x2f, 0x2d, 0x2e, 0x00, 0x80]
        if b <= 36:
            if b < 36: non.append(digit_char(36, b)); non.append(digit_char(-36, b))
        elif b < 62: non.append(digit_char(62, b))
        dig = digit_char(base, rng.randrange(b))
        for _ in range(2 if quick else 6):
            x = rand_int(rng, 3)
            t = text(base, x)
            for c in rng.sample(non, 3 if quick else len(non)):
                yield "mpz_inp_str %s %s" % (hx(b), sbytes(t + bytes([c]) + b"1"))
            yield "mpz_inp_str %s %s" % (hx(b), sbytes(t))
            yield "mpz_inp_str %s %s" % (hx(b), sbytes(b" \t" + t + bytes([dig])))      # a digit continues the number
            n = rand_int(rng, 2); d = rand_int(rng, 2)
            if rng.random() < 0.3: d = 1
            q = text(base, n) + (b"" if d == 1 else b"/" + text(base, d))
            for c in rng.sample([0x20, 0x0a, 0x2e, 0x00], 2):
                yield "mpq_inp_str %s %s" % (hx(b), sbytes(q + bytes([c]) + b"1"))
            yield "mpq_inp_str %s %s" % (hx(b), sbytes(q))
            yield "mpq_inp_str %s %s" % (hx(b), sbytes(q + b"/" + text(base, abs(d) + 2)))   # `/` continues a rational with den 1
            yield "mpq_out_str %s %s %s" % (hx(base), hx(n), hx(abs(d) or 1))
    for t in (b"0x1F/0x10 ", b"-0b101/0b11x", b"017/08", b"0x/1", b"1/0x", b" 12/ 3", b"12 /3", b"-/1", b"1/-", b"1/-0", b"0/0"):
        yield "mpq_inp_str 0 %s" % sbytes(t)
        yield "mpz_inp_str 0 %s" % sbytes(t)

def nontrivial(line):
    op = line.split(" ", 1)[0]
    if op in ("mpn_get_str_dcmodel", "mpn_set_str_dcmodel", "set_str_powtab"): return line
    return None
