"""C01 (part: Toom-8.5 and Toom-8 squaring) — mpn_toom8h_mul for every shape the ratio cascade can choose (8x8, 9x8 ... 13x4,
with and without the point at infinity, both "badly chosen splitting" repairs), mpn_toom8_sqr_n, and the helpers they are made of
(mpn_toom_eval_pm1 / _dgr3_pm1 / _pm2 / _pm2exp / _pm2rexp, mpn_toom_couple_handling, mpn_toom_interpolate_16pts), each called
directly.  All ops are answered by the value-level model lean/Mpir/Model/Toom8.lean (the object of the theorems)."""
import os, sys
sys.path.insert(0, os.path.dirname(os.path.dirname(os.path.abspath(__file__))))
from genlib import *
import gen_params

LEAN_MODULES = ["MpirProofs.Props.C01_toom8"]
THEOREMS = [
    "Mpir.Toom8.toom_eval_helpers_exact", "Mpir.Toom8.toom_couple_handling_val", "Mpir.Toom8.toom_interp16_exact",
    "Mpir.Toom8.toom_interp16_binvert", "Mpir.Toom8.toom8h_split_ok", "Mpir.Toom8.toom8h_exact",
    "Mpir.Toom8.toom8_sqr_exact", "Mpir.Toom8.toom8_sqr_exact_of_asserts",
    "Mpir.Toom8.mpn_mul_n_exact_partial", "Mpir.Toom8.mpn_sqr_exact_partial",
]
PINS = [("mpn/generic/toom8h_mul.c", None), ("mpn/generic/toom8_sqr_n.c", None), ("mpn/generic/toom_interpolate_16pts.c", None),
        ("mpn/generic/toom_eval_pm1.c", None), ("mpn/generic/toom_eval_dgr3_pm1.c", None), ("mpn/generic/toom_eval_pm2.c", None),
        ("mpn/generic/toom_eval_pm2exp.c", None), ("mpn/generic/toom_eval_pm2rexp.c", None), ("mpn/generic/toom_couple_handling.c", None)]
TRUSTED = ["hand-written value-level model of Toom-8.5 / Toom-8 squaring and their helpers, lean/Mpir/Model/Toom8.lean (pinned to the nine C files; "
           "answers mpn_toom8h_mul / mpn_toom8_sqr_n (`!model` unless it yields the product) and toom_eval_* / toom_couple / toom_interp16 (limb for limb) on every check)"]
ASSUMPTIONS = ["mpn_mul_n_exact_partial / mpn_sqr_exact_partial are one step of the induction over sizes: recursive products inside every callee are replaced by the exact "
               "product; leaves assumed: mpn_mul_basecase / mpn_sqr_basecase (C01_leaves), the FFT; mpn_kara_sqr_n / mpn_toom3_sqr_n / mpn_toom4_sqr_n are represented by the "
               "model of the multiplication with b = a (differential only for their squaring-specific code)",
               "Toom-8.5: two's-complement storage of negative intermediates, the sign-extension repairs after mpn_divexact_by2835x64 / by255x4, carries of the "
               "recomposition and the buffer layout (r_i inside pp / scratch) are covered by the differential run only; the decomposition (p, q, half, n) chosen "
               "inside mpn_toom8h_mul is not observable from outside: the model's cascade is tied by the source pin and by the product only"]
RULE = ("toom8h: every shape (p,q,half) in {(7,7,0),(8,7,1),(8,6,0),(9,6,1),(9,5,0),(10,5,1),(10,4,0),(11,4,1),(11,3,0),(12,3,1)} at its smallest legal size and "
        "at sizes where the s<1 / t<1 repair fires, ratio boundaries +-1 of the cascade at bn in {86, 87, 100, 127}, around MUL_TOOM8H_THRESHOLD and one size with "
        "n+1 >= MUL_TOOM8H_THRESHOLD (recursive call); blocks from a palette (0, 1, all ones, ones ending j bits below the block boundary, top bit, random) and operands "
        "with A(-1)=0, A(-2)=0 (flag quirk of eval_pm2 at odd degree), A(-1/2)=0, A(-4)=0, B all ones; helpers: every degree 3..12 x block sizes 1..4 x top block sizes, same "
        "palette, values at the negative point zero / negative / positive; couple handling and interpolation on the values of real block polynomials (both `half`, spt from 1 to 2n)")

_cache = {}
def _thresholds(ctx):
    b = getattr(ctx, "build", None) if ctx is not None else None
    if b is None:
        import vlib; b = vlib.get_build("plain")
    if b not in _cache:
        names, vals, fft_tab, mm_tab, _ = gen_params.collect(b)
        _cache[b] = vals
    return _cache[b]

# ---- mirror of toom8h_mul.c:96-145 (used only to AIM the generator at shapes; never to decide an answer)
def split(an, bn):
    LN, LD = 21, 20
    if an == bn or an * (LD >> 1) < LN * (bn >> 1):
        n = 1 + ((an - 1) >> 3); return n, 7, 7, an - 7 * n, bn - 7 * n, 0, None
    if an * 13 < 16 * bn: p, q = 9, 8
    elif an * (LD >> 1) < (LN // 7 * 9) * (bn >> 1): p, q = 9, 7
    elif an * 10 < 33 * (bn >> 1): p, q = 10, 7
    elif an * (LD // 5) < (LN // 3) * bn: p, q = 10, 6
    elif an * 6 < 13 * bn: p, q = 11, 6
    elif an * 4 < 9 * bn: p, q = 11, 5
    elif an * (LN // 3) < LD * bn: p, q = 12, 5
    elif an * 9 < 28 * bn: p, q = 12, 4
    else: p, q = 13, 4
    half = (p + q) & 1
    n = 1 + ((an - 1) // p if q * an >= p * bn else (bn - 1) // q)
    p -= 1; q -= 1
    s = an - p * n; t = bn - q * n; fix = None
    if half:
        if s < 1: p -= 1; s += n; half = 0; fix = "s"
        elif t < 1: q -= 1; t += n; half = 0; fix = "t"
    return n, p, q, s, t, half, fix

PALETTE = ["zero", "one", "ones", "onesj", "top", "rand", "small"]
def block(rng, n, kind):
    """value of an n-limb block"""
    Bn = 1 << (64 * n)
    if kind == "zero": return 0
    if kind == "one": return 1
    if kind == "ones": return Bn - 1
    if kind == "onesj": return (Bn - 1) >> rng.choice([1, 2, 3, 4, 6, 7, 9, 12, 42])
    if kind == "top": return Bn >> 1
    if kind == "small": return rng.randrange(1, 1 << 20)
    return rng.randrange(Bn)
def blocks_val(bl, n):
    v = 0
    for i, x in enumerate(bl): v += x << (64 * n * i)
    return v
def palette_operand(rng, k, n, hn, kinds=None):
    """k blocks of n limbs and a top block of hn limbs"""
    kinds = kinds or [rng.choice(PALETTE) for _ in range(k + 1)]
    bl = [block(rng, n, kinds[i]) for i in range(k)] + [block(rng, hn, kinds[k])]
    if bl[k] == 0 and rng.random() < 0.7: bl[k] = 1
    return bl
def vanishing(rng, k, n, hn, what):
    """block lists whose value at a negative point is zero (or nearly)"""
    Bn = 1 << (64 * n); Bh = 1 << (64 * hn)
    bl = [0] * (k + 1)
    if what == "m1":          # even sum == odd sum
        x = rng.randrange(Bn); bl[0] = x; bl[1] = x
        if k >= 3 and rng.random() < 0.5: y = rng.randrange(Bn); bl[2] = y; bl[3] = y
    elif what == "m2":        # a0 = 2 a1 (+ a2 = 2 a3)
        x = rng.randrange(Bn >> 1); bl[0] = 2 * x; bl[1] = x
        if k >= 3 and rng.random() < 0.5: y = rng.randrange(Bn >> 1); bl[2] = 2 * y; bl[3] = y
    elif what == "m4":
        x = rng.randrange(Bn >> 2); bl[0] = 4 * x; bl[1] = x
    elif what == "m8":
        x = rng.randrange(Bn >> 3); bl[0] = 8 * x; bl[1] = x
    elif what == "mhalf":     # 2^k x(-1/2) = 0: a_k = 2 a_{k-1}
        x = rng.randrange(max(1, min(Bn, Bh) >> 1)); bl[k - 1] = x; bl[k] = 2 * x
    elif what == "mquarter":
        x = rng.randrange(max(1, min(Bn, Bh) >> 2)); bl[k - 1] = x; bl[k] = 4 * x
    elif what == "meighth":
        x = rng.randrange(max(1, min(Bn, Bh) >> 3)); bl[k - 1] = x; bl[k] = 8 * x
    elif what == "neg":       # odd part dominates everywhere
        for i in range(1, k + 1, 2): bl[i] = (Bn if i < k else Bh) - 1
    elif what == "pos":
        for i in range(0, k + 1, 2): bl[i] = (Bn if i < k else Bh) - 1
    if bl[k] == 0 and rng.random() < 0.3: bl[k] = 1
    return bl
VANISH = ["m1", "m2", "m4", "m8", "mhalf", "mquarter", "meighth", "neg", "pos"]

def evenodd(bl, w):
    e = sum(x * w(i) for i, x in enumerate(bl) if i % 2 == 0); o = sum(x * w(i) for i, x in enumerate(bl) if i % 2 == 1)
    return e, o
def coupled_values(A, Bb, n, half):
    """what the seven calls of toom_couple_handling leave for the block lists A, Bb, plus r8, r0 — computed from the COEFFICIENTS of the
    product polynomial (not by mirroring the C), so that toom_interp16 / toom_couple get realistic, valid inputs"""
    W = 1 << (64 * n)
    c = [0] * 16
    for i, x in enumerate(A):
        for j, y in enumerate(Bb): c[i + j] += x * y
    g = [c[2 * j + 1] + W * c[2 * j + 2] for j in range(7)]
    P = lambda u, rev: sum(g[j] * (u ** (6 - j) if rev else u ** j) for j in range(7))
    c0, c15 = c[0], c[15]
    r = {8: c0, 0: c15}
    r[4] = P(1, 0) + c15 + W * c0
    r[3] = P(4, 0) + c15 * 4 ** 7 + W * (c0 >> 2); r[2] = P(16, 0) + c15 * 16 ** 7 + W * (c0 >> 4); r[1] = P(64, 0) + c15 * 64 ** 7 + W * (c0 >> 6)
    r[6] = P(4, 1) + (c15 >> 2) + W * c0 * 4 ** 7; r[5] = P(16, 1) + (c15 >> 4) + W * c0 * 16 ** 7; r[7] = P(64, 1) + (c15 >> 6) + W * c0 * 64 ** 7
    return r, c

def gen_ops(rng, tier, ctx=None):
    T = _thresholds(ctx)
    quick = tier != "thorough"
    T8 = T["MUL_TOOM8H_THRESHOLD"]; S8 = T["SQR_TOOM8_THRESHOLD"]; big = lambda x: x >= T["MP_SIZE_T_MAX"] or x <= 0
    budget = [900_000 if quick else 6_000_000]
    def spend(k):
        if budget[0] < k: return False
        budget[0] -= k; return True

    # ---- 1. helpers, every degree, small blocks
    for k in range(3, 13):
        for n in ((1, 2) if quick else (1, 2, 3, 4)):
            for hn in sorted(set([1, n])):
                cases = [palette_operand(rng, k, n, hn) for _ in range(2 if quick else 6)]
                cases += [vanishing(rng, k, n, hn, w) for w in (rng.sample(VANISH, 4) if quick else VANISH)]
                cases.append(palette_operand(rng, k, n, hn, ["ones"] * (k + 1)))
                for bl in cases:
                    x = vec(limbs_of(blocks_val(bl, n), k * n + hn))
                    if k > 3: yield "toom_eval_pm1 %x %x %s" % (k, n, x)
                    else: yield "toom_eval_dgr3_pm1 %x %s" % (n, x)
                    yield "toom_eval_pm2 %x %x %s" % (k, n, x)
                    for sh in (1, 2, 3):
                        yield "toom_eval_pm2exp %x %x %x %s" % (k, n, sh, x)
                        yield "toom_eval_pm2rexp %x %x %x %s" % (k, n, sh, x)
    # wide shifts of the rexp/exp helpers (s*q < 64) and pm1 at larger degree
    for k, sh in ((20, 3), (15, 4), (31, 2), (62, 1), (9, 7)):
        bl = palette_operand(rng, k, 1, 1, ["ones"] * (k + 1)); x = vec(limbs_of(blocks_val(bl, 1), k + 1))
        yield "toom_eval_pm2exp %x 1 %x %s" % (k, sh, x); yield "toom_eval_pm2rexp %x 1 %x %s" % (k, sh, x)
        yield "toom_eval_pm1 %x 1 %s" % (k, x); yield "toom_eval_pm2 %x 1 %s" % (k, x)

    # ---- 2. couple handling and interpolation on the values of real block polynomials
    shapes = [(7, 7, 0), (8, 7, 1), (8, 6, 0), (9, 6, 1), (9, 5, 0), (10, 5, 1), (10, 4, 0), (11, 4, 1), (11, 3, 0), (12, 3, 1)]
    for (p, q, half) in shapes:
        for n in ((1, 2, 3) if quick else (1, 2, 3, 5, 8)):
            for rep in range(3 if quick else 8):
                s = rng.randrange(1, n + 1); t = rng.randrange(1, n + 1)
                if rep == 0: s, t = n, n
                if rep == 1: s, t = 1, (1 if half else min(n, 3))
                if not half and s + t <= 3:
                    if n < 2: continue
                    s = t = 2
                mode = rng.choice(["palette", "palette", "ones", "vanish"])
                if mode == "ones": A = palette_operand(rng, p, n, s, ["ones"] * (p + 1)); Bb = palette_operand(rng, q, n, t, ["ones"] * (q + 1))
                elif mode == "vanish": A = vanishing(rng, p, n, s, rng.choice(VANISH)); Bb = palette_operand(rng, q, n, t)
                else: A = palette_operand(rng, p, n, s); Bb = palette_operand(rng, q, n, t)
                r, c = coupled_values(A, Bb, n, half)
                spt = s + t; n3p1 = 3 * n + 1; W = 1 << (64 * n)
                pn = (15 if half else 14) * n + spt
                pp = r[8] + (r[6] << (64 * 3 * n)) + (r[4] << (64 * 7 * n)) + (r[2] << (64 * 11 * n))
                # the gaps pp[2n..3n), pp[6n+1..7n), pp[10n+1..11n), pp[14n+1..15n) are written before they are read: fill with noise
                for (lo, hi) in ((2 * n, 3 * n), (6 * n + 1, 7 * n), (10 * n + 1, 11 * n)) + (((14 * n + 1, 15 * n),) if half else ()):
                    for i in range(lo, hi): pp += rng.randrange(1 << 64) << (64 * i)
                if half: pp += r[0] << (64 * 15 * n)
                else:
                    for i in range(14 * n + 1, pn): pp += rng.randrange(1 << 64) << (64 * i)
                yield "toom_interp16 %x %x %x %s %s %s %s %s" % (n, spt, half, vec(limbs_of(pp, pn)), vec(limbs_of(r[1], n3p1)), vec(limbs_of(r[3], n3p1)),
                                                                 vec(limbs_of(r[5], n3p1)), vec(limbs_of(r[7], n3p1)))
                # couple handling on f(x), |f(-x)| of the same polynomial at the seven couples of points
                D = p + q
                for (xv, yv, ps, ns) in ((1, 8, 3 * (1 + half), 3 * half), (1, 4, 2 * (1 + half), 2 * half), (2, 1, 1, 2), (8, 1, 3, 6),
                                         (1, 2, 1 + half, half), (1, 1, 0, 0), (4, 1, 2, 4)):
                    fp = sum(c[i] * xv ** i * yv ** (D - i) for i in range(D + 1)); fm = sum(c[i] * (-xv) ** i * yv ** (D - i) for i in range(D + 1))
                    if fp >= 1 << (64 * (2 * n + 1)): continue
                    yield "toom_couple %s %s %x %x %x %x" % (vec(limbs_of(fp, 2 * n + 1)), vec(limbs_of(abs(fm), 2 * n + 1)), 1 if fm < 0 else 0, n, ps, ns)
                    if fm == 0: yield "toom_couple %s %s 1 %x %x %x" % (vec(limbs_of(fp, 2 * n + 1)), vec(limbs_of(0, 2 * n + 1)), n, ps, ns)

    # ---- 3. mpn_toom8h_mul: every shape at its smallest sizes, the repairs, the ratio boundaries
    sizes = {}
    for bn in range(86, 86 + (60 if quick else 260)):
        for an in range(bn, bn * 13 // 4 + 1):
            n, p, q, s, t, half, fix = split(an, bn)
            key = (p, q, half, fix)
            if len(sizes.setdefault(key, [])) < (2 if quick else 6): sizes[key].append((an, bn))
            key2 = (p, q, half, fix, "edge", s == 1 or t == 1, s == n, t == n)
            if len(sizes.setdefault(key2, [])) < 1: sizes[key2].append((an, bn))
    todo = sorted(set(x for v in sizes.values() for x in v))
    def bounds(bn):          # an at +-1 of every comparison of the cascade
        out = set()
        for num, den in ((21, 20), (16, 13), (27, 20), (33, 20), (7, 4), (13, 6), (9, 4), (20, 7), (28, 9), (13, 4)):
            a0 = bn * num // den
            for d in (-1, 0, 1): out.add(a0 + d)
        return sorted(a for a in out if a >= bn and 4 * a <= 13 * bn)
    for bn in ((86, 87, 100) if quick else (86, 87, 88, 100, 101, 127, 128)):
        todo += [(an, bn) for an in bounds(bn)]
    if not big(T8):
        for d in (-1, 0, 1): todo.append((T8 + d, T8 + d)); todo.append(((T8 + d) * 3 // 2, T8 + d))
    def toom8h_operands(an, bn, mode):
        n, p, q, s, t, half, fix = split(an, bn)
        if mode == "palette": A = palette_operand(rng, p, n, s); Bb = palette_operand(rng, q, n, t)
        elif mode == "ones": A = [(1 << (64 * n)) - 1] * p + [(1 << (64 * s)) - 1]; Bb = [(1 << (64 * n)) - 1] * q + [(1 << (64 * t)) - 1]
        elif mode == "vanish": A = vanishing(rng, p, n, s, rng.choice(VANISH)); Bb = vanishing(rng, q, n, t, rng.choice(VANISH))
        elif mode == "vanishA": A = vanishing(rng, p, n, s, rng.choice(VANISH)); Bb = palette_operand(rng, q, n, t, ["ones"] * (q + 1))
        else: return rand_limbs(rng, an, "uniform"), rand_limbs(rng, bn, "uniform")
        return limbs_of(blocks_val(A, n), an), limbs_of(blocks_val(Bb, n), bn)
    seen = set()
    for (an, bn) in todo:
        if (an, bn) in seen: continue
        seen.add((an, bn))
        for mode in (("palette", "ones", "vanish") if quick else ("palette", "palette", "ones", "vanish", "vanishA", "uniform")):
            if not spend(an + bn): break
            u, v = toom8h_operands(an, bn, mode)
            yield "mpn_toom8h_mul %s %s" % (vec(u), vec(v))
    # one size whose pointwise products recurse into mpn_toom8h_mul itself (n + 1 >= MUL_TOOM8H_THRESHOLD)
    if not big(T8) and 8 * T8 <= (4000 if quick else 20000):
        for an, bn in ((8 * T8 + 3, 8 * T8 + 3), (8 * T8 + 40, 7 * T8)) if not quick else ((8 * T8 + 3, 8 * T8 + 3),):
            if spend(an + bn):
                u, v = toom8h_operands(an, bn, "palette"); yield "mpn_toom8h_mul %s %s" % (vec(u), vec(v))

    # ---- 4. mpn_toom8_sqr_n: every residue of an mod 8 from the minimum, palette blocks, around SQR_TOOM8_THRESHOLD
    m8 = T["MPN_TOOM8_SQR_N_MINSIZE"]
    sq = list(range(m8, m8 + (24 if quick else 120)))
    if not big(S8): sq += [S8 - 1, S8, S8 + 1]
    if not big(S8) and not quick and 8 * S8 <= 20000: sq.append(8 * S8 + 5)
    for an in sq:
        if an < m8: continue
        n = 1 + ((an - 1) >> 3); s = an - 7 * n
        for mode in ("palette", "ones", "vanish"):
            if not spend(an): break
            if mode == "palette": A = palette_operand(rng, 7, n, s)
            elif mode == "ones": A = [(1 << (64 * n)) - 1] * 7 + [(1 << (64 * s)) - 1]
            else: A = vanishing(rng, 7, n, s, rng.choice(VANISH))
            yield "mpn_toom8_sqr_n %s" % vec(limbs_of(blocks_val(A, n), an))

def nontrivial(line):
    return line if "," in line else None
