"""C06 part (integrator): digit strings above SET_STR_PRECOMPUTE_THRESHOLD whose high half at some level of the
divide-and-conquer split is all zero digits (the `hn == 0` branch of mpn_dc_set_str clears the result area, including the
`shift` low zero limbs stripped from the stored power — only even, non-power-of-two bases have shift > 0), and operands whose
base-b expansion has long zero runs in the low part (zero padding in mpn_dc_get_str)."""
from props import c06_radix as base
from genlib import *
DIG = "0123456789abcdefghijklmnopqrstuvwxyz"
def gen_ops(rng, tier, ctx=None):
    thr = base.thresholds(ctx)
    T = thr["SET_STR_PRECOMPUTE_THRESHOLD"]
    bases = [10, 6, 12, 14, 18, 20, 22, 24, 36, 3, 7, 15] if tier == "quick" else [b for b in range(3, 37) if b & (b - 1)]
    for b in bases:
        for n in sorted({T, T + 1, T + 27, 2 * T + 3, 3 * T + 5} if tier == "quick" else {T, T + 1, T + 27, 2 * T + 3, 3 * T + 5, 5 * T + 1}):
            lead = DIG[rng.randrange(1, b)]
            tails = [DIG[rng.randrange(b)] + DIG[rng.randrange(b)] + DIG[rng.randrange(1, b)], DIG[1], "".join(DIG[rng.randrange(b)] for _ in range(40))]
            for tail in tails[: (2 if tier == "quick" else 3)]:
                yield "mpz_set_str %s %s" % (hx(b), sbytes(lead + "0" * (n - 1 - len(tail)) + tail))          # 9000...000175
            # zero run covering the high part of the LOW half of the first split, and a run in the middle
            half = n // 2
            s = [DIG[rng.randrange(b)] for _ in range(n)]; s[0] = lead
            for i in range(half - 5, half + rng.randrange(half // 3, half // 2)): s[i] = "0"
            yield "mpz_set_str %s %s" % (hx(b), sbytes("".join(s)))
            s = [DIG[rng.randrange(b)] for _ in range(n)]; s[0] = lead
            for i in range(1, n - rng.randrange(3, n // 4)): s[i] = "0"
            yield "mpz_set_str %s %s" % (hx(b), sbytes("-" + "".join(s)))
    # get_str side: values b^k * m with long runs of zero digits at the bottom, above GET_STR_PRECOMPUTE_THRESHOLD limbs
    G = thr["GET_STR_PRECOMPUTE_THRESHOLD"]
    for b in (10, 6, 12, 7, 36, 62):
        for limbs in (G + 1, 2 * G + 1):
            import math
            k = int(limbs * 64 / math.log2(b)) - 30
            yield "mpz_get_str %s %s" % (hx(b), hx(b ** k * (rng.getrandbits(100) | 1)))
            yield "mpz_get_str %s %s" % (hx(b), hx(b ** k + 1))
