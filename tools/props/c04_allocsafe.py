"""C04 part allocsafe: object-layer memory safety as theorems.  Size-aware models (lean/Mpir/Model/AllocSafe.lean: blocks with
their allocated length, every load/store checked, pointers that dangle after _mpz_realloc; AllocSafeMpz.lean: the allocation
logic + write pattern of the public mpz functions) with `<fn>_alloc_safe` theorems for all heaps, allocations and alias
patterns; ops `as_*` (harness/ops_allocsafe.c) run the real function on objects of the GIVEN allocations and compare
ALLOC(w), SIZ(w) and the value with the model's run."""
from genlib import *

LEAN_MODULES = ["MpirProofs.Props.C04_allocsafe"]
THEOREMS = ["Mpir.AllocSafe.mpz_add_alloc_safe", "Mpir.AllocSafe.mpz_sub_alloc_safe"]
TRUSTED = ["hand-written size-aware models lean/Mpir/Model/AllocSafe.lean + AllocSafeMpz.lean (memory = variable id -> block with its allocated length and a "
           "generation counter; kernels = list functions applied to checked index ranges, all reads before the stores), tied by exact comparison of "
           "ALLOC(w), SIZ(w), value for every alias mode and destination allocation, and by source pins"]
ASSUMPTIONS = ["alloc_safe theorems speak about limb accesses at the object layer (the mpz function's own loads/stores and the index ranges it hands to mpn kernels); "
               "what a kernel does inside its range, and in which order it touches overlapping operands, is C03 (kernels, overlap model)",
               "_mp_alloc/_mp_size are unbounded integers in the model (objects of 2^31 limbs are out of reach)"]
RULE = ("allocsafe: every mirrored function in every alias mode, destination allocation from 1 (must grow) over exactly-enough-minus-one / exactly-enough to generous, "
        "sources with exact and with slack allocation, operands at limb boundaries (all-ones, B^k, B^k - 2^m) so that the result-one-limb-longer and the "
        "result-shrinks cases occur")

PINS = [("mpz/realloc.c", None), ("gmp-impl.h", "MPZ_REALLOC"), ("mpz/aors.h", None)]

def nl(x): return (abs(x).bit_length() + 63) // 64

def special(rng, k=None):
    """integers at limb boundaries"""
    k = k if k is not None else rng.randrange(1, 5)
    m = rng.randrange(0, 64 * k)
    c = rng.randrange(12)
    v = [B ** k - 1, B ** k, B ** k - (1 << m), 1 << m, (1 << (64 * k - 1)), B ** k + 1, (B ** k - 1) ^ (1 << m), 0, 1,
         rng.getrandbits(64 * k), rng.getrandbits(64 * k) | (1 << (64 * k - 1)), B ** (k - 1)][c]
    return v * rng.choice([1, -1])

def obj(rng, v, need=None):
    """`alloc value` for v: exact, +1, generous; `need` = the size the result will want (to hit need-1 / need exactly)"""
    n = max(nl(v), 1)
    cands = [n, n, n + 1, n + rng.randrange(0, 4)]
    if need: cands += [max(n, need - 1), max(n, need), max(n, need + 1)]
    return "%x %s" % (rng.choice(cands), hx(v))

def wobj(rng, need):
    """destination: stale value of any size, allocation around `need`"""
    v = rng.choice([0, 0, special(rng), rng.getrandbits(64 * rng.randrange(1, 4)) * rng.choice([1, -1])])
    n = max(nl(v), 1)
    a = max(n, rng.choice([1, max(1, need - 1), need, need + 1, need + 3]))
    return "%x %s" % (a, hx(v))

def pair(rng):
    c = rng.random()
    if c < 0.5: k = rng.randrange(1, 5); return special(rng, k), special(rng, rng.choice([k, k, max(1, k - 1), k + 1]))
    if c < 0.6: u = special(rng); return u, -u
    if c < 0.7: u = special(rng); return u, u
    if c < 0.8: u = special(rng); return u, -u + rng.choice([1, -1, B, -B])
    return rand_int(rng, 6), rand_int(rng, 6)

def gen3(rng, name, need):
    u, v = pair(rng)
    m = rng.randrange(5)
    if m >= 3: v = u
    nd = need(u, v)
    return "%s %x %s %s %s" % (name, m, wobj(rng, nd), obj(rng, u, nd), obj(rng, v, nd))

def gen_ops(rng, tier, ctx=None):
    n = 150 if tier == "quick" else 3000
    for _ in range(n):
        yield gen3(rng, "as_add", lambda u, v: max(nl(u), nl(v)) + 1)
        yield gen3(rng, "as_sub", lambda u, v: max(nl(u), nl(v)) + 1)

def nontrivial(line):
    return line if line.startswith("as_") else None
