"""C04 part allocsafe: object-layer memory safety as theorems.  Size-aware models (lean/Mpir/Model/AllocSafe.lean: blocks with
their allocated length, every load/store checked, pointers that dangle after _mpz_realloc; AllocSafeMpz.lean: the allocation
logic + write pattern of the public mpz functions) with `<fn>_alloc_safe` theorems for all heaps, allocations and alias
patterns; ops `as_*` (harness/ops_allocsafe.c) run the real function on objects of the GIVEN allocations and compare
ALLOC(w), SIZ(w) and the value with the model's run."""
from genlib import *

LEAN_MODULES = ["MpirProofs.Props.C04_allocsafe"]
THEOREMS = ["Mpir.AllocSafe." + t for t in (
    "mpz_add_alloc_safe", "mpz_sub_alloc_safe", "mpz_add_ui_alloc_safe", "mpz_sub_ui_alloc_safe", "mpz_set_alloc_safe",
    "mpz_neg_alloc_safe", "mpz_abs_alloc_safe", "mpz_set_ui_alloc_safe", "mpz_set_si_alloc_safe", "mpz_mul_2exp_alloc_safe",
    "mpz_com_alloc_safe_partial", "mpz_tdiv_q_2exp_alloc_safe_partial",
    "write_eq_storeAll", "storeAll_bad", "MPZ_REALLOC_grown")]
TRUSTED = ["hand-written size-aware models lean/Mpir/Model/AllocSafe.lean + AllocSafeMpz.lean (memory = variable id -> block with its allocated length and a "
           "generation counter; kernels = list functions applied to checked index ranges, all reads before the stores), tied by exact comparison of "
           "ALLOC(w), SIZ(w), value for every alias mode and destination allocation, and by source pins"]
ASSUMPTIONS = ["alloc_safe theorems speak about limb accesses at the object layer (the mpz function's own loads/stores and the index ranges it hands to mpn kernels); "
               "what a kernel does inside its range, and in which order it touches overlapping operands, is C03 (kernels, overlap model)",
               "_mp_alloc/_mp_size are unbounded integers in the model (objects of 2^31 limbs are out of reach)"]
RULE = ("allocsafe: every mirrored function in every alias mode, destination allocation from 1 (must grow) over exactly-enough-minus-one / exactly-enough to generous, "
        "sources with exact and with slack allocation, operands at limb boundaries (all-ones, B^k, B^k - 2^m) so that the result-one-limb-longer and the "
        "result-shrinks cases occur")

PINS = [("mpz/realloc.c", None), ("gmp-impl.h", "MPZ_REALLOC"), ("mpz/aors.h", None), ("mpz/aors_ui.h", None), ("mpz/set.c", None),
        ("mpz/neg.c", None), ("mpz/abs.c", None), ("mpz/set_ui.c", None), ("mpz/set_si.c", None), ("mpz/mul_2exp.c", None),
        ("mpz/tdiv_q_2exp.c", None), ("mpz/com.c", None)]

def nl(x): return (abs(x).bit_length() + 63) // 64

def special(rng, k=None):
    """integers at limb boundaries"""
    k = k if k is not None else rng.randrange(1, 5)
    m = rng.randrange(0, 64 * k)
    c = rng.randrange(12)
    v = [B ** k - 1, B ** k, B ** k - (1 << m), 1 << m, (1 << (64 * k - 1)), B ** k + 1, (B ** k - 1) ^ (1 << m), 0, 1,
         rng.getrandbits(64 * k), rng.getrandbits(64 * k) | (1 << (64 * k - 1)), B ** (k - 1)][c]
    return v * rng.choice([1, -1])

def obj(rng, v, need=None):
    """`alloc value` for v: exact, +1, generous; `need` = the size the result will want (to hit need-1 / need exactly)"""
    n = max(nl(v), 1)
    cands = [n, n, n + 1, n + rng.randrange(0, 4)]
    if need: cands += [max(n, need - 1), max(n, need), max(n, need + 1)]
    return "%x %s" % (rng.choice(cands), hx(v))

def wobj(rng, need):
    """destination: stale value of any size, allocation around `need`"""
    v = rng.choice([0, 0, special(rng), rng.getrandbits(64 * rng.randrange(1, 4)) * rng.choice([1, -1])])
    n = max(nl(v), 1)
    a = max(n, rng.choice([1, max(1, need - 1), need, need + 1, need + 3]))
    return "%x %s" % (a, hx(v))

def pair(rng):
    c = rng.random()
    if c < 0.5: k = rng.randrange(1, 5); return special(rng, k), special(rng, rng.choice([k, k, max(1, k - 1), k + 1]))
    if c < 0.6: u = special(rng); return u, -u
    if c < 0.7: u = special(rng); return u, u
    if c < 0.8: u = special(rng); return u, -u + rng.choice([1, -1, B, -B])
    return rand_int(rng, 6), rand_int(rng, 6)

def gen3(rng, name, need):
    u, v = pair(rng)
    m = rng.randrange(5)
    if m >= 3: v = u
    nd = need(u, v)
    return "%s %x %s %s %s" % (name, m, wobj(rng, nd), obj(rng, u, nd), obj(rng, v, nd))

def gen2(rng, name, need):
    u = special(rng) if rng.random() < 0.8 else rand_int(rng, 6)
    nd = need(u)
    return "%s %x %s %s" % (name, rng.randrange(2), wobj(rng, nd), obj(rng, u, nd))

def genui(rng, name, need, ks):
    u = special(rng) if rng.random() < 0.8 else rand_int(rng, 6)
    k = ks(rng, u)
    nd = need(u, k)
    return "%s %x %s %s %x" % (name, rng.randrange(2), wobj(rng, nd), obj(rng, u, nd), k)

def limb_k(rng, u):
    lo = abs(u) & M
    return rng.choice([0, 1, 2, M, 1 << 63, lo, (lo + 1) & M, (B - lo) & M, (lo - 1) & M, rng.getrandbits(64)])

def shift_k(rng, u):
    n = nl(u)
    return rng.choice([0, 1, 63, 64, 65, 127, 128, max(64 * n - 1, 0), 64 * n, 64 * n + 1, 64 * max(n - 1, 0), 64 * max(n - 1, 0) + 1,
                       rng.randrange(0, 64 * (n + 2)), max(abs(u).bit_length() - 1, 0), abs(u).bit_length(), rng.randrange(0, 64)])

def gen_ops(rng, tier, ctx=None):
    n = 150 if tier == "quick" else 3000
    for _ in range(n):
        yield gen3(rng, "as_add", lambda u, v: max(nl(u), nl(v)) + 1)
        yield gen3(rng, "as_sub", lambda u, v: max(nl(u), nl(v)) + 1)
        yield genui(rng, "as_add_ui", lambda u, k: nl(u) + 1, limb_k)
        yield genui(rng, "as_sub_ui", lambda u, k: nl(u) + 1, limb_k)
        yield gen2(rng, "as_set", nl)
        yield gen2(rng, "as_neg", nl)
        yield gen2(rng, "as_abs", nl)
        yield gen2(rng, "as_com", lambda u: nl(u) + 1)
        yield genui(rng, "as_mul_2exp", lambda u, k: nl(u) + k // 64 + 1, shift_k)
        yield genui(rng, "as_tdiv_q_2exp", lambda u, k: max(nl(u) - k // 64, 1), shift_k)
        v = rng.choice([0, 1, M, 1 << 63, rng.getrandbits(64)])
        yield "as_set_ui %s %x" % (wobj(rng, 1), v)
        sv = rng.choice([0, 1, -1, (1 << 63) - 1, -(1 << 63), rng.getrandbits(63), -rng.getrandbits(63)])
        yield "as_set_si %s %s" % (wobj(rng, 1), hx(sv))

def nontrivial(line):
    return line if line.startswith("as_") else None
