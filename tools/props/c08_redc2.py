"""C08 part: mpn_redc_2 at the limb level (built, not selected by mpn_powm in this configuration).  Merged into c08.py."""
from genlib import *
import props.c08_powm as P

LEAN_MODULES = ["MpirProofs.Props.C08_redc2"]
THEOREMS = ["Mpir.Powm.redc_2_spec"]
TRUSTED = ["hand-written model Powm.redc_2 (lean/Mpir/Model/Powm.lean) of mpn/generic/redc_2.c, tied by the exact op mpn_redc_2"]
ASSUMPTIONS = ["mpn_addmul_2 is the generic pair of mpn_addmul_1 calls of redc_2.c (no native addmul_2 in this build); "
               "mpn_addmul_1 / mpn_add_n / mpn_sub_n are the kernel models (C02)"]
RULE = ("mpn_redc_2: n odd and even from 1 to 20, inputs B^(2n) - 1, (m-1)*B^n + B^n - 1, x*B^n, multiples of m, moduli B^n - 1 "
        "and with a zero second limb; the exact inverse -1/m mod B^2")
PINS = [("mpn/generic/redc_2.c", None)]
B = 1 << 64

def gen_ops(rng, tier, ctx=None):
    for n in range(1, 13 if tier == "quick" else 25):
        Bn = 1 << (64 * n)
        mods = [P.odd_n(rng, n), Bn - 1, (Bn >> 1) | 1]
        if n >= 2: mods.append((P.odd_n(rng, n) & ~(((1 << 64) - 1) << 64)) | (1 << (64 * n - 1)))      # second limb zero
        for m in mods:
            if m % 2 == 0 or m >= Bn: continue
            inv2 = (-pow(m, -1, 1 << 128)) % (1 << 128)
            for u in (Bn * Bn - 1, (m - 1) * Bn + Bn - 1, rng.randrange(Bn) * Bn, m * rng.randrange(Bn), rng.randrange(Bn), 0,
                      rng.randrange(Bn * Bn)):
                yield "mpn_redc_2 %s %s %s" % (vec(limbs_of(u, 2 * n)), vec(limbs_of(m, n)), vec(limbs_of(inv2, 2)))
