#!/usr/bin/env python3
"""Translator for property C09: source tables -> lean/Mpir/Gen/SqrtTabs.lean.

Extracted from the scratch copy of the working tree (`ctx.build`):
  * mpn/generic/sqrtrem.c        `approx_tab[]` (seed table of mpn_sqrtrem1) and the index offset `q - 64`
  * mpn/generic/perfect_square_p.c after `gcc -E` (so the PERFSQR_* macros of gmp-impl.h are expanded the
    way the compiler sees them): the mod-256 probe, `sq_res_0x100[]`, the mod_34lsub1 folding width,
    PERFSQR_MOD_BITS and the sequence of PERFSQR_MOD_1 / PERFSQR_MOD_2 tests (divisor, inverse, masks)
  * mpz/perfpow.c                `primes[]` and SMALLEST_OMITTED_PRIME
  * gmp-impl.h / gmp-mparam.h    ROOTREM_THRESHOLD (through `gcc -E`)
Anything that does not match the expected shape raises (the check then reports a broken translation)."""
import os, re, sys, subprocess
sys.path.insert(0, os.path.dirname(os.path.abspath(__file__)))
import vlib

OUT = os.path.join(vlib.LEAN, "Mpir", "Gen", "SqrtTabs.lean")

class Untranslatable(Exception): pass

def _cpp(build, rel=None, text=None):
    cmd = ["gcc", "-E", "-P", "-I" + build, "-I" + os.path.join(build, "mpn"), "-DHAVE_CONFIG_H", "-D__GMP_WITHIN_GMP"]
    if rel: cmd.append(os.path.join(build, rel))
    else: cmd += ["-x", "c", "-"]
    p = subprocess.run(cmd, input=(text.encode() if text else None), stdout=subprocess.PIPE, stderr=subprocess.PIPE, cwd=build)
    if p.returncode != 0:
        raise Untranslatable("gcc -E failed on %s: %s" % (rel or "<stdin>", p.stderr.decode()[-500:]))
    return p.stdout.decode()

def _int(s):
    s = s.strip()
    m = re.fullmatch(r"(0[xX][0-9a-fA-F]+|[0-9]+)[uUlL]*", s)
    if not m: raise Untranslatable("not an integer literal: %r" % s)
    return int(m.group(1), 0)

def _body(src, name):
    """text of the brace-balanced body of function `name` in preprocessed source"""
    m = re.search(r"^%s\s*\([^)]*\)\s*\{" % re.escape(name), src, re.M)
    if not m: raise Untranslatable("function %s not found" % name)
    i = m.end(); depth = 1
    while depth and i < len(src):
        depth += {"{": 1, "}": -1}.get(src[i], 0); i += 1
    if depth: raise Untranslatable("unbalanced braces in %s" % name)
    return src[m.end():i - 1]

def parse_approx_tab(build):
    s = open(os.path.join(build, "mpn/generic/sqrtrem.c")).read()
    s = re.sub(r"/\*.*?\*/", "", s, flags=re.S)
    m = re.search(r"static\s+const\s+unsigned\s+char\s+approx_tab\s*\[\s*(\d+)\s*\]\s*=\s*\{([^}]*)\}", s)
    if not m: raise Untranslatable("approx_tab not found in sqrtrem.c")
    n = int(m.group(1)); tab = [_int(x) for x in m.group(2).split(",") if x.strip()]
    if len(tab) != n: raise Untranslatable("approx_tab: %d entries, declared %d" % (len(tab), n))
    m = re.search(r"s\s*=\s*approx_tab\s*\[\s*q\s*-\s*(\d+)\s*\]", s)
    if not m: raise Untranslatable("approx_tab index expression changed")
    base = int(m.group(1))
    if any(not (0 <= x < 256) for x in tab): raise Untranslatable("approx_tab entry out of unsigned char range")
    return tab, base

def parse_perfsqr(build):
    src = _cpp(build, "mpn/generic/perfect_square_p.c")
    m = re.search(r"sq_res_0x100\s*\[\s*(\d+)\s*\]\s*=\s*\{([^}]*)\}", src)
    if not m: raise Untranslatable("sq_res_0x100 not found")
    clean = lambda t: re.sub(r"\(\s*mp_limb_t\s*\)", "", t).replace("(", "").replace(")", "")
    sq = [_int(clean(x)) for x in m.group(2).split(",") if x.strip()]
    if len(sq) != int(m.group(1)): raise Untranslatable("sq_res_0x100 length mismatch")
    body = _body(src, "__gmpn_perfect_square_p")
    b = re.sub(r"do\s*\{\s*\}\s*while\s*\(\s*0\s*\)\s*;", "", body)        # disabled ASSERTs
    b = re.sub(r"\(\s*mp_limb_t\s*\)\s*", "", b)                            # casts
    b = re.sub(r"\b(0[xX][0-9a-fA-F]+|[0-9]+)[uUlL]+\b", r"\1", b)          # literal suffixes
    b = re.sub(r"\s+", "", b)
    for _ in range(8):
        b2 = re.sub(r"(?<![A-Za-z0-9_])\((0[xX][0-9a-fA-F]+|[0-9]+)\)", r"\1", b)           # (literal) -> literal
        if b2 == b: break
        b = b2
    b = b.replace(";;", ";")
    # 1. the mod-256 probe
    m = re.match(r"\{?;*\{unsignedidx=up\[0\]%(0x100|256);if\(\(\(sq_res_0x100\[idx/(\d+)\]>>\(idx%(\d+)\)\)&1\)==0\)return0;\}", b)
    if not m: raise Untranslatable("mod-256 probe of mpn_perfect_square_p changed shape: %s" % b[:200])
    lb = int(m.group(2))
    if lb != 64 or int(m.group(3)) != 64: raise Untranslatable("limb size is not 64")
    if len(sq) * lb != 256: raise Untranslatable("sq_res_0x100 does not cover 256 residues")
    rest = b[m.end():]
    # 2. PERFSQR_MOD_34
    m = re.match(r"do\{mp_limb_tr;do\{\(r\)=__gmpn_mod_34lsub1\(up,usize\);\(r\)=\(\(r\)&\(\(1<<\(([^;]*?)\)\)-1\)\)\+\(\(r\)>>\(([^;]*?)\)\);\}while\(0\);", rest)
    if not m: raise Untranslatable("PERFSQR_MOD_34 changed shape (PERFSQR_MOD_PP variant is not modelled): %s" % rest[:200])
    def ev(e):
        if not re.fullmatch(r"[0-9x\-+*/()a-fA-F]+", e): raise Untranslatable("bad constant expression %r" % e)
        return int(eval(e.replace("/", "//")))
    m34 = ev(m.group(1))
    if ev(m.group(2)) != m34: raise Untranslatable("MOD34_BITS used inconsistently")
    rest = rest[m.end():]
    # 3. the tests
    idx_re = r"do\{mp_limb_tq;q=\(\(r\)\*([0-9a-fx]+)\)&\(\(1<<(\d+)\)-1\);\(idx\)=\(q\*([0-9a-fx]+)\)>>(\d+);\}while\(0\);"
    t2 = re.compile(r"do\{mp_limb_tm;unsignedidx;" + idx_re + r"m=\(\(int\)idx-64<0\?([0-9a-fx]+):([0-9a-fx]+)\);idx%=64;if\(\(\(m>>idx\)&1\)==0\)\{;?return0;\}\}while\(0\);")
    t1 = re.compile(r"do\{unsignedidx;" + idx_re + r"if\(\(\(([0-9a-fx]+)>>idx\)&1\)==0\)\{;?return0;\}\}while\(0\);")
    tests = []; bits = None
    while True:
        m = t2.match(rest); two = True
        if not m: m = t1.match(rest); two = False
        if not m: break
        inv, b1, d, b2_ = _int(m.group(1)), int(m.group(2)), _int(m.group(3)), int(m.group(4))
        if b1 != b2_ or (bits is not None and bits != b1): raise Untranslatable("PERFSQR_MOD_BITS used inconsistently")
        bits = b1
        if two: mlo, mhi = _int(m.group(5)), _int(m.group(6))
        else: mlo, mhi = _int(m.group(5)), 0
        tests.append((d, inv, mhi, mlo, two))
        rest = rest[m.end():]
    if not tests: raise Untranslatable("no PERFSQR_MOD_1/2 test recognised: %s" % rest[:200])
    m = re.match(r"\}while\(0\);", rest)
    if not m: raise Untranslatable("unrecognised statement inside PERFSQR_MOD_TEST: %s" % rest[:200])
    rest = rest[m.end():]
    # 4. the final square root: res = ! mpn_sqrtrem (root_ptr, NULL, up, usize)
    if not re.search(r"res=!__gmpn_sqrtrem\(root_ptr,\(\(void\*\)0\),up,usize\);", rest) or not rest.rstrip("}").endswith("returnres;"):
        raise Untranslatable("final sqrtrem step of mpn_perfect_square_p changed: %s" % rest[:300])
    return sq, m34, bits, tests

def parse_perfpow(build):
    s = open(os.path.join(build, "mpz/perfpow.c")).read()
    s = re.sub(r"/\*.*?\*/", "", s, flags=re.S)
    m = re.search(r"static\s+const\s+unsigned\s+short\s+primes\s*\[\s*\]\s*=\s*\{([^}]*)\}", s)
    if not m: raise Untranslatable("primes[] not found in perfpow.c")
    pr = [_int(x) for x in m.group(1).split(",") if x.strip()]
    if not pr or pr[-1] != 0 or 0 in pr[:-1]: raise Untranslatable("primes[] is not 0-terminated")
    m = re.search(r"#define\s+SMALLEST_OMITTED_PRIME\s+(\d+)", s)
    if not m: raise Untranslatable("SMALLEST_OMITTED_PRIME not found")
    return pr[:-1], int(m.group(1))

def parse_threshold(build):
    out = _cpp(build, text='#include "mpir.h"\n#include "gmp-impl.h"\nVERIF_MARK ROOTREM_THRESHOLD\n')
    m = re.search(r"VERIF_MARK\s+(.*)", out)
    if not m: raise Untranslatable("ROOTREM_THRESHOLD marker lost")
    return _int(m.group(1))

def render(build):
    tab, base = parse_approx_tab(build)
    sq, m34, bits, tests = parse_perfsqr(build)
    primes, omitted = parse_perfpow(build)
    thr = parse_threshold(build)
    def lst(xs, per=16, hexa=False):
        f = (lambda x: "0x%x" % x) if hexa else str
        rows = [", ".join(f(x) for x in xs[i:i + per]) for i in range(0, len(xs), per)]
        return "[" + ",\n   ".join(rows) + "]"
    o = []
    o.append("-- GENERATED by tools/gen_sqrt_tabs.py from the working tree (mpn/generic/sqrtrem.c,")
    o.append("-- mpn/generic/perfect_square_p.c + gmp-impl.h after gcc -E, mpz/perfpow.c, gmp-mparam.h) — do not edit.")
    o.append("namespace Mpir.Gen.SqrtTabs\n")
    o.append("/-- `approx_tab[%d]` of sqrtrem.c: seed of mpn_sqrtrem1, indexed by `q - approxTabBase`. -/" % len(tab))
    o.append("def approxTab : List Nat :=\n  %s\n" % lst(tab))
    o.append("def approxTabBase : Nat := %d\n" % base)
    o.append("/-- `sq_res_0x100[]`: bit r of the concatenation is set iff r is a square mod 256. -/")
    o.append("def sqRes0x100 : List Nat :=\n  %s\n" % lst(sq, 2, True))
    o.append("/-- MOD34_BITS: mod_34lsub1's result is folded to `(r &&& (2^k-1)) + (r >>> k)`. -/")
    o.append("def mod34Bits : Nat := %d\n" % m34)
    o.append("def perfsqrModBits : Nat := %d\n" % bits)
    o.append("/-- One PERFSQR_MOD_1 (`two = false`, mask in `mlo`) or PERFSQR_MOD_2 test, in source order. -/")
    o.append("structure ModTest where\n  d : Nat\n  inv : Nat\n  mhi : Nat\n  mlo : Nat\n  two : Bool\n  deriving Repr, DecidableEq\n")
    o.append("def perfsqrTests : List ModTest :=\n  [" + ",\n   ".join(
        "{ d := %d, inv := 0x%x, mhi := 0x%x, mlo := 0x%x, two := %s }" % (d, inv, mhi, mlo, "true" if two else "false")
        for d, inv, mhi, mlo, two in tests) + "]\n")
    o.append("/-- `primes[]` of mpz/perfpow.c (without the terminating 0). -/")
    o.append("def perfpowPrimes : List Nat :=\n  %s\n" % lst(primes))
    o.append("def smallestOmittedPrime : Nat := %d\n" % omitted)
    o.append("def rootremThreshold : Nat := %d\n" % thr)
    o.append("end Mpir.Gen.SqrtTabs")
    return "\n".join(o) + "\n"

def gen_sqrt_tabs(ctx):
    text = render(ctx.build)
    return [os.path.relpath(OUT, vlib.VERIF)] if vlib.write_if_changed(OUT, text) else []

if __name__ == "__main__":
    class C: pass
    c = C(); c.build = sys.argv[1] if len(sys.argv) > 1 else vlib.get_build("plain")
    print(gen_sqrt_tabs(c))
