#!/bin/sh
# tools/new_worktree.sh <name>: private git worktree of /verif for parallel work, on branch <name>
set -e
mkdir -p /var/tmp/wt
git -C /verif worktree add -q /var/tmp/wt/$1 -b $1
echo /var/tmp/wt/$1
