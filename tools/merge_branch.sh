#!/bin/sh
# tools/merge_branch.sh <branch>: merge a worktree branch into main, resolving the generated files mechanically
cd /verif || exit 1
git merge --no-edit "$1" >/dev/null 2>&1
for f in $(git diff --name-only --diff-filter=U); do
  case "$f" in
    evidence/*|known_findings.json) git checkout --ours -- "$f"; git add "$f";;
    lean/MpirProofs.lean|lean/Mpir/Ops/All.lean|MANIFEST.json) git checkout --ours -- "$f"; git add "$f";;
    tools/props/c[0-9][0-9].py) git checkout --ours -- "$f"; git add "$f";;
    *) echo "UNRESOLVED: $f";;
  esac
done
if git diff --name-only --diff-filter=U | grep -q .; then echo "merge of $1 needs manual resolution"; exit 1; fi
python3 tools/gen_registry.py >/dev/null; python3 tools/gen_manifest.py >/dev/null
git add -A; git commit -qm "merge $1" 2>/dev/null || git commit -qm "merge $1 (regenerated registries)" --allow-empty
echo "merged $1"
