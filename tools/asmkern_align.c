/* Linked into the per-directory kernel harnesses with -Wl,--wrap=malloc,--wrap=calloc,--wrap=realloc,--wrap=free (tools/asmkern.py).
   Environment C14_ALIGN: unset/"0" = malloc's own 16-byte alignment; "8" = every block the harness or the library allocates starts at
   8 mod 16; "alt" = 0 or 8 per allocation from a fixed LCG (deterministic).  Limb pointers only promise 8-byte alignment, and the
   SSE/AVX kernels (movdqa / vmovdqa paths in copyi, copyd, com_n, lshift, rshift, store, popcount) branch on it. */
#include <stdlib.h>
#include <string.h>
#include <stdint.h>
void *__real_malloc(size_t); void *__real_calloc(size_t, size_t); void *__real_realloc(void *, size_t); void __real_free(void *);
#define MAGIC 0xC14A11C9C14A11C9UL
static int mode = -1; static uint64_t ctr = 0x9E3779B97F4A7C15UL;
static size_t off(void) {
  if (mode < 0) { const char *e = getenv("C14_ALIGN"); mode = !e ? 0 : e[0] == '8' ? 1 : e[0] == 'a' ? 2 : 0; }
  if (mode == 0) return 0;
  if (mode == 1) return 8;
  ctr = ctr * 6364136223846793005UL + 1442695040888963407UL; return ((ctr >> 33) & 1) ? 8 : 0;
}
static int mine(void *p) { return ((uintptr_t *) p)[-3] == (MAGIC ^ (uintptr_t) p); }
void *__wrap_malloc(size_t n) {
  if (mode == 0) return __real_malloc(n);
  size_t o = off(); if (mode == 0) return __real_malloc(n);
  char *b = __real_malloc(n + 48); if (!b) return 0;
  char *p = b + 32 + o; uintptr_t *h = (uintptr_t *) p;
  h[-3] = MAGIC ^ (uintptr_t) p; h[-2] = 32 + o; h[-1] = n; return p;
}
void *__wrap_calloc(size_t a, size_t b) { size_t n = a * b; void *p = __wrap_malloc(n); if (p) memset(p, 0, n); return p; }
void __wrap_free(void *p) {
  if (!p) return;
  if (mode <= 0 || !mine(p)) { __real_free(p); return; }
  uintptr_t *h = (uintptr_t *) p; h[-3] = 0; __real_free((char *) p - h[-2]);
}
void *__wrap_realloc(void *p, size_t n) {
  if (!p) return __wrap_malloc(n);
  if (mode <= 0 || !mine(p)) return __real_realloc(p, n);
  size_t old = ((uintptr_t *) p)[-1]; void *q = __wrap_malloc(n); if (!q) return 0;
  memcpy(q, p, old < n ? old : n); __wrap_free(p); return q;
}
