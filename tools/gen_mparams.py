#!/usr/bin/env python3
"""gen_mparams(ctx) -> lean/Mpir/Gen/ShippedParams.lean

For EVERY gmp-mparam.h under <build>/mpn/x86_64/** and mpn/generic: the resolved threshold vector, i.e. what the
library would be compiled with if that file were the selected one.  Resolution is done by the compiler, not by
parsing: the top-level headers of the scratch build are copied to a private directory with that gmp-mparam.h in
place of the selected one, `gcc -E -dM gmp-impl.h` lists the macro names that exist (so gmp-impl.h's `#ifndef X /
#define X default` blocks apply exactly as in a real build), and a generated C program prints `(long)(NAME)` for
every object-like macro named *_THRESHOLD (values may be expressions such as `3 * MUL_KARATSUBA_THRESHOLD` or
MP_SIZE_T_MAX).  Thresholds whose default lives in a .c file (`#ifndef X_THRESHOLD` in mpn/generic/*.c) are
appended with that default when the table does not define them.  Also extracted: the MPN_*_MINSIZE constants of
gmp-impl.h (both arms of the HAVE_NATIVE_mpn_karaadd conditional).

Raises on anything it cannot resolve (a field of Mpir.Params.Params missing from a vector, a non-integer value)."""
import os, re, sys, glob, shutil, subprocess, hashlib, json
from concurrent.futures import ThreadPoolExecutor
sys.path.insert(0, os.path.dirname(os.path.abspath(__file__)))
import vlib

# Lean field of Mpir.Params.Params  <-  macro name
FIELDS = [
    ("mulKaratsuba", "MUL_KARATSUBA_THRESHOLD"), ("mulToom3", "MUL_TOOM3_THRESHOLD"), ("mulToom4", "MUL_TOOM4_THRESHOLD"),
    ("mulToom8h", "MUL_TOOM8H_THRESHOLD"), ("mulFftFull", "MUL_FFT_FULL_THRESHOLD"),
    ("sqrBasecase", "SQR_BASECASE_THRESHOLD"), ("sqrKaratsuba", "SQR_KARATSUBA_THRESHOLD"), ("sqrToom3", "SQR_TOOM3_THRESHOLD"),
    ("sqrToom4", "SQR_TOOM4_THRESHOLD"), ("sqrToom8", "SQR_TOOM8_THRESHOLD"), ("sqrFftFull", "SQR_FFT_FULL_THRESHOLD"),
    ("mulhighBasecase", "MULHIGH_BASECASE_THRESHOLD"), ("mulhighDc", "MULHIGH_DC_THRESHOLD"), ("mulmidToom42", "MULMID_TOOM42_THRESHOLD"),
    ("dcDivQr", "DC_DIV_QR_THRESHOLD"), ("invDivQr", "INV_DIV_QR_THRESHOLD"), ("dcDivQ", "DC_DIV_Q_THRESHOLD"), ("invDivQ", "INV_DIV_Q_THRESHOLD"),
    ("dcBdivQr", "DC_BDIV_QR_THRESHOLD"), ("dcBdivQ", "DC_BDIV_Q_THRESHOLD"), ("binvNewton", "BINV_NEWTON_THRESHOLD"),
    ("redc1ToRedc2", "REDC_1_TO_REDC_2_THRESHOLD"), ("redc2ToRedcN", "REDC_2_TO_REDC_N_THRESHOLD"), ("redc1ToRedcN", "REDC_1_TO_REDC_N_THRESHOLD"),
    ("hgcd", "HGCD_THRESHOLD"), ("hgcdAppr", "HGCD_APPR_THRESHOLD"),
    ("mod11", "MOD_1_1_THRESHOLD"), ("mod12", "MOD_1_2_THRESHOLD"), ("mod13", "MOD_1_3_THRESHOLD"),
    ("getStrDc", "GET_STR_DC_THRESHOLD"), ("getStrPrecompute", "GET_STR_PRECOMPUTE_THRESHOLD"),
    ("setStrDc", "SET_STR_DC_THRESHOLD"), ("setStrPrecompute", "SET_STR_PRECOMPUTE_THRESHOLD"),
    ("divremHenselQr1", "DIVREM_HENSEL_QR_1_THRESHOLD"), ("rshDivremHenselQr1", "RSH_DIVREM_HENSEL_QR_1_THRESHOLD"),
]
MINSIZES = [("karaGeneric", "MPN_KARA_MUL_N_MINSIZE", min), ("karaNative", "MPN_KARA_MUL_N_MINSIZE", max), ("toom3", "MPN_TOOM3_MUL_N_MINSIZE", max),
            ("toom4", "MPN_TOOM4_MUL_N_MINSIZE", max), ("toom8h", "MPN_TOOM8H_MUL_MINSIZE", max), ("toom3Sqr", "MPN_TOOM3_SQR_N_MINSIZE", max),
            ("toom4Sqr", "MPN_TOOM4_SQR_N_MINSIZE", max), ("toom8Sqr", "MPN_TOOM8_SQR_N_MINSIZE", max), ("fft", "MPN_FFT_MUL_N_MINSIZE", max)]
EXTRA_INT = ("USE_PREINV_DIVREM_1", "USE_PREINV_MOD_1", "JACOBI_BASE_METHOD", "FFT_N_NUM", "FFT_MULMOD_2EXPP1_CUTOFF")

def mparam_files(build):
    fs = sorted(glob.glob(os.path.join(build, "mpn", "x86_64", "**", "gmp-mparam.h"), recursive=True))
    g = os.path.join(build, "mpn", "generic", "gmp-mparam.h")
    if os.path.exists(g): fs.append(g)
    return [os.path.relpath(f, build) for f in fs]

def local_defaults(build):
    """`#ifndef X_THRESHOLD / #define X_THRESHOLD expr` blocks of the .c files (first occurrence wins)"""
    out = []
    for f in sorted(glob.glob(os.path.join(build, "mpn", "generic", "*.c")) + glob.glob(os.path.join(build, "mpz", "*.c"))):
        s = open(f, errors="replace").read()
        for m in re.finditer(r"^#ifndef\s+(\w+_THRESHOLD)\s*\n#define\s+\1\s+(.+?)\s*(?:/\*.*)?\n#endif", s, re.M):
            if m.group(1) not in [n for n, _, _ in out]: out.append((m.group(1), m.group(2), os.path.relpath(f, build)))
    return out

def top_headers(build):
    return sorted(f for f in glob.glob(os.path.join(build, "*.h")))

def resolve(build, rel, wd, locs):
    """gmp-impl.h:2007 gives REDC_1_TO_REDC_2/REDC_2_TO_REDC_N defaults only `#if HAVE_NATIVE_mpn_addmul_2 || HAVE_NATIVE_mpn_redc_2` and
    REDC_1_TO_REDC_N otherwise: resolve under both configurations and take the union (a name must not change value)."""
    a = dict(resolve1(build, rel, wd + "a", locs, [])); b = resolve1(build, rel, wd + "b", locs, ["-DHAVE_NATIVE_mpn_addmul_2=1"])
    for n, v in b:
        if n in a and a[n] != v: raise RuntimeError("%s: %s resolves to %d or %d depending on HAVE_NATIVE_mpn_addmul_2" % (rel, n, a[n], v))
        a[n] = v
    return sorted(a.items())

def resolve1(build, rel, wd, locs, cfg):
    """-> [(name, value)] for one gmp-mparam.h under one configuration"""
    shutil.rmtree(wd, ignore_errors=True); os.makedirs(wd)
    for h in top_headers(build):
        if os.path.basename(h) != "gmp-mparam.h": shutil.copy(h, wd)
    shutil.copy(os.path.join(build, rel), os.path.join(wd, "gmp-mparam.h"))
    pre = '#include "config.h"\n#include <stdio.h>\n#include "mpir.h"\n#include "gmp-impl.h"\n#include "longlong.h"\n'
    pre += "".join("#ifndef %s\n#define %s %s\n#endif\n" % (n, n, e) for n, e, _ in locs)
    open(os.path.join(wd, "probe.c"), "w").write(pre)
    cc = ["gcc", "-w", "-DHAVE_CONFIG_H", "-D__GMP_WITHIN_GMP", "-I" + wd] + cfg
    p = subprocess.run(cc + ["-E", "-dM", os.path.join(wd, "probe.c")], stdout=subprocess.PIPE, stderr=subprocess.PIPE)
    if p.returncode != 0: raise RuntimeError("cpp failed with %s: %s" % (rel, p.stderr.decode()[-800:]))
    names = []
    for ln in p.stdout.decode().split("\n"):
        m = re.match(r"#define (\w+) ", ln)
        if m and (m.group(1).endswith("_THRESHOLD") or m.group(1) in EXTRA_INT): names.append(m.group(1))
    names = sorted(set(names))
    body = pre + "int main(void){\n" + "".join('  printf("%s %%ld\\n", (long)(%s));\n' % (n, n) for n in names) + "  return 0; }\n"
    open(os.path.join(wd, "vals.c"), "w").write(body)
    p = subprocess.run(cc + [os.path.join(wd, "vals.c"), "-o", os.path.join(wd, "vals")], stdout=subprocess.PIPE, stderr=subprocess.PIPE)
    if p.returncode != 0: raise RuntimeError("threshold values of %s are not all integer constant expressions: %s" % (rel, p.stderr.decode()[-800:]))
    out = subprocess.run([os.path.join(wd, "vals")], stdout=subprocess.PIPE).stdout.decode()
    vals = []
    for ln in out.split("\n"):
        if ln.strip():
            n, v = ln.split(); v = int(v)
            if v < 0: raise RuntimeError("%s: %s is negative (%d)" % (rel, n, v))
            vals.append((n, v))
    shutil.rmtree(wd, ignore_errors=True)
    return vals

def minsizes(build):
    s = open(os.path.join(build, "gmp-impl.h"), errors="replace").read(); out = []
    for field, macro, pick in MINSIZES:
        vs = [int(x) for x in re.findall(r"^#define\s+%s\s+(\d+)\s*$" % macro, s, re.M)]
        if not vs: raise RuntimeError("gmp-impl.h: %s not found" % macro)
        out.append((field, pick(vs)))
    return out

def lean_text(vectors, ms, locs):
    L = ["-- GENERATED by tools/gen_mparams.py from every gmp-mparam.h of the tree under test (gmp-impl.h defaults resolved by gcc) — do not edit.",
         "import Mpir.Model.ParamsValid", "namespace Mpir.Gen", "open Mpir.Params", "",
         "/-- MPN_*_MINSIZE of gmp-impl.h -/", "def minSizes : MinSizes :=",
         "  { " + ", ".join("%s := %d" % kv for kv in ms) + " }", "",
         "/-- thresholds whose default is local to a .c file (used when the table does not define them): name, default expression, file -/",
         "def localDefaults : List (String × String × String) := [" + ", ".join('("%s", "%s", "%s")' % (n, e.replace('"', "'"), f) for n, e, f in locs) + "]", "",
         "/-- every shipped table: file, resolved (name, value) list (MP_SIZE_T_MAX = 2^63-1 = `never`) -/",
         "def shippedVectors : List (String × List (String × Nat)) := ["]
    rows = []
    for rel, vals in vectors:
        rows.append('  ("%s", [%s])' % (rel, ", ".join('("%s", %d)' % nv for nv in vals)))
    L.append(",\n".join(rows)); L.append("]"); L.append("")
    L.append("/-- the same tables as records of the thresholds `Valid` speaks about -/")
    L.append("def shippedParams : List Params := [")
    rows = []
    for rel, vals in vectors:
        d = dict(vals); fs = ['file := "%s"' % rel]
        for field, macro in FIELDS:
            if macro not in d: raise RuntimeError("%s: %s is not defined after gmp-impl.h's defaults (needed for Params.%s)" % (rel, macro, field))
            fs.append("%s := %d" % (field, d[macro]))
        rows.append("  { " + ", ".join(fs) + " }")
    L.append(",\n".join(rows)); L.append("]"); L.append(""); L.append("end Mpir.Gen"); L.append("")
    return "\n".join(L)

def gen_mparams(ctx):
    build = ctx.build
    files = mparam_files(build)
    if len(files) < 2: raise RuntimeError("no gmp-mparam.h files found under %s/mpn/x86_64" % build)
    locs = local_defaults(build); ms = minsizes(build)
    base = os.path.join(build, "asmkern", "mparam-%d" % os.getpid()); os.makedirs(base, exist_ok=True)
    try:
        with ThreadPoolExecutor(max_workers=vlib.NPROC) as ex:
            vecs = list(ex.map(lambda iv: resolve(build, iv[1], os.path.join(base, str(iv[0])), locs), enumerate(files)))
    finally:
        shutil.rmtree(base, ignore_errors=True)
    txt = lean_text(list(zip(files, vecs)), ms, locs)
    path = os.path.join(vlib.LEAN, "Mpir", "Gen", "ShippedParams.lean")
    ctx.shipped_vectors = list(zip(files, vecs))
    return [os.path.relpath(path, vlib.VERIF)] if vlib.write_if_changed(path, txt) else []

if __name__ == "__main__":
    class C: pass
    c = C(); c.build = vlib.get_build("plain")
    print(gen_mparams(c))
    for f, v in c.shipped_vectors: print(f, len(v))
