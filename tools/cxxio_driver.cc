/* C++ side of the `cxx_io_*` ops (property C20, part c20_cxxio): reads op lines on stdin, performs the stream
   operation with mpz_class / mpq_class / mpf_class (mpirxx.h -> cxx/is*.cc, os*.cc of the tree under test) on a
   std::istringstream / std::ostringstream and prints the observables.  Line protocol: CONTRIBUTING.md; op list:
   lean/Mpir/Ops/CxxIo.lean.  Numbers are parsed and printed by hand over the C structs (never by the library). */
#include <mpirxx.h>
#include <cstdio>
#include <cstring>
#include <cstdlib>
#include <string>
#include <vector>
#include <sstream>
#include <map>

/* recording allocator (the C harness has the same in harness/main.c): every block the library obtains is entered with its
   size; realloc / free must be given exactly that size; nothing may be left when the objects of an op are gone */
static std::map<void *, size_t> ledger;
static char alloc_msg[128];
static void alloc_note(const char *what, size_t given, size_t block) {
  if (!alloc_msg[0]) snprintf(alloc_msg, sizeof alloc_msg, " !alloc:%s:%zx:%zx", what, given, block);
}
static void *rec_alloc(size_t n) { void *p = malloc(n ? n : 1); if (!p) abort(); ledger[p] = n; return p; }
static void *rec_realloc(void *p, size_t o, size_t n) {
  std::map<void *, size_t>::iterator it = ledger.find(p);
  if (it == ledger.end()) alloc_note("realloc-unknown", o, 0); else { if (it->second != o) alloc_note("realloc", o, it->second); ledger.erase(it); }
  void *q = malloc(n ? n : 1); if (!q) abort();            /* always moving */
  memcpy(q, p, o < n ? o : n); free(p); ledger[q] = n; return q;
}
static void rec_free(void *p, size_t n) {
  std::map<void *, size_t>::iterator it = ledger.find(p);
  if (it == ledger.end()) { alloc_note("free-unknown", n, 0); return; }
  if (it->second != n) alloc_note("free", n, it->second);
  ledger.erase(it); free(p);
}

struct Tok { int kind; /* 0 num 1 vec 2 str */ bool neg; std::vector<mp_limb_t> limbs; std::string s; };

static int hexv(int c) { return c >= '0' && c <= '9' ? c - '0' : c >= 'a' && c <= 'f' ? c - 'a' + 10 : c >= 'A' && c <= 'F' ? c - 'A' + 10 : -1; }
static bool parse_hex(const char *s, size_t len, std::vector<mp_limb_t> &d) {
  if (len == 0) return false;
  d.assign((len + 15) / 16, 0);
  for (size_t i = 0; i < len; i++) { int v = hexv((unsigned char) s[len - 1 - i]); if (v < 0) return false; d[i / 16] |= (mp_limb_t) v << (4 * (i % 16)); }
  while (!d.empty() && d.back() == 0) d.pop_back();
  return true;
}
static bool parse_tok(const std::string &w, Tok &t) {
  t.neg = false; t.limbs.clear(); t.s.clear();
  if (w.empty()) return false;
  if (w[0] == 's') {
    if ((w.size() - 1) % 2) return false;
    t.kind = 2;
    for (size_t i = 1; i < w.size(); i += 2) { int a = hexv(w[i]), b = hexv(w[i + 1]); if (a < 0 || b < 0) return false; t.s += (char) (a * 16 + b); }
    return true;
  }
  if (w[0] == '[') {
    if (w[w.size() - 1] != ']') return false;
    t.kind = 1; size_t i = 1;
    while (i < w.size() - 1) {
      size_t j = w.find(',', i); if (j == std::string::npos) j = w.size() - 1;
      std::vector<mp_limb_t> d; if (!parse_hex(w.c_str() + i, j - i, d) || d.size() > 1) return false;
      t.limbs.push_back(d.empty() ? 0 : d[0]); i = j + 1;
    }
    return true;
  }
  t.kind = 0; size_t o = 0;
  if (w[0] == '-') { t.neg = true; o = 1; }
  return parse_hex(w.c_str() + o, w.size() - o, t.limbs);
}
static bool tok_long(const Tok &t, long &v) {
  if (t.kind != 0 || t.limbs.size() > 1) return false;
  mp_limb_t m = t.limbs.empty() ? 0 : t.limbs[0];
  if (m > (mp_limb_t) 1 << 62) return false;
  v = t.neg ? -(long) m : (long) m; return true;
}
static void tok_mpz(mpz_ptr z, const Tok &t) {
  long n = t.limbs.size();
  _mpz_realloc(z, n ? n : 1);
  for (long i = 0; i < n; i++) z->_mp_d[i] = t.limbs[i];
  z->_mp_size = t.neg ? -n : n;
}
static void pr_limbs(const mp_limb_t *p, long n) {
  while (n > 0 && p[n - 1] == 0) n--;
  if (n == 0) { printf("0"); return; }
  printf("%lx", (unsigned long) p[n - 1]);
  for (long i = n - 2; i >= 0; i--) printf("%016lx", (unsigned long) p[i]);
}
static void pr_z(mpz_srcptr z) {
  long n = z->_mp_size < 0 ? -(long) z->_mp_size : z->_mp_size;
  if ((n > 0 && z->_mp_d[n - 1] == 0) || n > z->_mp_alloc) { printf("!malformed"); return; }
  if (z->_mp_size < 0) printf("-"); pr_limbs(z->_mp_d, n);
}
static void pr_long(long v) { if (v < 0) printf("-%lx", -(unsigned long) v); else printf("%lx", (unsigned long) v); }
static void pr_bytes(const std::string &s) { printf("s"); for (size_t i = 0; i < s.size(); i++) printf("%02x", (unsigned char) s[i]); }
static void pr_f(mpf_srcptr f) {
  long n = f->_mp_size < 0 ? -(long) f->_mp_size : f->_mp_size;
  if ((n > 0 && f->_mp_d[n - 1] == 0) || n > f->_mp_prec + 1 || (n == 0 && f->_mp_exp != 0)) { printf("!malformed"); return; }
  pr_long(f->_mp_size); printf(" "); pr_long(f->_mp_exp); printf(" [");
  for (long i = 0; i < n; i++) printf("%s%lx", i ? "," : "", (unsigned long) f->_mp_d[i]);
  printf("]");
}

/* our own, library-independent numbering of the flags (see lean/Mpir/Ops/CxxIo.lean) */
static std::ios::fmtflags flags_of(long n) {
  std::ios::fmtflags f = std::ios::fmtflags(0);
  if (n & 0x1) f |= std::ios::dec;        if (n & 0x2) f |= std::ios::oct;        if (n & 0x4) f |= std::ios::hex;
  if (n & 0x8) f |= std::ios::showbase;   if (n & 0x10) f |= std::ios::showpos;   if (n & 0x20) f |= std::ios::uppercase;
  if (n & 0x40) f |= std::ios::left;      if (n & 0x80) f |= std::ios::right;     if (n & 0x100) f |= std::ios::internal;
  if (n & 0x200) f |= std::ios::fixed;    if (n & 0x400) f |= std::ios::scientific; if (n & 0x800) f |= std::ios::showpoint;
  if (n & 0x1000) f |= std::ios::skipws;
  return f;
}
static std::ios::iostate state_of(long n) {
  std::ios::iostate s = std::ios::goodbit;
  if (n & 1) s |= std::ios::eofbit; if (n & 2) s |= std::ios::failbit; if (n & 4) s |= std::ios::badbit;
  return s;
}
static long state_num(const std::ios &s) {
  std::ios::iostate r = s.rdstate();
  return ((r & std::ios::eofbit) ? 1 : 0) + ((r & std::ios::failbit) ? 2 : 0) + ((r & std::ios::badbit) ? 4 : 0);
}
static void pr_itail(std::istringstream &is) {
  long st = state_num(is);
  long pos = (long) is.rdbuf()->pubseekoff(0, std::ios::cur, std::ios::in);
  int nx = is.rdbuf()->sgetc();
  printf(" "); pr_long(st); printf(" "); pr_long(pos); printf(" "); pr_long(nx == std::char_traits<char>::eof() ? -1 : (long) (unsigned char) nx);
}
static void pr_otail(std::ostringstream &os) {
  pr_bytes(os.str()); printf(" "); pr_long((long) os.width()); printf(" "); pr_long(state_num(os));
}

static bool run(const std::string &op, std::vector<Tok> &a) {
  size_t n = a.size(); long flags, state;
  bool rt = op == "cxx_io_rt_z" || op == "cxx_io_rt_q";
  if (n < 2 || !tok_long(a[0], flags) || !tok_long(a[1], state) || flags < 0 || flags >= 8192 || state < 0 || state >= (rt ? 8192 : 8)) return false;
  if (op == "cxx_io_in_z") {
    if (n != 4 || a[2].kind != 2 || a[3].kind != 0) return false;
    std::istringstream is(a[2].s); is.flags(flags_of(flags)); is.clear(state_of(state));
    mpz_class z; tok_mpz(z.get_mpz_t(), a[3]);
    is >> z;
    pr_z(z.get_mpz_t()); pr_itail(is); return true;
  }
  if (op == "cxx_io_in_q") {
    if (n != 5 || a[2].kind != 2 || a[3].kind != 0 || a[4].kind != 0) return false;
    std::istringstream is(a[2].s); is.flags(flags_of(flags)); is.clear(state_of(state));
    mpq_class q; tok_mpz(mpq_numref(q.get_mpq_t()), a[3]); tok_mpz(mpq_denref(q.get_mpq_t()), a[4]);
    is >> q;
    pr_z(mpq_numref(q.get_mpq_t())); printf(" "); pr_z(mpq_denref(q.get_mpq_t())); pr_itail(is); return true;
  }
  if (op == "cxx_io_in_f") {
    long bits;
    if (n != 4 || !tok_long(a[2], bits) || bits < 0 || a[3].kind != 2) return false;
    std::istringstream is(a[3].s); is.flags(flags_of(flags)); is.clear(state_of(state));
    mpf_class f(5, bits);
    is >> f;
    long st = state_num(is), pos = (long) is.rdbuf()->pubseekoff(0, std::ios::cur, std::ios::in); int nx = is.rdbuf()->sgetc();
    pr_long(st); printf(" "); pr_long(pos); printf(" "); pr_long(nx == std::char_traits<char>::eof() ? -1 : (long) (unsigned char) nx);
    printf(" "); pr_f(f.get_mpf_t()); return true;
  }
  if (op == "cxx_io_rt_z" || op == "cxx_io_rt_q") {   /* here a[1] is the flag word of the input stream */
    long fi = state, w, fl; bool q = op == "cxx_io_rt_q";
    if (n != (q ? 8u : 6u) || !tok_long(a[2], w) || !tok_long(a[3], fl) || fl < 0 || fl > 255) return false;
    for (size_t k = 4; k < n; k++) if (a[k].kind != 0) return false;
    std::ostringstream os; os.flags(flags_of(flags)); os.width(w); os.fill((char) fl);
    if (!q) {
      mpz_class z, y; tok_mpz(z.get_mpz_t(), a[4]); tok_mpz(y.get_mpz_t(), a[5]);
      os << z;
      std::istringstream is(os.str()); is.flags(flags_of(fi));
      is >> y;
      pr_bytes(os.str()); printf(" "); pr_z(y.get_mpz_t()); pr_itail(is);
    } else {
      mpq_class x, y; tok_mpz(mpq_numref(x.get_mpq_t()), a[4]); tok_mpz(mpq_denref(x.get_mpq_t()), a[5]);
      tok_mpz(mpq_numref(y.get_mpq_t()), a[6]); tok_mpz(mpq_denref(y.get_mpq_t()), a[7]);
      os << x;
      std::istringstream is(os.str()); is.flags(flags_of(fi));
      is >> y;
      pr_bytes(os.str()); printf(" "); pr_z(mpq_numref(y.get_mpq_t())); printf(" "); pr_z(mpq_denref(y.get_mpq_t())); pr_itail(is);
    }
    return true;
  }
  long width, fill, prec;
  if (n < 5 || !tok_long(a[2], width) || !tok_long(a[3], fill) || !tok_long(a[4], prec) || fill < 0 || fill > 255) return false;
  std::ostringstream os; os.flags(flags_of(flags)); os.width(width); os.fill((char) fill); os.precision(prec); os.clear(state_of(state));
  if (op == "cxx_io_out_z") {
    if (n != 6 || a[5].kind != 0) return false;
    mpz_class z; tok_mpz(z.get_mpz_t(), a[5]);
    os << z; pr_otail(os); return true;
  }
  if (op == "cxx_io_out_q") {
    if (n != 7 || a[5].kind != 0 || a[6].kind != 0) return false;
    mpq_class q; tok_mpz(mpq_numref(q.get_mpq_t()), a[5]); tok_mpz(mpq_denref(q.get_mpq_t()), a[6]);
    os << q; pr_otail(os); return true;
  }
  if (op == "cxx_io_out_f" || op == "cxx_io_out_fg") {
    long bits, e, sz;
    if (n != 9 || !tok_long(a[5], bits) || !tok_long(a[6], e) || !tok_long(a[7], sz) || a[8].kind != 1 || bits < 0) return false;
    long m = a[8].limbs.size();
    mpf_class f(0, bits); mpf_ptr p = f.get_mpf_t();
    if (m > p->_mp_prec + 1 || (sz < 0 ? -sz : sz) != m || (m > 0 && a[8].limbs[m - 1] == 0)) return false;
    for (long i = 0; i < m; i++) p->_mp_d[i] = a[8].limbs[i];
    p->_mp_size = sz; p->_mp_exp = m ? e : 0;
    if (op == "cxx_io_out_f" && ((os.flags() & std::ios::basefield) == std::ios::hex || (os.flags() & std::ios::basefield) == std::ios::oct)) { printf("!unmodelled"); return true; }
    os << f; pr_otail(os); return true;
  }
  return false;
}

int main() {
  mp_set_memory_functions(rec_alloc, rec_realloc, rec_free);
  std::string line;
  char buf[1 << 16];
  while (fgets(buf, sizeof buf, stdin)) {
    line = buf; while (!line.empty() && (line[line.size() - 1] == '\n' || line[line.size() - 1] == '\r')) line.erase(line.size() - 1);
    if (line.empty()) { printf("\n"); continue; }
    std::vector<std::string> w; size_t i = 0;
    while (i < line.size()) { size_t j = line.find(' ', i); if (j == std::string::npos) j = line.size(); if (j > i) w.push_back(line.substr(i, j - i)); i = j + 1; }
    std::vector<Tok> a(w.size() - 1); bool ok = true;
    for (size_t k = 1; k < w.size(); k++) if (!parse_tok(w[k], a[k - 1])) ok = false;
    if (!ok) { printf("?parse\n"); fflush(stdout); continue; }
    alloc_msg[0] = 0;
    if (!run(w[0], a)) printf("?args");
    if (alloc_msg[0]) printf("%s", alloc_msg);
    if (!ledger.empty()) { printf(" !leak"); ledger.clear(); }
    printf("\n"); fflush(stdout);
  }
  return 0;
}
