"""C20 generator: C++ programs over mpz_class / mpq_class / mpf_class expressions.

Every *statement* (an assignment of an expression tree, a compound assignment, a constructor call, a
comparison, an I/O case) becomes one function of a generated program; it is run on K *value sets*
(variable contents + built-in operand values).  For each (statement, value set) the program prints

    cxx  <sid> <k> <tokens>      the C++ statement, through mpirxx.h (the code under test)
    cref <sid> <k> <tokens>      every sub-expression evaluated into its own C temporary with the C function
    cconv <sid> <k> <tokens>     (mixed-type compound assignments only) right operand converted first

Printing goes through a hand-written hex printer over the C structs, never through the C++ operators.
The runner compares cxx with cref, and for mpz/mpq statements cxx with the Lean `evalTmp`
(op line `cxx_eval <prefix syntax> <values>`)."""
import os, struct, subprocess, concurrent.futures, hashlib, re, shutil
from genlib import hx

LONG_MIN, LONG_MAX, ULONG_MAX = -(1 << 63), (1 << 63) - 1, (1 << 64) - 1
NZ, NQ, NF = 4, 3, 3
NB = 4          # built-in operand slots per statement

# ---------------------------------------------------------------- trees
class Var:
    def __init__(s, ty, i): s.ty, s.i = ty, i
    depth = 0
    def cxx(s): return "%s[%d]" % (s.ty.upper(), s.i)
    def pre(s): return "%s%d" % (s.ty, s.i)
    def vars(s): return {(s.ty, s.i)}
    def nodes(s): return 0
    def ops(s): return []

class Acc(Var):
    """accessor sub-object `Q[qi].get_num()` / `Q[qi].get_den()`: an mpz-typed leaf that is a field of mpq variable qi
    (C reference: mpq_numref / mpq_denref of the pool variable).  Statements using it: tools/cxxacc.py"""
    def __init__(s, qi, den): s.ty, s.i, s.qi, s.den = "z", None, qi, den
    def cxx(s): return "Q[%d].get_%s()" % (s.qi, "den" if s.den else "num")
    def cref(s): return "mpq_%sref(Qc[%d])" % ("den" if s.den else "num", s.qi)
    def pre(s): return "q%s%d" % ("d" if s.den else "n", s.qi)
    def vars(s): return {("q", s.qi)}

SI_T = ["signed char", "short", "int", "long"]
UI_T = ["unsigned char", "unsigned short", "unsigned", "unsigned long"]
D_T = ["float", "double"]
RANGE = {"signed char": (-128, 127), "short": (-32768, 32767), "int": (-(1 << 31), (1 << 31) - 1), "long": (LONG_MIN, LONG_MAX),
         "unsigned char": (0, 255), "unsigned short": (0, 65535), "unsigned": (0, (1 << 32) - 1), "unsigned long": (0, ULONG_MAX)}

class Bi:
    """built-in operand; `slot` numbers the built-ins of a statement in prefix order"""
    ty = None; depth = 0
    def __init__(s, ctype, lit=None): s.ctype = ctype; s.slot = None; s.lit = lit
    @property
    def kind(s): return "i" if s.ctype in SI_T else "u" if s.ctype in UI_T else "d"
    def cxx(s):
        if s.lit is None: return "b%d" % s.slot
        v = s.lit
        if s.kind == "d": return repr(float(v)) + ("f" if s.ctype == "float" else "")
        if s.ctype == "long": return "(-%dL - 1)" % (-(v + 1)) if v < 0 else "%dL" % v
        if s.ctype == "unsigned long": return "%dUL" % v
        if s.ctype == "unsigned": return "%dU" % v
        return "(%d)" % v
    def pre(s): return s.kind
    def vars(s): return set()
    def nodes(s): return 0
    def ops(s): return []

class Un:
    def __init__(s, op, a): s.op, s.a = op, a; s.ty = a.ty; s.depth = a.depth + 1
    def cxx(s):
        f = {"pos": "+", "neg": "-", "com": "~"}.get(s.op)
        return "(%s%s)" % (f, s.a.cxx()) if f else "%s(%s)" % (s.op, s.a.cxx())
    def pre(s): return s.op + " " + s.a.pre()
    def vars(s): return s.a.vars()
    def nodes(s): return 1 + s.a.nodes()
    def ops(s): return [s.op] + s.a.ops()

BINSYM = {"add": "+", "sub": "-", "mul": "*", "div": "/", "mod": "%", "and": "&", "ior": "|", "xor": "^"}
RANK = {"z": 0, "q": 1, "f": 2}
class Bin:
    def __init__(s, op, a, b):
        s.op, s.a, s.b = op, a, b
        ts = [x.ty for x in (a, b) if x.ty]
        s.ty = max(ts, key=lambda t: RANK[t]); s.depth = max(a.depth, b.depth) + 1
    def cxx(s):
        if s.op in BINSYM: return "(%s %s %s)" % (s.a.cxx(), BINSYM[s.op], s.b.cxx())
        return "%s(%s, %s)" % (s.op, s.a.cxx(), s.b.cxx())
    def pre(s): return "%s %s %s" % (s.op, s.a.pre(), s.b.pre())
    def vars(s): return s.a.vars() | s.b.vars()
    def nodes(s): return 1 + s.a.nodes() + s.b.nodes()
    def ops(s): return [s.op] + s.a.ops() + s.b.ops()

class Sh:
    def __init__(s, op, a, n): s.op, s.a, s.n = op, a, n; s.ty = a.ty; s.depth = a.depth + 1
    def cxx(s): return "(%s %s %s)" % (s.a.cxx(), "<<" if s.op == "shl" else ">>", s.n.cxx())
    def pre(s): return "%s %s n" % (s.op, s.a.pre())
    def vars(s): return s.a.vars()
    def nodes(s): return 1 + s.a.nodes()
    def ops(s): return [s.op] + s.a.ops()

def builtins(t):
    """built-in leaves in prefix order"""
    if isinstance(t, Bi): return [t]
    if isinstance(t, (Var, Hole)): return []
    if isinstance(t, Un): return builtins(t.a)
    if isinstance(t, Sh): return builtins(t.a) + [t.n]
    return builtins(t.a) + builtins(t.b)

ZBIN = ["add", "sub", "mul", "div", "mod", "and", "ior", "xor", "gcd", "lcm"]
QBIN = ["add", "sub", "mul", "div"]
ZUN = ["pos", "neg", "com", "abs", "sqrt"]
QUN = ["pos", "neg", "abs"]
FUN = ["pos", "neg", "abs", "sqrt", "trunc", "floor", "ceil"]
FBIN = QBIN + ["hypot"]
def binops(ty): return ZBIN if ty == "z" else FBIN if ty == "f" else QBIN
def unops(ty): return ZUN if ty == "z" else QUN if ty == "q" else FUN

# ---------------------------------------------------------------- statements
class Stmt:
    """kind: assign (tgt ty,i) | init ty | compound op tgt rhs | compoundsh op tgt n | cmp op a b | sgn a | incr op tgt
       | mixed op tgt rhs (the known mixed-type compound finding) | io ..."""
    def __init__(s, kind, **kw):
        s.kind = kind; s.__dict__.update(kw); s.tags = set(kw.get("tags", ()))
        for j, b in enumerate(s.builtins()): b.slot = j
    def trees(s):
        return [getattr(s, n) for n in ("e", "r", "a", "b", "n") if isinstance(getattr(s, n, None), (Var, Bi, Un, Bin, Sh))]
    def builtins(s):
        out = []
        for t in s.trees(): out += builtins(t)
        return out
    def types(s):
        ts = set()
        for t in s.trees():
            ts |= {v[0] for v in t.vars()}
            if t.ty: ts.add(t.ty)
        if hasattr(s, "tgt"): ts.add(s.tgt[0])
        if s.kind == "init": ts.add(s.ty)
        return ts
    def describe(s): return s.cxx()[0] if s.kind != "io" else s.text
    def isf(s): return "f" in s.types()
    def lean(s): return s.kind not in ("mixed", "io") and (s.kind != "incr" or s.isf())
    def depth(s): return max([t.depth for t in s.trees()] + [0]) + (1 if s.kind in ("compound", "compoundsh", "mixed") else 0)
    def ops(s):
        o = []
        for t in s.trees(): o += t.ops()
        if s.kind in ("compound", "compoundsh", "mixed", "cmp", "incr"): o.append(s.op + ("=" if s.kind != "cmp" else ""))
        if s.kind == "sgn": o.append("sgn")
        return o
    def alias(s):
        """how the target occurs in the right-hand side"""
        if not hasattr(s, "tgt") or s.kind not in ("assign",): return None
        e = s.e
        if s.tgt not in e.vars(): return "none"
        if isinstance(e, Var): return "self"
        if isinstance(e, Bin):
            l = isinstance(e.a, Var) and (e.a.ty, e.a.i) == s.tgt; r = isinstance(e.b, Var) and (e.b.ty, e.b.i) == s.tgt
            if l and r: return "both-leaves"
            if l: return "left-leaf" + ("+inside-right" if s.tgt in e.b.vars() else "")
            if r: return "right-leaf" + ("+inside-left" if s.tgt in e.a.vars() else "")
            il = s.tgt in e.a.vars(); ir = s.tgt in e.b.vars()
            return "inside-both" if il and ir else "inside-left" if il else "inside-right"
        return "inside"
    # --- C++ source of the statement; the result is left in / printed from `res`
    def cxx(s):
        T = lambda t, i: "%s[%d]" % (t.upper(), i)
        if s.kind == "assign": return "%s = %s;" % (T(*s.tgt), s.e.cxx()), ("var",) + s.tgt
        if s.kind == "init":
            return "mp%s_class nw(%s);" % (s.ty, s.e.cxx()), ("new", s.ty)
        if s.kind in ("compound", "mixed"):
            sym = BINSYM[s.op]
            return "%s %s= %s;" % (T(*s.tgt), sym, s.r.cxx()), ("var",) + s.tgt
        if s.kind == "compoundsh":
            return "%s %s= %s;" % (T(*s.tgt), "<<" if s.op == "shl" else ">>", s.n.cxx()), ("var",) + s.tgt
        if s.kind == "incr":
            f = {"preinc": "++%s;", "predec": "--%s;", "postinc": "%s++;", "postdec": "%s--;"}[s.op]
            return f % T(*s.tgt), ("var",) + s.tgt
        if s.kind == "cmp":
            sym = {"eq": "==", "ne": "!=", "lt": "<", "le": "<=", "gt": ">", "ge": ">="}.get(s.op)
            if sym: return "ires = (%s %s %s);" % (s.a.cxx(), sym, s.b.cxx()), ("int",)
            return "ires = cmp(%s, %s); ires = (ires > 0) - (ires < 0);" % (s.a.cxx(), s.b.cxx()), ("int",)
        if s.kind == "sgn": return "ires = sgn(%s);" % s.a.cxx(), ("int",)
        if s.kind in ("acc", "init2"): import cxxacc; return cxxacc.stmt_cxx(s)
        raise ValueError(s.kind)
    def pre(s):
        if s.kind == "assign": return "= %s %d %s" % (s.tgt[0], s.tgt[1], s.e.pre())
        if s.kind == "init": return "new %s %s" % (s.ty, s.e.pre())
        if s.kind == "compound": return "op= %s %s %d %s" % (s.op, s.tgt[0], s.tgt[1], s.r.pre())
        if s.kind == "compoundsh": return "sh= %s %s %d n" % (s.op, s.tgt[0], s.tgt[1])
        if s.kind == "cmp": return "cmp %s %s %s" % (s.op, s.a.pre(), s.b.pre())
        if s.kind == "sgn": return "sgn " + s.a.pre()
        if s.kind == "incr": return "incr %s %s %d" % (s.op, s.tgt[0], s.tgt[1])
        if s.kind in ("acc", "init2"): import cxxacc; return cxxacc.stmt_pre(s)
        raise ValueError(s.kind)

# ---------------------------------------------------------------- C reference code
CFN = {("z", "add"): "mpz_add", ("z", "sub"): "mpz_sub", ("z", "mul"): "mpz_mul", ("z", "div"): "mpz_tdiv_q", ("z", "mod"): "mpz_tdiv_r",
       ("z", "and"): "mpz_and", ("z", "ior"): "mpz_ior", ("z", "xor"): "mpz_xor", ("z", "gcd"): "mpz_gcd", ("z", "lcm"): "mpz_lcm",
       ("q", "add"): "mpq_add", ("q", "sub"): "mpq_sub", ("q", "mul"): "mpq_mul", ("q", "div"): "mpq_div",
       ("f", "add"): "mpf_add", ("f", "sub"): "mpf_sub", ("f", "mul"): "mpf_mul", ("f", "div"): "mpf_div"}
CUN = {("z", "pos"): "mpz_set", ("z", "neg"): "mpz_neg", ("z", "com"): "mpz_com", ("z", "abs"): "mpz_abs", ("z", "sqrt"): "mpz_sqrt",
       ("q", "pos"): "mpq_set", ("q", "neg"): "mpq_neg", ("q", "abs"): "mpq_abs",
       ("f", "pos"): "mpf_set", ("f", "neg"): "mpf_neg", ("f", "abs"): "mpf_abs", ("f", "sqrt"): "mpf_sqrt",
       ("f", "trunc"): "mpf_trunc", ("f", "floor"): "mpf_floor", ("f", "ceil"): "mpf_ceil"}
CSH = {("z", "shl"): "mpz_mul_2exp", ("z", "shr"): "mpz_fdiv_q_2exp", ("q", "shl"): "mpq_mul_2exp", ("q", "shr"): "mpq_div_2exp",
       ("f", "shl"): "mpf_mul_2exp", ("f", "shr"): "mpf_div_2exp"}
SETCONV = {("z", "z"): "mpz_set", ("z", "q"): "mpz_set_q", ("z", "f"): "mpz_set_f", ("q", "z"): "mpq_set_z", ("q", "q"): "mpq_set",
           ("q", "f"): "mpq_set_f", ("f", "z"): "mpf_set_z", ("f", "q"): "mpf_set_q", ("f", "f"): "mpf_set"}

class CRef:
    """emits C statements; every sub-expression (and every converted / built-in operand) gets its own temporary"""
    def __init__(s, fprec): s.code = []; s.n = {"z": 0, "q": 0, "f": 0}; s.fprec = fprec
    def tmp(s, ty, prec=None):
        k = s.n[ty]; s.n[ty] += 1
        name = "T%s[%d]" % (ty.upper(), k)
        if ty == "f": s.code.append("mpf_set_prec(%s, %s);" % (name, prec or s.fprec))
        return name
    def cvar(s, v): return v.cref() if isinstance(v, Acc) else "%sc[%d]" % (v.ty.upper(), v.i)
    def conv(s, name, frm, to):
        if frm == to: return name
        t = s.tmp(to); s.code.append("%s(%s, %s);" % (SETCONV[(to, frm)], t, name)); return t
    def bi(s, b, ty):
        t = s.tmp(ty, 64)
        if ty == "q":
            s.code.append({"i": "mpq_set_si(%s, %s, 1);", "u": "mpq_set_ui(%s, %s, 1);", "d": "mpq_set_d(%s, %s);"}[b.kind] % (t, b.cxx()))
        else:
            s.code.append("mp%s_set_%s(%s, %s);" % (ty, {"i": "si", "u": "ui", "d": "d"}[b.kind], t, b.cxx()))
        return t
    def ev(s, e):
        """returns (name of the C object holding the value, type)"""
        if isinstance(e, Var): return s.cvar(e), e.ty
        if isinstance(e, Un):
            a, _ = s.ev(e.a); t = s.tmp(e.ty); s.code.append("%s(%s, %s);" % (CUN[(e.ty, e.op)], t, a)); return t, e.ty
        if isinstance(e, Sh):
            a, _ = s.ev(e.a); t = s.tmp(e.ty); s.code.append("%s(%s, %s, %s);" % (CSH[(e.ty, e.op)], t, a, e.n.cxx())); return t, e.ty
        T = e.ty; ops = []
        for x in (e.a, e.b):
            if isinstance(x, Bi):
                if T == "f" and x.kind == "u":  ops.append(("ui", x))          # mpf has the _ui functions as the C-level operation
                elif T == "f" and x.kind == "i": ops.append(("si", x))
                else: ops.append(("obj", s.bi(x, T)))
            else:
                n, ty = s.ev(x); ops.append(("obj", s.conv(n, ty, T)))
        t = s.tmp(T)
        if e.op == "hypot":
            # no C function: the defining sequence of __gmp_hypot_function (g*g into a temporary of the destination's precision, then
            # the other operand squared, the sum, the root)
            (ka, a), (kb, b) = ops
            if ka != "obj": (ka, a), (kb, b) = (kb, b), (ka, a)
            t1 = s.tmp(T); s.code.append("mpf_mul(%s, %s, %s);" % (t1, a, a))
            if kb == "obj": s.code.append("mpf_mul(%s, %s, %s);" % (t, b, b))
            else: s.code += ["mpf_set_%s(%s, %s);" % (kb, t, b.cxx()), "mpf_mul(%s, %s, %s);" % (t, t, t)]
            s.code += ["mpf_add(%s, %s, %s);" % (t, t, t1), "mpf_sqrt(%s, %s);" % (t, t)]
        elif ops[0][0] == "obj" and ops[1][0] == "obj":
            s.code.append("%s(%s, %s, %s);" % (CFN[(T, e.op)], t, ops[0][1], ops[1][1]))
        else:
            s.code += mpf_builtin(e.op, t, ops)
        return t, T

def mpf_builtin(op, t, ops):
    """mpf with an integer operand: the C-level operations are mpf_add_ui / mpf_sub_ui / mpf_ui_sub / mpf_mul_ui / mpf_div_ui / mpf_ui_div;
    a negative signed operand uses the opposite function on |l| (there is no mpf_*_si)."""
    (ka, a), (kb, b) = ops
    if ka == "obj":
        l = b.cxx(); g = a
        if kb == "ui":
            return ["mpf_%s_ui(%s, %s, %s);" % (op, t, g, l)]
        neg = "(unsigned long) -(unsigned long) %s" % l
        if op == "add": return ["if (%s >= 0) mpf_add_ui(%s, %s, %s); else mpf_sub_ui(%s, %s, %s);" % (l, t, g, l, t, g, neg)]
        if op == "sub": return ["if (%s >= 0) mpf_sub_ui(%s, %s, %s); else mpf_add_ui(%s, %s, %s);" % (l, t, g, l, t, g, neg)]
        return ["if (%s >= 0) mpf_%s_ui(%s, %s, %s); else { mpf_%s_ui(%s, %s, %s); mpf_neg(%s, %s); }" % (l, op, t, g, l, op, t, g, neg, t, t)]
    l = a.cxx(); g = b
    neg = "(unsigned long) -(unsigned long) %s" % l
    if op in ("add", "mul"):
        return mpf_builtin(op, t, [(kb, b), (ka, a)])
    if ka == "ui":
        return ["mpf_ui_%s(%s, %s, %s);" % (op, t, l, g)]
    # signed built-in on the left of `-`: mpirxx.h computes -(g - l) with mpf_sub_ui/mpf_add_ui (not mpf_ui_sub); mpf results are
    # only defined up to the precision, so the reference has to use the same C functions to be comparable bit for bit
    if op == "sub": return ["if (%s >= 0) mpf_sub_ui(%s, %s, %s); else mpf_add_ui(%s, %s, %s);" % (l, t, g, l, t, g, neg), "mpf_neg(%s, %s);" % (t, t)]
    return ["if (%s >= 0) mpf_ui_div(%s, %s, %s); else { mpf_ui_div(%s, %s, %s); mpf_neg(%s, %s); }" % (l, t, l, g, t, neg, g, t, t)]

def getprec(e, fprecs):
    """mpirxx.h get_prec() of an expression, as C source"""
    if isinstance(e, Var): return "mpf_get_prec(Fc[%d])" % e.i if e.ty == "f" else "mpf_get_default_prec()"
    if isinstance(e, (Un, Sh)): return getprec(e.a, fprecs)
    cl = [x for x in (e.a, e.b) if not isinstance(x, Bi)]
    if len(cl) == 1: return getprec(cl[0], fprecs)
    if e.ty == "q" and e.op in ("add", "sub") and {e.a.ty, e.b.ty} == {"z", "q"}: return "mpf_get_default_prec()"
    return "pmax(%s, %s)" % (getprec(e.a, fprecs), getprec(e.b, fprecs))

def cmp_code(cr, a, b):
    """C code computing the sign of (a ? b) into `cres` for a comparison.  Each class operand that is not
    already an object of the comparison type becomes a temporary of its own get_prec()."""
    def side(x):
        if isinstance(x, Bi): return None
        cr.fprec = getprec(x, None)
        return cr.ev(x)
    A, Bv = side(a), side(b)
    if A and Bv:
        T = max(A[1], Bv[1], key=lambda t: RANK[t])
        cr.fprec = getprec(a, None); x = cr.conv(A[0], A[1], T)
        cr.fprec = getprec(b, None); y = cr.conv(Bv[0], Bv[1], T)
        cr.code.append("cres = mp%s_cmp(%s, %s);" % (T, x, y)); return
    obj, ty = A or Bv; bi = b if A else a; sign = "" if A else "-"
    if bi.kind == "d" and ty == "q":
        t = cr.bi(bi, "q"); cr.code.append("cres = %smpq_cmp(%s, %s);" % (sign, obj, t)); return
    suffix = {"i": "si", "u": "ui", "d": "d"}[bi.kind]
    extra = ", 1" if ty == "q" else ""
    cr.code.append("cres = %smp%s_cmp_%s(%s, %s%s);" % (sign, ty, suffix, obj, bi.cxx(), extra))

def cref_code(st, which="cref"):
    """C reference for a statement: list of C lines and the result descriptor ('obj', name, ty) / ('int',)"""
    if st.kind in ("assign", "init"):
        tty = st.tgt[0] if st.kind == "assign" else st.ty
        if st.kind == "assign": dst = "%sc[%d]" % (tty.upper(), st.tgt[1])
        else: dst = "N%s" % tty.upper()
        if tty == "f" and st.kind == "assign": fprec = "mpf_get_prec(%s)" % dst
        else: fprec = "cprec"
        cr = CRef(fprec)
        pre = []
        if st.e.ty == "f" or tty == "f": pre.append("cprec = %s;" % (getprec(st.e, None) if not (tty == "f" and st.kind == "assign") else fprec))
        if st.kind == "init" and tty == "f": pre.append("mpf_set_prec(NF, cprec);")
        n, ty = cr.ev(st.e)
        cr.code.append("%s(%s, %s);" % (SETCONV[(tty, ty)], dst, n))
        return pre + cr.code, ("obj", dst, tty)
    if st.kind in ("compound", "mixed", "compoundsh"):
        tty, i = st.tgt; dst = "%sc[%d]" % (tty.upper(), i)
        v = Var(tty, i)
        if st.kind == "compoundsh": e = Sh(st.op, v, st.n)
        elif which == "cconv" and not isinstance(st.r, Bi):
            # right operand converted to the left type first, then the C function
            cr = CRef("mpf_get_prec(%s)" % dst if tty == "f" else "cprec")
            pre = ["cprec = %s;" % getprec(st.r, None)] if st.r.ty == "f" else []
            n, ty = cr.ev(st.r); c = cr.conv(n, ty, tty); t = cr.tmp(tty)
            cr.code.append("%s(%s, %s, %s);" % (CFN[(tty, st.op)], t, dst, c))
            cr.code.append("%s(%s, %s);" % (SETCONV[(tty, tty)], dst, t))
            return pre + cr.code, ("obj", dst, tty)
        else: e = Bin(st.op, v, st.r)
        fprec = "mpf_get_prec(%s)" % dst if tty == "f" else "cprec"
        cr = CRef(fprec); pre = []
        if e.ty == "f" and tty != "f": pre.append("cprec = %s;" % getprec(e, None))
        n, ty = cr.ev(e)
        cr.code.append("%s(%s, %s);" % (SETCONV[(tty, ty)], dst, n))
        return pre + cr.code, ("obj", dst, tty)
    if st.kind == "incr":
        tty, i = st.tgt; dst = "%sc[%d]" % (tty.upper(), i)
        f = "add" if "inc" in st.op else "sub"
        if tty == "z": code = ["mpz_%s_ui(TZ[0], %s, 1); mpz_set(%s, TZ[0]);" % (f, dst, dst)]
        elif tty == "q": code = ["mpq_set_ui(TQ[0], 1, 1); mpq_%s(TQ[1], %s, TQ[0]); mpq_set(%s, TQ[1]);" % (f, dst, dst)]
        else: code = ["mpf_set_prec(TF[0], mpf_get_prec(%s)); mpf_%s_ui(TF[0], %s, 1); mpf_set(%s, TF[0]);" % (dst, f, dst, dst)]
        return code, ("obj", dst, tty)
    if st.kind == "cmp":
        cr = CRef("cprec")
        cmp_code(cr, st.a, st.b)
        expr = {"eq": "cres == 0", "ne": "cres != 0", "lt": "cres < 0", "le": "cres <= 0", "gt": "cres > 0", "ge": "cres >= 0",
                "cmp": "(cres > 0) - (cres < 0)"}[st.op]
        cr.code.append("ires = %s;" % expr)
        return cr.code, ("int",)
    if st.kind == "sgn":
        cr = CRef(getprec(st.a, None))
        n, ty = cr.ev(st.a); cr.code.append("ires = mp%s_sgn(%s);" % (ty, n))
        return cr.code, ("int",)
    if st.kind in ("acc", "init2"): import cxxacc; return cxxacc.stmt_cref(st)
    raise ValueError(st.kind)

# ---------------------------------------------------------------- values
def dbits(x): return struct.unpack("<Q", struct.pack("<d", float(x)))[0]
def fbits_ok(x):
    try: return struct.unpack("<f", struct.pack("<f", x))[0] == x
    except OverflowError: return False

Z_SPECIAL = [0, 1, -1, 2, -2, 3, 7, -8, LONG_MAX, LONG_MIN, LONG_MAX + 1, LONG_MIN - 1, ULONG_MAX, ULONG_MAX + 1, -ULONG_MAX, 1 << 32, -(1 << 31), 1 << 31,
             (1 << 64) + 1, 1 << 127, -(1 << 128), (1 << 128) - 1, 255, 256, 65535, -129]
SI_SPECIAL = [0, 1, -1, 2, -2, 3, -3, 4, -4, 8, 7, 127, -128, 32767, -32768, (1 << 31) - 1, -(1 << 31), LONG_MAX, LONG_MIN, LONG_MIN + 1, 1 << 62, -(1 << 62), 10, 12, 100]
UI_SPECIAL = [0, 1, 2, 3, 4, 8, 255, 65535, (1 << 32) - 1, 1 << 32, 1 << 63, ULONG_MAX, ULONG_MAX - 1, LONG_MAX, 10, 12, 16, 1 << 40, 6]
D_SPECIAL = [0.0, 1.0, -1.0, 2.0, -2.0, 3.0, 2.5, -2.5, 0.5, -0.5, 0.75, 1e20, -1e20, 2.0 ** 53, 2.0 ** 63, -(2.0 ** 63), 2.0 ** 64, 2.0 ** 100, 1.0 / 1024, 7.0, 12.0,
             -0.0, 4.0, 8.0, 1e-3, 123456789.0, 2.0 ** 31, -(2.0 ** 31),
             2.0 ** 959, 2.0 ** 960, -(2.0 ** 960), 2.0 ** 1000, 1e300, 1.7976931348623157e308, -1.7976931348623157e308]      # the largest doubles: 15..16 limbs in the stack temporaries of mpirxx.h

def rand_z(rng):
    r = rng.random()
    if r < 0.35: return rng.choice(Z_SPECIAL)
    if r < 0.6: return rng.randrange(-40, 41)
    bits = rng.choice([30, 62, 63, 64, 65, 100, 128, 129, 200, 260])
    v = rng.getrandbits(bits)
    if rng.random() < 0.3: v = (1 << bits) - 1 - rng.randrange(3) if bits > 2 else v
    return -v if rng.random() < 0.45 else v

def gcd(a, b):
    while b: a, b = b, a % b
    return abs(a)

def rand_q(rng):
    r = rng.random()
    if r < 0.15: n, d = rng.choice(Z_SPECIAL), 1
    elif r < 0.5: n, d = rng.randrange(-30, 31), rng.randrange(1, 13)
    elif r < 0.6: n, d = rng.choice([1, -1, 3, -5]), 1 << rng.choice([1, 3, 63, 64, 65, 128])
    else: n, d = rand_z(rng), abs(rand_z(rng)) or 1
    g = gcd(n, d) or 1
    return (n // g, d // g)

def rand_f(rng):
    """(mantissa, exp2, prec)"""
    prec = rng.choice([64, 64, 128, 192, 256, 100])
    r = rng.random()
    if r < 0.3: m, e = rng.randrange(-50, 51), rng.choice([0, 0, -1, -3, 5])
    elif r < 0.4: m, e = 0, 0
    else: m, e = rand_z(rng), rng.choice([0, -7, -64, -65, 30, 64, -130, 3])
    return (m, e, prec)

def rand_bi(rng, ctype, hint=None):
    lo_hi = RANGE.get(ctype)
    if lo_hi:
        lo, hi = lo_hi
        pool = [v for v in (SI_SPECIAL if lo < 0 else UI_SPECIAL) if lo <= v <= hi]
        r = rng.random()
        if r < 0.6: return rng.choice(pool)
        if r < 0.8: return rng.randrange(max(lo, -50), min(hi, 50) + 1)
        return rng.randrange(lo, hi + 1)
    pool = D_SPECIAL if ctype == "double" else [v for v in D_SPECIAL if fbits_ok(v)]
    r = rng.random()
    if r < 0.6: return rng.choice(pool)
    if r < 0.8: return float(rng.randrange(-1000, 1000))
    if ctype == "float": return float(rng.randrange(-(1 << 20), 1 << 20)) / rng.choice([1, 2, 8, 1024])
    return rng.choice([-1, 1]) * rng.getrandbits(53) * 2.0 ** rng.randrange(-60, 80)

class VS:
    """one value set: contents of Z[0..3], Q[0..2], F[0..2] and the built-in operands of the statement"""
    def __init__(s, z, q, f, b): s.z, s.q, s.f, s.b = z, q, f, b

def valsets(rng, st, k):
    """k value sets for a statement; the first ones are directed at the rare branches of the built-in fast paths"""
    bis = st.builtins(); out = []
    needs_shift = [isinstance(t, Sh) for t in st.trees()]
    def shiftslots():
        ss = set()
        def walk(t):
            if isinstance(t, Sh): ss.add(t.n.slot); walk(t.a)
            elif isinstance(t, Un): walk(t.a)
            elif isinstance(t, Bin): walk(t.a); walk(t.b)
        for t in st.trees(): walk(t)
        if st.kind == "compoundsh": ss.add(st.n.slot)
        return ss
    sh = shiftslots()
    for j in range(k):
        z = [rand_z(rng) for _ in range(NZ)]; q = [rand_q(rng) for _ in range(NQ)]; f = [rand_f(rng) for _ in range(NF)]
        b = []
        for bi in bis:
            if bi.slot in sh: b.append(rng.choice([0, 1, 2, 3, 7, 31, 32, 63, 64, 65, 127, 128, 130, rng.randrange(0, 200)]) if bi.ctype != "unsigned char" else rng.choice([0, 1, 63, 64, 200]))
            else: b.append(rand_bi(rng, bi.ctype))
        if j == 0 and bis and not sh:
            # directed: extreme built-in against the values that make the si/ui fast paths special
            for bi in bis:
                if bi.ctype == "long": b[bi.slot] = rng.choice([LONG_MIN, LONG_MIN, LONG_MAX, -1])
                elif bi.ctype == "unsigned long": b[bi.slot] = rng.choice([ULONG_MAX, 1 << 63, 0])
                elif bi.ctype == "int": b[bi.slot] = rng.choice([-(1 << 31), -1, 0])
            z = [rng.choice([-1, 1, LONG_MIN, -LONG_MIN, LONG_MAX, ULONG_MAX, -ULONG_MAX, 0, LONG_MIN - 1, ULONG_MAX + 1]) for _ in range(NZ)]
        for bi in bis:
            if bi.lit is not None: b[bi.slot] = bi.lit
        if j == 1:
            z = [rng.choice([0, 1, -1, 2]) for _ in range(NZ)]; q = [(rng.choice([0, 1, -1, 1]), rng.choice([1, 2])) for _ in range(NQ)]
            q = [(n // (gcd(n, d) or 1), d // (gcd(n, d) or 1)) for n, d in q]
        out.append(VS(z, q, f, b))
    return out

# ---------------------------------------------------------------- program text
PRELUDE = r'''
#include <mpirxx.h>
#include <climits>
#include <csignal>
#include <csetjmp>
#include <cstdio>
#include <cstring>
#include <cstdlib>
#include <string>
#include <sstream>
#include <iomanip>
#include <stdint.h>
struct VS { const char *z[4]; const char *q[3]; const char *fm[3]; long fe[3]; unsigned long fp[3]; long si[4]; unsigned long ui[4]; uint64_t d[4]; };
static sigjmp_buf jb;
static void on_fpe(int) { siglongjmp(jb, 1); }
static mpz_class Z[4]; static mpq_class Q[3]; static mpf_class F[3];
static mpz_t Zc[4], TZ[24], NZ; static mpq_t Qc[3], TQ[24], NQ; static mpf_t Fc[3], TF[24], NF;
static int ires, cres; static unsigned long cprec;
static unsigned long pmax(unsigned long a, unsigned long b) { return a > b ? a : b; }
static double bits2d(uint64_t b) { double d; memcpy(&d, &b, 8); return d; }
/* hand-written printers over the C structs */
static void pr_limbs(const mp_limb_t *p, long n) {
  while (n > 0 && p[n - 1] == 0) n--;
  if (n == 0) { printf("0"); return; }
  printf("%lx", (unsigned long) p[n - 1]);
  for (long i = n - 2; i >= 0; i--) printf("%016lx", (unsigned long) p[i]);
}
static void pr_z(mpz_srcptr z) {
  long n = z->_mp_size < 0 ? -(long) z->_mp_size : z->_mp_size;
  if (n > 0 && z->_mp_d[n - 1] == 0) { printf(" !malformed"); return; }
  if (n > z->_mp_alloc) { printf(" !malformed"); return; }
  printf(" "); if (z->_mp_size < 0) printf("-"); pr_limbs(z->_mp_d, n);
}
static void pr_q(mpq_srcptr q) { pr_z(mpq_numref(q)); pr_z(mpq_denref(q)); }
static void pr_f(mpf_srcptr f) {
  long n = f->_mp_size < 0 ? -(long) f->_mp_size : f->_mp_size;
  const mp_limb_t *p = f->_mp_d;
  if (n > 0 && p[n - 1] == 0) { printf(" !malformed"); return; }
  if (n > f->_mp_prec + 1) { printf(" !malformed"); return; }
  long e = f->_mp_exp;
  while (n > 0 && p[0] == 0) { p++; n--; }
  /* value = mantissa * 2^(64*(exp - n)) */
  long n0 = f->_mp_size < 0 ? -(long) f->_mp_size : f->_mp_size;      /* with prec and |size| the four tokens determine the object limb for limb */
  if (n == 0) { printf(" 0 0 %lx %lx", (unsigned long) f->_mp_prec, (unsigned long) n0); return; }
  printf(" "); if (f->_mp_size < 0) printf("-"); pr_limbs(p, n);
  long s = e - n0; if (s < 0) printf(" -%lx", (unsigned long) -s); else printf(" %lx", (unsigned long) s);
  printf(" %lx %lx", (unsigned long) f->_mp_prec, (unsigned long) n0);
}
static void pr_bytes(const std::string &s) { printf(" s"); for (size_t i = 0; i < s.size(); i++) printf("%02x", (unsigned char) s[i]); }
static void setenv_vs(const VS *v) {
  for (int i = 0; i < 4; i++) { mpz_set_str(Zc[i], v->z[i], 16); mpz_set_str(Z[i].get_mpz_t(), v->z[i], 16); }
  for (int i = 0; i < 3; i++) { mpq_set_str(Qc[i], v->q[i], 16); mpq_set_str(Q[i].get_mpq_t(), v->q[i], 16); }
  for (int i = 0; i < 3; i++) {
    mpf_ptr fs[2] = { Fc[i], F[i].get_mpf_t() };
    for (int j = 0; j < 2; j++) {
      mpf_set_prec(fs[j], v->fp[i]); mpz_set_str(TZ[0], v->fm[i], 16); mpf_set_z(fs[j], TZ[0]);
      if (v->fe[i] >= 0) mpf_mul_2exp(fs[j], fs[j], v->fe[i]); else mpf_div_2exp(fs[j], fs[j], -v->fe[i]);
    }
  }
}
/* every variable except the target must still have its initial value */
static void chk(int tty, int ti) {
  int bad = 0;
  for (int i = 0; i < 4; i++) if (!(tty == 'z' && ti == i) && mpz_cmp(Z[i].get_mpz_t(), Zc[i]) != 0) bad = 1;
  for (int i = 0; i < 3; i++) if (!(tty == 'q' && ti == i) && (mpz_cmp(mpq_numref(Q[i].get_mpq_t()), mpq_numref(Qc[i])) != 0 || mpz_cmp(mpq_denref(Q[i].get_mpq_t()), mpq_denref(Qc[i])) != 0)) bad = 1;
  for (int i = 0; i < 3; i++) if (!(tty == 'f' && ti == i) && (mpf_cmp(F[i].get_mpf_t(), Fc[i]) != 0 || mpf_get_prec(F[i].get_mpf_t()) != mpf_get_prec(Fc[i]))) bad = 1;
  if (bad) printf(" !clobber");
}
static void init_all() {
  signal(SIGFPE, on_fpe);
  for (int i = 0; i < 4; i++) mpz_init(Zc[i]);
  for (int i = 0; i < 3; i++) { mpq_init(Qc[i]); mpf_init(Fc[i]); }
  for (int i = 0; i < 24; i++) { mpz_init(TZ[i]); mpq_init(TQ[i]); mpf_init(TF[i]); }
  mpz_init(NZ); mpq_init(NQ); mpf_init(NF);
}
'''

def c_lit_si(v): return "(-%dL - 1)" % (-(v + 1)) if v < 0 else "%dL" % v
def vs_init(vs):
    zs = ", ".join('"%s"' % hx(v) for v in vs.z)
    qs = ", ".join('"%s/%s"' % (hx(n), hx(d)) for n, d in vs.q)
    fm = ", ".join('"%s"' % hx(m) for m, e, p in vs.f); fe = ", ".join(c_lit_si(e) for m, e, p in vs.f); fp = ", ".join("%dUL" % p for m, e, p in vs.f)
    si = [0] * NB; ui = [0] * NB; d = [0] * NB
    return zs, qs, fm, fe, fp, si, ui, d

def emit_case(st, sid, vss):
    """C++ text of one statement function + its value table"""
    L = []
    bis = st.builtins()
    rows = []
    for vs in vss:
        zs, qs, fm, fe, fp, si, ui, d = vs_init(vs)
        for b in bis:
            v = vs.b[b.slot]
            if b.kind == "i": si[b.slot] = v
            elif b.kind == "u": ui[b.slot] = v
            else: d[b.slot] = dbits(v)
        rows.append("  { {%s}, {%s}, {%s}, {%s}, {%s}, {%s}, {%s}, {%s} }" % (zs, qs, fm, fe, fp, ", ".join(c_lit_si(x) for x in si),
                    ", ".join("%dUL" % x for x in ui), ", ".join("0x%xULL" % x for x in d)))
    L.append("static const VS vs_%d[] = {\n%s\n};" % (sid, ",\n".join(rows)))
    L.append("static void case_%d(const VS *v, int k) {" % sid)
    for b in bis:
        src = {"i": "v->si[%d]", "u": "v->ui[%d]", "d": "bits2d(v->d[%d])"}[b.kind] % b.slot
        if b.lit is None: L.append("  %s b%d = (%s) %s; (void) b%d;" % (b.ctype, b.slot, b.ctype, src, b.slot))
    src, res = st.cxx()
    def printer(res, cxxside):
        if res[0] == "int": return 'printf(" %s%x", ires < 0 ? "-" : "", ires < 0 ? -ires : ires);'
        if res[0] == "var":
            ty, i = res[1], res[2]
            obj = "%s[%d].get_mp%s_t()" % (ty.upper(), i, ty) if cxxside else "%sc[%d]" % (ty.upper(), i)
            return "pr_%s(%s);%s" % (ty, obj, (" chk('%s', %d);" % (ty, i)) if cxxside else "")
        if res[0] == "new":
            ty = res[1]
            return "pr_%s(nw.get_mp%s_t()); chk(0, 0);" % (ty, ty)
        if res[0] == "obj": return "pr_%s(%s);" % (res[2], res[1])
    L.append("  setenv_vs(v);")
    L.append('  printf("cxx %d %%d", k);' % sid)
    L.append("  if (!sigsetjmp(jb, 1)) { %s %s } else printf(\" !fpe\");" % (src, printer(res, True)))
    L.append('  printf("\\n");')
    for which in (["cref", "cconv"] if st.kind == "mixed" else ["cref"]):
        code, cres = cref_code(st, which)
        if which == "cconv": L.append("  setenv_vs(v);")
        L.append('  printf("%s %d %%d", k);' % (which, sid))
        L.append("  if (!sigsetjmp(jb, 1)) {\n    %s\n    %s\n  } else printf(\" !fpe\");" % ("\n    ".join(code), printer(cres, False)))
        L.append('  printf("\\n");')
    L.append("}")
    return "\n".join(L)

def emit_program(cases):
    """cases: list of (sid, stmt, [VS]) -> C++ source"""
    parts = ['#include "cxxh.h"']
    for sid, st, vss in cases:
        parts.append("// %s" % st.cxx()[0])
        parts.append(st.custom_case(sid, vss) if st.kind == "io" else emit_case(st, sid, vss))
    parts.append("int main() {\n  init_all();")
    for sid, st, vss in cases:
        parts.append("  for (int k = 0; k < %d; k++) case_%d(&vs_%d[k], k);" % (len(vss), sid, sid))
    parts.append("  return 0;\n}")
    return "\n".join(parts) + "\n"

def op_line(st, vs):
    """the Lean driver op line for (statement, value set)"""
    toks = ["cxx_acc" if st.kind in ("acc", "init2") else "cxx_evalf" if st.isf() else "cxx_eval", "s" + st.pre().encode().hex()]
    toks += [hx(v) for v in vs.z]
    for n, d in vs.q: toks += [hx(n), hx(d)]
    if st.isf():
        for m, e, p in vs.f: toks += [hx(m), hx(e), hx(p)]
    for b in st.builtins():
        v = vs.b[b.slot]
        toks.append(hx(dbits(v)) if b.kind == "d" else hx(v))
    return " ".join(toks)

# ---------------------------------------------------------------- compile / run
CXX_SRCS = ["osmpz.cc", "osmpq.cc", "osmpf.cc", "osfuns.cc", "osdoprnti.cc", "ismpz.cc", "ismpq.cc", "ismpf.cc", "ismpznw.cc", "isfuns.cc"]

class CompileError(Exception): pass

def cxx_objects(build, run):
    """compile cxx/*.cc of the scratch build once; returns the object paths"""
    d = os.path.join(build, "cxxobj"); os.makedirs(d, exist_ok=True)
    objs = []
    for f in CXX_SRCS:
        o = os.path.join(d, f[:-3] + ".o"); objs.append(o)
        if not os.path.exists(o):
            rc, out = run("g++ -O0 -w -I%s -I%s/cxx -DHAVE_CONFIG_H -c %s/cxx/%s -o %s.tmp && mv %s.tmp %s" % (build, build, build, f, o, o, o))
            if rc != 0: raise CompileError("cxx/%s does not compile:\n%s" % (f, out[-3000:]))
    return objs

def build_and_run(build, workdir, name, src, objs, opt="-O0", timeout=900):
    cc = os.path.join(workdir, name + ".cc"); exe = os.path.join(workdir, name)
    open(cc, "w").write(src)
    p = subprocess.run("g++ %s -w -fno-var-tracking -I%s -I%s %s %s %s/.libs/libmpir.a -o %s" % (opt, build, workdir, cc, " ".join(objs), build, exe),
                       shell=True, stdout=subprocess.PIPE, stderr=subprocess.STDOUT, timeout=timeout)
    if p.returncode != 0:
        raise CompileError("generated program %s does not compile (generator bug):\n%s" % (cc, p.stdout.decode("utf-8", "replace")[-4000:]))
    r = subprocess.run([exe], stdout=subprocess.PIPE, stderr=subprocess.PIPE, timeout=timeout)
    out = r.stdout.decode("utf-8", "replace").split("\n")
    return r.returncode, [l for l in out if l], r.stderr.decode("utf-8", "replace")

def run_programs(build, workdir, programs, objs, opt="-O0", jobs=16):
    """programs: {name: source}.  Returns {name: (rc, lines, stderr)}"""
    open(os.path.join(workdir, "cxxh.h"), "w").write(PRELUDE)
    res = {}
    with concurrent.futures.ThreadPoolExecutor(max_workers=jobs) as ex:
        futs = {ex.submit(build_and_run, build, workdir, n, s, objs, opt): n for n, s in programs.items()}
        for f in concurrent.futures.as_completed(futs):
            res[futs[f]] = f.result()
    return res

# ---------------------------------------------------------------- enumeration
MAIN_BI = ["int", "unsigned", "long", "unsigned long", "double"]
MINOR_BI = ["signed char", "short", "unsigned char", "unsigned short", "float"]
NSLOT = {"z": NZ, "q": NQ, "f": NF}

class Hole:
    """class-typed leaf whose slot is chosen by the alias pattern"""
    depth = 0
    def __init__(s, ty): s.ty = ty

def fill(t, slots, it):
    """copy of tree t with Hole k replaced by Var(ty, slots[k]) (holes numbered in prefix order)"""
    if isinstance(t, Hole): return Var(t.ty, slots[next(it)])
    if isinstance(t, Bi): return Bi(t.ctype, t.lit)
    if isinstance(t, Acc): return Acc(t.qi, t.den)
    if isinstance(t, Var): return Var(t.ty, t.i)
    if isinstance(t, Un): return Un(t.op, fill(t.a, slots, it))
    if isinstance(t, Sh): return Sh(t.op, fill(t.a, slots, it), Bi(t.n.ctype, t.n.lit))
    return Bin(t.op, fill(t.a, slots, it), fill(t.b, slots, it))

def holes(t):
    if isinstance(t, Hole): return [t]
    if isinstance(t, (Bi, Var)): return []
    if isinstance(t, (Un, Sh)): return holes(t.a)
    return holes(t.a) + holes(t.b)

def alias_variants(shape, tty, full=True):
    """yield (tree, target slot, tag) for the alias patterns of a shape assigned to a target of type tty"""
    hs = holes(shape); n = len(hs)
    def distinct(avoid=None):
        cnt = {"z": 0, "q": 0, "f": 0}; out = []
        for h in hs:
            k = cnt[h.ty]
            if avoid is not None and h.ty == tty and k >= avoid: k += 1
            out.append(k % NSLOT[h.ty]); cnt[h.ty] += 1
        return out
    # (a) target not in the tree: slot 0 is the target, leaves use slots 1..
    used = sum(1 for h in hs if h.ty == tty)
    if used < NSLOT[tty]:
        sl = distinct(avoid=0)
        yield fill(shape, sl, iter(range(n))), 0, "none"
    # (b) target = j-th leaf of its type
    same = [j for j, h in enumerate(hs) if h.ty == tty]
    for j in (same if full else same[:1] + same[-1:]):
        sl = distinct(); yield fill(shape, sl, iter(range(n))), sl[j], "leaf%d" % j
    # (c) every leaf of the target's type is the target
    if len(same) >= 2:
        sl = distinct()
        for j in same: sl[j] = 0
        yield fill(shape, sl, iter(range(n))), 0, "all"
    # (d) all leaves of one type share a slot, target different
    if len(same) >= 2 and full:
        sl = distinct()
        for j in same: sl[j] = 1
        yield fill(shape, sl, iter(range(n))), 0, "same-operands"

def leafshapes(T, bis):
    """operand shape pairs (a, b) for a depth-1 binary node of type T"""
    out = [(Hole(T), Hole(T))]
    if T == "q": out += [(Hole("q"), Hole("z")), (Hole("z"), Hole("q"))]
    if T == "f": out += [(Hole("f"), Hole("z")), (Hole("z"), Hole("f")), (Hole("f"), Hole("q")), (Hole("q"), Hole("f"))]
    for c in bis: out += [(Hole(T), Bi(c)), (Bi(c), Hole(T))]
    return out

def depth1_shapes(T, bis):
    out = []
    for op in binops(T):
        for a, b in leafshapes(T, bis): out.append(Bin(op, a, b))
    for op in unops(T): out.append(Un(op, Hole(T)))
    for op in ("shl", "shr"):
        for c in ("unsigned long", "int"): out.append(Sh(op, Hole(T), Bi(c)))
    return out

def rot(lst, state, key):
    """deterministic rotation through a list (so that every element is used repeatedly)"""
    i = state.get(key, 0); state[key] = i + 1
    return lst[i % len(lst)]

def clone(t): return fill(t, None, None) if not holes(t) else _clone(t)
def _clone(t):
    if isinstance(t, Hole): return Hole(t.ty)
    if isinstance(t, Bi): return Bi(t.ctype)
    if isinstance(t, Un): return Un(t.op, _clone(t.a))
    if isinstance(t, Sh): return Sh(t.op, _clone(t.a), Bi(t.n.ctype))
    return Bin(t.op, _clone(t.a), _clone(t.b))

def rand_shape(rng, T, depth, bis):
    """random well-typed shape of type T and exactly the given depth"""
    if depth == 0: return Hole(T)
    r = rng.random()
    if r < 0.12: return Un(rng.choice(unops(T)), rand_shape(rng, T, depth - 1, bis))
    if r < 0.2: return Sh(rng.choice(["shl", "shr"]), rand_shape(rng, T, depth - 1, bis), Bi(rng.choice(["unsigned long", "int", "unsigned"])))
    # binary: one child has depth-1, the other anything smaller-or-equal, possibly a built-in or a lower type
    def child(d, allow_bi):
        if allow_bi and rng.random() < 0.3: return Bi(rng.choice(bis))
        lower = [t for t in ("z", "q", "f") if RANK[t] <= RANK[T]]
        ty = T if rng.random() < 0.6 else rng.choice(lower)
        return rand_shape(rng, ty, d, bis)
    ops = ZBIN if T == "z" else QBIN
    op = rng.choice(ops)
    if T == "f" and rng.random() < 0.08: op = "hypot"
    big = rand_shape(rng, T if rng.random() < 0.7 or T == "z" else rng.choice([t for t in ("z", "q", "f") if RANK[t] <= RANK[T]]), depth - 1, bis)
    other = child(rng.randrange(0, depth), True)
    a, b = (big, other) if rng.random() < 0.5 else (other, big)
    e = Bin(op, a, b)
    if e.ty != T:       # both children came out lower-typed: force the type with a T leaf
        e = Bin(op, e, Hole(T)) if op in binops(T) else Bin("add", e, Hole(T))
    if e.ty != "z" and any(o in ("mod", "and", "ior", "xor", "gcd", "lcm") for o in [e.op]): e.op = "add"
    return e

def welltyped(t):
    if isinstance(t, (Hole, Var, Bi)): return True
    if isinstance(t, Un): return t.op in unops(t.ty) and welltyped(t.a)
    if isinstance(t, Sh): return welltyped(t.a)
    if t.a.ty is None and t.b.ty is None: return False
    if t.op == "hypot" and t.ty != "f": return False            # hypot exists for mpf results only
    if t.ty != "z" and t.op not in (FBIN if t.ty == "f" else QBIN): return False
    return welltyped(t.a) and welltyped(t.b)

def statements(rng, tier):
    """the list of statements of a run (deterministic given rng and tier)"""
    S = []; st = {}
    thorough = tier == "thorough"
    def add(kind, tags=(), **kw):
        s = Stmt(kind, tags=tags, **kw); S.append(s); return s
    # ---- depth 0 and depth 1: exhaustive over operator x leaf kind x alias choice x target type
    for T in ("z", "q"):
        for tty in ("z", "q"):
            for tree, tgt, tag in alias_variants(Hole(T), tty): add("assign", tgt=(tty, tgt), e=tree, tags=("d0", "alias:" + tag))
        for shape in depth1_shapes(T, MAIN_BI):
            for tty in ("z", "q"):
                for tree, tgt, tag in alias_variants(shape, tty):
                    if tty != T and tag not in ("none", "leaf0") and not thorough and rng.random() < 0.5: continue
                    add("assign", tgt=(tty, tgt), e=tree, tags=("d1", "alias:" + tag))
        for shape in depth1_shapes(T, MINOR_BI):
            if not holes(shape) or not builtins(shape): continue
            if isinstance(shape, Sh): continue
            if not thorough and rng.random() < 0.5: continue
            tree, tgt, tag = rng.choice(list(alias_variants(shape, T)))
            add("assign", tgt=(T, tgt), e=tree, tags=("d1", "minor-builtin", "alias:" + tag))
    # ---- depth 2: exhaustive over outer operator x child class x alias pattern; inner shapes rotate
    inner = {T: [s for s in depth1_shapes(T, MAIN_BI)] for T in ("z", "q")}
    for T in ("z", "q"): rng.shuffle(inner[T])
    def E(T): return _clone(rot(inner[T], st, T))
    classes = {"Lz": lambda: Hole("z"), "Lq": lambda: Hole("q"), "i": lambda: Bi(rot(["int", "long"], st, "i")), "u": lambda: Bi(rot(["unsigned", "unsigned long"], st, "u")),
               "d": lambda: Bi("double"), "Ez": lambda: E("z"), "Eq": lambda: E("q")}
    cty = {"Lz": "z", "Lq": "q", "i": None, "u": None, "d": None, "Ez": "z", "Eq": "q"}
    reps = 6 if thorough else 1
    for _ in range(reps):
        for ca in classes:
            for cb in classes:
                if not (ca[0] == "E" or cb[0] == "E"): continue
                tys = [t for t in (cty[ca], cty[cb]) if t]
                T = "q" if "q" in tys else "z"
                for op in binops(T):
                    shape = Bin(op, classes[ca](), classes[cb]())
                    for tty in ("z", "q"):
                        if tty != T and not thorough and rng.random() < 0.7: continue
                        for tree, tgt, tag in alias_variants(shape, tty, full=thorough):
                            add("assign", tgt=(tty, tgt), e=tree, tags=("d2", "alias:" + tag, "class:%s,%s" % (ca, cb)))
        for T in ("z", "q"):
            for op in unops(T):
                for tree, tgt, tag in alias_variants(Un(op, E(T)), T, full=thorough): add("assign", tgt=(T, tgt), e=tree, tags=("d2", "alias:" + tag))
            for op in ("shl", "shr"):
                for tree, tgt, tag in alias_variants(Sh(op, E(T), Bi("unsigned long")), T, full=thorough): add("assign", tgt=(T, tgt), e=tree, tags=("d2", "alias:" + tag))
    # ---- depth 2, every (outer op, inner op, side) pair
    for T in ("z", "q"):
        for op in binops(T):
            for iop in binops(T) + unops(T) + ["shl", "shr"]:
                for side in (0, 1):
                    ish = Bin(iop, Hole(T), rng.choice([Hole(T), Bi(rng.choice(MAIN_BI))])) if iop in binops(T) else Un(iop, Hole(T)) if iop in unops(T) else Sh(iop, Hole(T), Bi("unsigned long"))
                    o = rng.choice([Hole(T), Hole(T), Bi(rng.choice(MAIN_BI))])
                    shape = Bin(op, ish, o) if side == 0 else Bin(op, o, ish)
                    v = list(alias_variants(shape, T)); tree, tgt, tag = rng.choice(v)
                    add("assign", tgt=(T, tgt), e=tree, tags=("d2", "oppair", "alias:" + tag))
    # ---- depth 3, exhaustive slices (thorough): every operator triple on a left-nested and on a right-nested chain of leaves,
    #      the target being the innermost leaf
    if thorough:
        for T in ("z", "q"):
            ops = binops(T)
            for o1 in ops:
                for o2 in ops:
                    for o3 in ops:
                        for left in (True, False):
                            inn = Bin(o3, Hole(T), Hole(T))
                            mid = Bin(o2, inn, Hole(T)) if left else Bin(o2, Hole(T), inn)
                            shape = Bin(o1, mid, Hole(T)) if left else Bin(o1, Hole(T), mid)
                            hs = holes(shape); n = len(hs)
                            sl = [1, 2, 0, 1] if T == "q" else [1, 2, 3, 1]
                            tgt = sl[0] if left else sl[2]          # an innermost leaf of the chain
                            add("assign", tgt=(T, tgt), e=fill(shape, sl, iter(range(n))), tags=("d3", "slice", "alias:inner-leaf"))
    # ---- depth 3 and 4: sampled (thorough: many more)
    for d, n in ((3, 20000 if thorough else 500), (4, 10000 if thorough else 250)):
        k = 0
        while k < n:
            T = rng.choice(["z", "z", "q"])
            shape = rand_shape(rng, T, d, MAIN_BI + (MINOR_BI if rng.random() < 0.2 else []))
            if not welltyped(shape) or len(holes(shape)) == 0 or len(builtins(shape)) > NB: continue
            if sum(1 for h in holes(shape) if h.ty == "f"): continue
            tty = T if rng.random() < 0.8 else rng.choice(["z", "q"])
            v = list(alias_variants(shape, tty, full=False))
            if not v: continue
            tree, tgt, tag = rng.choice(v)
            add("assign", tgt=(tty, tgt), e=tree, tags=("d%d" % d, "alias:" + tag)); k += 1
    # ---- compound assignments (same type or built-in right operand, and mpq op= mpz-typed)
    for T in ("z", "q"):
        for op in binops(T):
            if op in ("gcd", "lcm"): continue
            rhs = [Var(T, 1), Var(T, 0)] + [Bi(c) for c in MAIN_BI] + [fill(E(T), [1, 2, 3, 1], iter(range(4))), fill(E(T), [0, 1, 0, 0], iter(range(4)))]
            if T == "q": rhs += [Var("z", 0), fill(E("z"), [0, 1, 2, 3], iter(range(4)))]
            if thorough: rhs += [Bi(c) for c in MINOR_BI] + [fill(rand_shape(rng, T, 2, MAIN_BI), [0, 1, 2, 0, 1, 2, 0, 1], iter(range(8))) for _ in range(3)]
            for r in rhs:
                if not welltyped(r) or len(builtins(r)) > NB: continue
                add("compound", op=op, tgt=(T, 0), r=r, tags=("compound",))
        for op in ("shl", "shr"): add("compoundsh", op=op, tgt=(T, 0), n=Bi("unsigned long"), tags=("compound",))
        for op in ("preinc", "predec", "postinc", "postdec"): add("incr", op=op, tgt=(T, 1), tags=("compound",))
    # ---- the known finding: mixed-type compound assignment (fixed set)
    for op in QBIN:
        add("mixed", op=op, tgt=("z", 0), r=Var("q", 0), tags=("mixed",))
        add("mixed", op=op, tgt=("z", 0), r=Var("f", 0), tags=("mixed",))
        add("mixed", op=op, tgt=("q", 0), r=Var("f", 0), tags=("mixed",))
    # ---- comparisons, cmp, sgn
    for T in ("z", "q"):
        opnds = [lambda: Var(T, 0), lambda: Var(T, 1), lambda: fill(E(T), [0, 1, 2, 0], iter(range(4)))] + [(lambda c=c: Bi(c)) for c in MAIN_BI]
        if T == "q": opnds += [lambda: Var("z", 0), lambda: fill(E("z"), [0, 1, 2, 0], iter(range(4)))]
        for op in ("eq", "ne", "lt", "le", "gt", "ge", "cmp"):
            for i, fa in enumerate(opnds):
                for j, fb in enumerate(opnds):
                    a, b = fa(), fb()
                    if isinstance(a, Bi) and isinstance(b, Bi): continue
                    if T == "q" and a.ty != "q" and b.ty != "q": continue
                    if not thorough and op not in ("lt", "cmp", "eq") and rng.random() < 0.75: continue
                    add("cmp", op=op, a=a, b=b, tags=("cmp",))
        for a in (Var(T, 0), fill(E(T), [0, 1, 2, 0], iter(range(4))), fill(E(T), [1, 1, 2, 0], iter(range(4)))): add("sgn", a=a, tags=("cmp",))
    # ---- constructors from expressions (conversion z<->q)
    for T in ("z", "q"):
        for tty in ("z", "q"):
            for _ in range(12 if thorough else 5):
                add("init", ty=tty, e=fill(E(T), [0, 1, 2, 0], iter(range(4))), tags=("init",))
            add("init", ty=tty, e=Var(T, 1), tags=("init",))
    # ---- literal built-ins (compiled with -O2 so that the __builtin_constant_p fast paths of mpirxx.h are taken)
    lits = [("int", 0), ("int", 1), ("int", 2), ("int", 4), ("int", 1024), ("int", -1), ("int", -2), ("int", -8), ("int", 3), ("int", -6),
            ("unsigned", 0), ("unsigned", 1), ("unsigned", 16), ("unsigned", 12), ("long", 1 << 62), ("long", LONG_MIN), ("unsigned long", 1 << 63), ("unsigned long", 1), ("unsigned long", 0)]
    for T in ("z", "q"):
        for op in QBIN + (["mod"] if T == "z" else []):
            for ct, v in lits:
                for side in (0, 1):
                    for al in (0, 1):
                        if al == 1 and not thorough and rng.random() < 0.5: continue
                        a, b = (Var(T, al), Bi(ct, v)) if side == 0 else (Bi(ct, v), Var(T, al))
                        add("assign", tgt=(T, 0), e=Bin(op, a, b), tags=("const", "d1", "alias:" + ("leaf0" if al == 0 else "none")))
            for ct, v in lits[:8]:
                add("assign", tgt=(T, 0), e=Bin(op, Bin("add", Var(T, 0), Var(T, 1)), Bi(ct, v)), tags=("const", "d2", "alias:leaf0"))
                add("compound", op=op, tgt=(T, 0), r=Bi(ct, v), tags=("const", "compound"))
        for op in ("shl", "shr"):
            for v in (0, 1, 64):
                add("assign", tgt=(T, 0), e=Sh(op, Var(T, 0), Bi("int", v)), tags=("const", "d1", "alias:leaf0")); add("assign", tgt=(T, 0), e=Sh(op, Var(T, 1), Bi("int", v)), tags=("const", "d1", "alias:none"))
    # ---- mpf (implementation vs implementation only)
    fsh = depth1_shapes("f", MAIN_BI)
    for shape in fsh:
        v = list(alias_variants(shape, "f"))
        for tree, tgt, tag in (v if thorough else rng.sample(v, min(2, len(v)))):
            add("assign", tgt=("f", tgt), e=tree, tags=("mpf", "d1", "alias:" + tag))
    k = 0; nf = 6000 if thorough else 150
    while k < nf:
        d = rng.choice([2, 2, 3]); shape = rand_shape(rng, "f", d, MAIN_BI)
        if not welltyped(shape) or len(builtins(shape)) > NB or not holes(shape): continue
        tty = "f" if rng.random() < 0.8 else rng.choice(["z", "q"])
        v = list(alias_variants(shape, tty, full=False))
        if not v: continue
        tree, tgt, tag = rng.choice(v)
        add("assign", tgt=(tty, tgt), e=tree, tags=("mpf", "d%d" % d, "alias:" + tag)); k += 1
    for op in QBIN:
        for r in (Var("f", 1), Var("f", 0), Bi("long"), Bi("unsigned long"), Bi("double"), Bi("int"), fill(_clone(fsh[0]), [1, 2], iter(range(2))), Var("z", 0), Var("q", 0)):
            add("compound", op=op, tgt=("f", 0), r=r, tags=("mpf", "compound"))
    for op in ("shl", "shr"): add("compoundsh", op=op, tgt=("f", 0), n=Bi("unsigned long"), tags=("mpf", "compound"))
    for op in ("preinc", "postdec"): add("incr", op=op, tgt=("f", 1), tags=("mpf", "compound"))
    for op in ("lt", "eq", "cmp", "ge"):
        for a, b in ((Var("f", 0), Var("f", 1)), (Var("f", 0), Bi("long")), (Bi("double"), Var("f", 0)), (Var("f", 0), Bi("unsigned long")), (Var("f", 0), Var("z", 0)), (Var("q", 0), Var("f", 1)),
                     (Bin("add", Var("f", 0), Var("f", 1)), Var("f", 2)), (Var("f", 2), Bin("mul", Var("f", 0), Bi("int")))):
            add("cmp", op=op, a=a, b=b, tags=("mpf", "cmp"))
    add("sgn", a=Var("f", 0), tags=("mpf", "cmp")); add("sgn", a=Bin("sub", Var("f", 0), Var("f", 1)), tags=("mpf", "cmp"))
    for tty in ("z", "q", "f"):
        add("init", ty=tty, e=Bin("mul", Var("f", 0), Var("f", 1)), tags=("mpf", "init")); add("init", ty="f", e=Bin("add", Var(tty, 0), Var(tty, 1)), tags=("mpf", "init"))
    # ---- accessor sub-objects Q[i].get_num() / Q[i].get_den() as leaves and as targets (tools/cxxacc.py)
    import cxxacc; cxxacc.statements(rng, tier, add)
    return S

# ---------------------------------------------------------------- conversions, constructors, get_str, stream I/O
IO_BASE = 1000000
IO_CODE = r'''
static long sid = IO_BASE_ID; static long only = -1;
static bool want() { return only < 0 || only == sid; }
static void desc(const std::string &d) {
  if (!want()) return;
  printf("desc %ld ", sid);
  for (size_t i = 0; i < d.size(); i++) { unsigned char c = d[i]; if (c < 32 || c > 126) printf("\\x%02x", c); else putchar(c); }
  printf("\n");
}
static void outs(const char *w, int k, const std::string &s) { printf("%s %ld %d", w, sid, k); pr_bytes(s); printf("\n"); }

/* ---- the same statements as `cxx_io_*` op lines for the Lean stream model (lean/Mpir/Model/CxxIo.lean, Ops/CxxIo.lean) ---- */
static long io_flagnum(const std::ios &s) {
  std::ios::fmtflags f = s.flags(); long n = 0;
  if (f & std::ios::dec) n |= 0x1; if (f & std::ios::oct) n |= 0x2; if (f & std::ios::hex) n |= 0x4; if (f & std::ios::showbase) n |= 0x8;
  if (f & std::ios::showpos) n |= 0x10; if (f & std::ios::uppercase) n |= 0x20; if (f & std::ios::left) n |= 0x40; if (f & std::ios::right) n |= 0x80;
  if (f & std::ios::internal) n |= 0x100; if (f & std::ios::fixed) n |= 0x200; if (f & std::ios::scientific) n |= 0x400; if (f & std::ios::showpoint) n |= 0x800;
  if (f & std::ios::skipws) n |= 0x1000;
  return n;
}
static long io_statenum(const std::ios &s) {
  std::ios::iostate r = s.rdstate(); return ((r & std::ios::eofbit) ? 1 : 0) + ((r & std::ios::failbit) ? 2 : 0) + ((r & std::ios::badbit) ? 4 : 0);
}
static void io_prl(long v) { if (v < 0) printf("-%lx", -(unsigned long) v); else printf("%lx", (unsigned long) v); }
struct IoOut { long flags, state, width, fill, prec; };
static IoOut io_before(std::ostringstream &os) { IoOut b = { io_flagnum(os), io_statenum(os), (long) os.width(), (long) (unsigned char) os.fill(), (long) os.precision() }; return b; }
static void io_op_out_head(const char *op, int k, const IoOut &b) {
  printf("op %ld %d %s %lx %lx ", sid, k, op, (unsigned long) b.flags, (unsigned long) b.state); io_prl(b.width); printf(" %lx ", (unsigned long) b.fill); io_prl(b.prec);
}
static void io_op_out_tail(std::ostringstream &os) { printf(" =>"); pr_bytes(os.str()); printf(" "); io_prl((long) os.width()); printf(" %lx\n", (unsigned long) io_statenum(os)); }
static void io_op_out_z(int k, const IoOut &b, mpz_srcptr v, std::ostringstream &os) { io_op_out_head("cxx_io_out_z", k, b); pr_z(v); io_op_out_tail(os); }
static void io_op_out_q(int k, const IoOut &b, mpq_srcptr v, std::ostringstream &os) { io_op_out_head("cxx_io_out_q", k, b); pr_q(v); io_op_out_tail(os); }
static void io_op_out_f(int k, const IoOut &b, mpf_srcptr f, std::ostringstream &os) {
  long n = f->_mp_size < 0 ? -(long) f->_mp_size : f->_mp_size;
  const mp_limb_t *p = f->_mp_d; long m = n; while (m > 0 && p[0] == 0) { p++; m--; }
  if (m > 2 || (b.flags & 7) == 4 || (b.flags & 7) == 2) return;          /* the decimal %F model: mantissas of at most two limbs */
  io_op_out_head("cxx_io_out_f", k, b); printf(" %lx ", (unsigned long) ((f->_mp_prec - 1) * 64)); io_prl(n ? f->_mp_exp : 0); printf(" "); io_prl(f->_mp_size); printf(" [");
  for (long i = 0; i < n; i++) printf("%s%lx", i ? "," : "", (unsigned long) f->_mp_d[i]);
  printf("]"); io_op_out_tail(os);
}
static void io_op_in_tail(std::istringstream &is) {
  long st = io_statenum(is); long pos = (long) is.rdbuf()->pubseekoff(0, std::ios::cur, std::ios::in); int nx = is.rdbuf()->sgetc();
  printf(" %lx %lx ", (unsigned long) st, (unsigned long) pos); io_prl(nx == std::char_traits<char>::eof() ? -1 : (long) (unsigned char) nx); printf("\n");
}
struct Fl { int base, showbase, showpos, upper, adj, width; char fill; int multi; };   /* multi: 0 = one basefield bit; 1 dec|hex, 2 hex|oct, 3 dec|oct|hex, 4 no bit: the standard says decimal */
static void apply(std::ios &o, const Fl &f) {
  o.setf(f.base == 16 ? std::ios::hex : f.base == 8 ? std::ios::oct : std::ios::dec, std::ios::basefield);
  if (f.multi) { o.unsetf(std::ios::basefield);
    if (f.multi == 1) o.setf(std::ios::dec | std::ios::hex); else if (f.multi == 2) o.setf(std::ios::hex | std::ios::oct);
    else if (f.multi == 3) o.setf(std::ios::dec | std::ios::oct | std::ios::hex); }
  if (f.showbase) o.setf(std::ios::showbase); if (f.showpos) o.setf(std::ios::showpos); if (f.upper) o.setf(std::ios::uppercase);
  if (f.adj == 1) o.setf(std::ios::left, std::ios::adjustfield); else if (f.adj == 2) o.setf(std::ios::right, std::ios::adjustfield);
  else if (f.adj == 3) o.setf(std::ios::internal, std::ios::adjustfield);
  o.width(f.width); o.fill(f.fill);
}
static std::string fdesc(const Fl &f) {
  char b[200]; snprintf(b, sizeof b, "base=%d multi=%d showbase=%d showpos=%d uppercase=%d adjust=%s width=%d fill='%c'", f.base, f.multi, f.showbase, f.showpos, f.upper,
    f.adj == 0 ? "none" : f.adj == 1 ? "left" : f.adj == 2 ? "right" : "internal", f.width, f.fill); return b;
}
/* reference: [sign][base prefix][digits of mpz_get_str], padded with the fill character to the width */
static void ref_int(std::string &sign, std::string &body, mpz_srcptr z, const Fl &f) {
  char *s = mpz_get_str(NULL, f.base == 16 && f.upper ? -16 : f.base, z);
  const char *dg = s; sign = "";
  if (*dg == '-') { sign = "-"; dg++; } else if (f.showpos) sign = "+";
  body = "";
  if (f.showbase && f.base == 16) body = f.upper ? "0X" : "0x";
  if (f.showbase && f.base == 8 && mpz_sgn(z) != 0) body = "0";
  body += dg; free(s);
}
static std::string pad(const std::string &pre, const std::string &rest, const Fl &f) {
  size_t n = pre.size() + rest.size(); std::string p(n < (size_t) f.width ? f.width - n : 0, f.fill);
  if (f.adj == 1) return pre + rest + p;
  if (f.adj == 3) return pre + p + rest;
  return p + pre + rest;
}
static std::string ref_z(mpz_srcptr z, const Fl &f) {
  std::string sg, b; ref_int(sg, b, z, f);
  /* internal: the padding goes after the sign and the base prefix (GMP's doprnt convention: also after the octal "0",
     where libstdc++ would pad before it; there is no C-level counterpart with a fill character to compare with) */
  if (f.showbase && f.base == 16) return pad(sg + b.substr(0, 2), b.substr(2), f);
  if (f.showbase && f.base == 8 && mpz_sgn(z) != 0) return pad(sg + "0", b.substr(1), f);
  return pad(sg, b, f);
}
static std::string ref_q(mpq_srcptr q, const Fl &f) {
  std::string sg, b; ref_int(sg, b, mpq_numref(q), f);
  std::string pre = sg, rest = b;
  if (f.showbase && f.base == 16) { pre = sg + b.substr(0, 2); rest = b.substr(2); }
  if (f.showbase && f.base == 8 && mpz_sgn(mpq_numref(q)) != 0) { pre = sg + "0"; rest = b.substr(1); }
  if (mpz_cmp_ui(mpq_denref(q), 1) != 0) { std::string s2, b2; Fl g = f; g.showpos = 0; ref_int(s2, b2, mpq_denref(q), g); rest += "/" + b2; }
  return pad(pre, rest, f);
}
static void io_ostream(const VS *vs, int nvs, int full) {
  static const int bases[] = {10, 16, 8}, widths[] = {0, 3, 24}; static const char fills[] = {' ', '*', '0'};
  for (int mb = 0; mb < 5; mb++)
  for (int bi = 0; bi < 3; bi++) for (int sb = 0; sb < 2; sb++) for (int sp = 0; sp < 2; sp++) for (int up = 0; up < 2; up++)
  for (int adj = 0; adj < 4; adj++) for (int wi = 0; wi < 3; wi++) for (int fi = 0; fi < 3; fi++) {
    if (wi == 0 && (fi > 0 || adj > 1)) continue;
    if (mb && (bi || adj > 1 || wi == 1 || fi)) continue;        /* multi-bit basefield: decimal semantics, a slice of the other flags */
    Fl f = { bases[bi], sb, sp, up, adj, widths[wi], fills[fi], mb };
    for (int ty = 0; ty < 3; ty++) {     /* 0: mpz_class, 1: mpq_class, 2: an mpz expression */
      if (!full && ty == 2 && (adj != 3 || wi != 2)) continue;
      desc(std::string(ty == 0 ? "os << Z[0]; " : ty == 1 ? "os << Q[0]; " : "os << (Z[0] * Z[1] - Z[2]); ") + fdesc(f));
      if (want()) for (int k = 0; k < nvs; k++) {
        setenv_vs(&vs[k]);
        std::ostringstream os; apply(os, f); IoOut iob = io_before(os);
        if (ty == 0) os << Z[0]; else if (ty == 1) os << Q[0]; else os << (Z[0] * Z[1] - Z[2]);
        if (ty == 0) io_op_out_z(k, iob, Zc[0], os); else if (ty == 1) io_op_out_q(k, iob, Qc[0], os);
        else { mpz_mul(TZ[1], Zc[0], Zc[1]); mpz_sub(TZ[2], TZ[1], Zc[2]); io_op_out_z(k, iob, TZ[2], os); }
        std::string r = os.str(); if (os.width() != 0) r += "<width not reset>"; if (!os.good()) r += "<stream not good>";
        outs("cxx", k, r);
        if (ty == 2) { mpz_mul(TZ[1], Zc[0], Zc[1]); mpz_sub(TZ[2], TZ[1], Zc[2]); }
        outs("cref", k, ty == 0 ? ref_z(Zc[0], f) : ty == 1 ? ref_q(Qc[0], f) : ref_z(TZ[2], f));
      }
      sid++;
    }
  }
}
static void io_ostream_f(const VS *vs, int nvs) {
  /* mpf: the C-level counterpart is gmp_asprintf with the equivalent conversion */
  static const int precs[] = {1, 3, 10, 30}, widths[] = {0, 28};
  for (int ff = 0; ff < 3; ff++) for (int pi = 0; pi < 4; pi++) for (int spt = 0; spt < 2; spt++) for (int sp = 0; sp < 2; sp++) for (int up = 0; up < 2; up++)
  for (int wi = 0; wi < 2; wi++) for (int adj = 1; adj < 3; adj++) {
    if (wi == 0 && adj == 2) continue;
    char fmt[40]; snprintf(fmt, sizeof fmt, "%%%s%s%s%s.*F%c", spt ? "#" : "", sp ? "+" : "", adj == 1 ? "-" : "", wi ? "28" : "", ff == 0 ? (up ? 'G' : 'g') : ff == 1 ? 'f' : (up ? 'E' : 'e'));
    desc(std::string("os << F[0]; format ") + fmt + " precision " + std::to_string(precs[pi]));
    if (want()) for (int k = 0; k < nvs; k++) {
      setenv_vs(&vs[k]);
      std::ostringstream os; if (ff == 1) os.setf(std::ios::fixed, std::ios::floatfield); if (ff == 2) os.setf(std::ios::scientific, std::ios::floatfield);
      if (spt) os.setf(std::ios::showpoint); if (sp) os.setf(std::ios::showpos); if (up) os.setf(std::ios::uppercase);
      os.setf(adj == 1 ? std::ios::left : std::ios::right, std::ios::adjustfield); os.width(widths[wi]); os.precision(precs[pi]);
      IoOut iob = io_before(os); os << F[0]; io_op_out_f(k, iob, Fc[0], os); outs("cxx", k, os.str());
      char *r = NULL; gmp_asprintf(&r, fmt, precs[pi], Fc[0]); outs("cref", k, r); free(r);
    }
    sid++;
  }
}
static void io_getstr(const VS *vs, int nvs) {
  for (int b = -36; b <= 62; b++) {
    if (b > -2 && b < 2) continue; if (b > 36 && b != 62) continue;
    desc("Z[0].get_str(" + std::to_string(b) + ")");
    if (want()) for (int k = 0; k < nvs; k++) { setenv_vs(&vs[k]); outs("cxx", k, Z[0].get_str(b)); char *s = mpz_get_str(NULL, b, Zc[0]); outs("cref", k, s); free(s); }
    sid++;
    desc("Q[0].get_str(" + std::to_string(b) + ")");
    if (want()) for (int k = 0; k < nvs; k++) { setenv_vs(&vs[k]); outs("cxx", k, Q[0].get_str(b)); char *s = mpq_get_str(NULL, b, Qc[0]); outs("cref", k, s); free(s); }
    sid++;
    if (b >= 2) for (int nd = 0; nd <= 20; nd += 10) {
      desc("F[0].get_str(exp, " + std::to_string(b) + ", " + std::to_string(nd) + ")");
      if (want()) for (int k = 0; k < nvs; k++) {
        setenv_vs(&vs[k]); mp_exp_t e1 = 0, e2 = 0; std::string a = F[0].get_str(e1, b, nd); char *s = mpf_get_str(NULL, &e2, b, nd, Fc[0]);
        outs("cxx", k, a + "@" + std::to_string((long) e1)); outs("cref", k, std::string(s) + "@" + std::to_string((long) e2)); free(s);
      }
      sid++;
    }
  }
  desc("Z[0].get_str()  (default base 10)");
  if (want()) for (int k = 0; k < nvs; k++) { setenv_vs(&vs[k]); outs("cxx", k, Z[0].get_str()); char *s = mpz_get_str(NULL, 10, Zc[0]); outs("cref", k, s); free(s); }
  sid++;
}
struct StrCase { const char *s; int base; };
template <class F> static std::string guard_inv(F f) { try { return f(); } catch (std::invalid_argument &e) { return std::string("!invalid_argument:") + e.what(); } }
static std::string zhex(mpz_srcptr z) { char *s = mpz_get_str(NULL, 16, z); std::string r = s; free(s); return r; }
static std::string qhex(mpq_srcptr q) { return zhex(mpq_numref(q)) + " " + zhex(mpq_denref(q)); }
static std::string fstr(mpf_srcptr f) { mp_exp_t e; char *s = mpf_get_str(NULL, &e, 16, 0, f); std::string r = std::string(s) + "@" + std::to_string((long) e) + " prec " + std::to_string((long) mpf_get_prec(f)); free(s); return r; }
static void io_strings(const StrCase *sc, int n) {
  for (int i = 0; i < n; i++) {
    const char *s = sc[i].s; int b = sc[i].base; std::string d = std::string("\"") + s + "\", base " + std::to_string(b);
    /* mpz */
    desc("mpz_class t(" + d + ")");
    if (want()) { outs("cxx", 0, guard_inv([&] { mpz_class t(s, b); return zhex(t.get_mpz_t()); }));
      outs("cref", 0, mpz_set_str(TZ[0], s, b) == 0 ? zhex(TZ[0]) : "!invalid_argument:mpz_set_str"); }
    sid++;
    desc("mpz_class t(std::string(" + d + "))");
    if (want()) { outs("cxx", 0, guard_inv([&] { mpz_class t(std::string(s), b); return zhex(t.get_mpz_t()); }));
      outs("cref", 0, mpz_set_str(TZ[0], s, b) == 0 ? zhex(TZ[0]) : "!invalid_argument:mpz_set_str"); }
    sid++;
    desc("Z[0].set_str(" + d + ")");
    if (want()) { mpz_set_si(Z[0].get_mpz_t(), 77); mpz_set_si(TZ[0], 77); int r1 = Z[0].set_str(s, b), r2 = mpz_set_str(TZ[0], s, b);
      outs("cxx", 0, std::to_string(r1) + " " + (r1 == 0 ? zhex(Z[0].get_mpz_t()) : "")); outs("cref", 0, std::to_string(r2) + " " + (r2 == 0 ? zhex(TZ[0]) : "")); }
    sid++;
    if (b == 0) {
      desc("Z[0] = \"" + std::string(s) + "\"");
      if (want()) { outs("cxx", 0, guard_inv([&] { Z[0] = s; return zhex(Z[0].get_mpz_t()); })); outs("cref", 0, mpz_set_str(TZ[0], s, 0) == 0 ? zhex(TZ[0]) : "!invalid_argument:mpz_set_str"); }
      sid++;
      desc("Q[0] = std::string(\"" + std::string(s) + "\")");
      if (want()) { outs("cxx", 0, guard_inv([&] { Q[0] = std::string(s); return qhex(Q[0].get_mpq_t()); })); outs("cref", 0, mpq_set_str(TQ[0], s, 0) == 0 ? qhex(TQ[0]) : "!invalid_argument:mpq_set_str"); }
      sid++;
    }
    /* mpq */
    desc("mpq_class t(" + d + ")");
    if (want()) { outs("cxx", 0, guard_inv([&] { mpq_class t(s, b); return qhex(t.get_mpq_t()); }));
      outs("cref", 0, mpq_set_str(TQ[0], s, b) == 0 ? qhex(TQ[0]) : "!invalid_argument:mpq_set_str"); }
    sid++;
    desc("Q[0].set_str(" + d + ")");
    if (want()) { int r1 = Q[0].set_str(std::string(s), b), r2 = mpq_set_str(TQ[0], s, b);
      outs("cxx", 0, std::to_string(r1) + " " + (r1 == 0 ? qhex(Q[0].get_mpq_t()) : "")); outs("cref", 0, std::to_string(r2) + " " + (r2 == 0 ? qhex(TQ[0]) : "")); }
    sid++;
    /* mpf */
    if (b >= 0) {
      desc("mpf_class t(" + d.substr(0, d.find(", base")) + ", 128, " + std::to_string(b) + ")");
      if (want()) { outs("cxx", 0, guard_inv([&] { mpf_class t(s, 128, b); return fstr(t.get_mpf_t()); }));
        mpf_set_prec(TF[0], 128); outs("cref", 0, mpf_set_str(TF[0], s, b) == 0 ? fstr(TF[0]) : "!invalid_argument:mpf_set_str"); }
      sid++;
    }
  }
}
template <class T> static void num_case(const char *tn, T v, const char *vs) {
  std::string d = std::string("(") + tn + ") " + vs;
  desc("mpz_class t(" + d + "); Z[0] = " + d + ";");
  if (want()) { mpz_class t(v); Z[0] = 5; Z[0] = v; outs("cxx", 0, zhex(t.get_mpz_t()) + " " + zhex(Z[0].get_mpz_t()));
    if (std::numeric_limits<T>::is_integer) { if (std::numeric_limits<T>::is_signed) mpz_set_si(TZ[0], (long) v); else mpz_set_ui(TZ[0], (unsigned long) v); } else mpz_set_d(TZ[0], (double) v);
    outs("cref", 0, zhex(TZ[0]) + " " + zhex(TZ[0])); }
  sid++;
  desc("mpq_class t(" + d + "); Q[0] = " + d + ";");
  if (want()) { mpq_class t(v); Q[0] = 5; Q[0] = v; outs("cxx", 0, qhex(t.get_mpq_t()) + " " + qhex(Q[0].get_mpq_t()));
    if (std::numeric_limits<T>::is_integer) { if (std::numeric_limits<T>::is_signed) mpq_set_si(TQ[0], (long) v, 1); else mpq_set_ui(TQ[0], (unsigned long) v, 1); } else mpq_set_d(TQ[0], (double) v);
    outs("cref", 0, qhex(TQ[0]) + " " + qhex(TQ[0])); }
  sid++;
  desc("mpf_class t(" + d + "); mpf_class u(" + d + ", 192); F[0] = " + d + ";");
  if (want()) { mpf_class t(v); mpf_class u(v, 192); F[0].set_prec(128); F[0] = v; outs("cxx", 0, fstr(t.get_mpf_t()) + " " + fstr(u.get_mpf_t()) + " " + fstr(F[0].get_mpf_t()));
    std::string r;
    for (int j = 0; j < 3; j++) { mpf_set_prec(TF[0], j == 0 ? mpf_get_default_prec() : j == 1 ? 192 : 128);
      if (std::numeric_limits<T>::is_integer) { if (std::numeric_limits<T>::is_signed) mpf_set_si(TF[0], (long) v); else mpf_set_ui(TF[0], (unsigned long) v); } else mpf_set_d(TF[0], (double) v);
      r += (j ? " " : "") + fstr(TF[0]); }
    outs("cref", 0, r); }
  sid++;
}
static void io_conv(const VS *vs, int nvs) {
  desc("Z[0].get_si() get_ui() get_d() fits_sint_p uint sshort ushort slong ulong si ui; Q[0].get_d(); F[0].get_si() get_ui() get_d() fits_*");
  if (want()) for (int k = 0; k < nvs; k++) {
    setenv_vs(&vs[k]); char b[600]; double d1 = Z[0].get_d(), d2 = mpz_get_d(Zc[0]), d3 = Q[0].get_d(), d4 = mpq_get_d(Qc[0]), d5 = F[0].get_d(), d6 = mpf_get_d(Fc[0]); uint64_t u1, u2, u3, u4, u5, u6;
    memcpy(&u1, &d1, 8); memcpy(&u2, &d2, 8); memcpy(&u3, &d3, 8); memcpy(&u4, &d4, 8); memcpy(&u5, &d5, 8); memcpy(&u6, &d6, 8);
    snprintf(b, sizeof b, "%ld %lu %lx %d%d%d%d%d%d%d%d q %lx f %ld %lu %lx %d%d%d%d%d%d%d%d", Z[0].get_si(), Z[0].get_ui(), (unsigned long) u1, Z[0].fits_sint_p(), Z[0].fits_uint_p(), Z[0].fits_sshort_p(), Z[0].fits_ushort_p(),
      Z[0].fits_slong_p(), Z[0].fits_ulong_p(), Z[0].fits_si_p(), Z[0].fits_ui_p(), (unsigned long) u3, F[0].get_si(), F[0].get_ui(), (unsigned long) u5, F[0].fits_sint_p(), F[0].fits_uint_p(), F[0].fits_sshort_p(), F[0].fits_ushort_p(),
      F[0].fits_slong_p(), F[0].fits_ulong_p(), F[0].fits_si_p(), F[0].fits_ui_p());
    outs("cxx", k, b);
    snprintf(b, sizeof b, "%ld %lu %lx %d%d%d%d%d%d%d%d q %lx f %ld %lu %lx %d%d%d%d%d%d%d%d", mpz_get_si(Zc[0]), mpz_get_ui(Zc[0]), (unsigned long) u2, mpz_fits_sint_p(Zc[0]) != 0, mpz_fits_uint_p(Zc[0]) != 0, mpz_fits_sshort_p(Zc[0]) != 0, mpz_fits_ushort_p(Zc[0]) != 0,
      mpz_fits_slong_p(Zc[0]) != 0, mpz_fits_ulong_p(Zc[0]) != 0, mpz_fits_si_p(Zc[0]) != 0, mpz_fits_ui_p(Zc[0]) != 0, (unsigned long) u4, mpf_get_si(Fc[0]), mpf_get_ui(Fc[0]), (unsigned long) u6, mpf_fits_sint_p(Fc[0]) != 0, mpf_fits_uint_p(Fc[0]) != 0,
      mpf_fits_sshort_p(Fc[0]) != 0, mpf_fits_ushort_p(Fc[0]) != 0, mpf_fits_slong_p(Fc[0]) != 0, mpf_fits_ulong_p(Fc[0]) != 0, mpf_fits_si_p(Fc[0]) != 0, mpf_fits_ui_p(Fc[0]) != 0);
    outs("cref", k, b);
  }
  sid++;
}
'''

def io_program(rng, tier, only=None):
    """C++ source of the I/O program; every case prints desc/cxx/cref lines with ids from IO_BASE on"""
    thorough = tier == "thorough"
    nvs = 6 if thorough else 4
    dummy = Stmt("sgn", a=Var("z", 0))
    vss = valsets(rng, dummy, nvs)
    vss[0].z[0] = 0; vss[0].q[0] = (0, 1); vss[0].f[0] = (0, 0, 64)
    vss[1].z[0] = -255; vss[1].q[0] = (-255, 16); vss[1].f[0] = (-255, -4, 64)
    vss[2].z[0] = (1 << 70) + 12345; vss[2].q[0] = (8, 1); vss[2].f[0] = (12345, 70, 128)
    rows = []
    for vs in vss:
        zs, qs, fm, fe, fp, si, ui, d = vs_init(vs)
        rows.append("  { {%s}, {%s}, {%s}, {%s}, {%s}, {0,0,0,0}, {0,0,0,0}, {0,0,0,0} }" % (zs, qs, fm, fe, fp))
    # strings for constructors / set_str
    strs = [("0", 0), ("123", 0), ("-123", 0), ("0x1F", 0), ("0X1f", 0), ("0b101", 0), ("017", 0), ("  42", 0), ("4 2", 10), ("", 0), ("-", 0), ("12a", 10), ("zz", 36), ("ZZ", 36), ("Zz", 62),
            ("ff", 16), ("-FF", 16), ("0xff", 16), ("123456789012345678901234567890", 10), ("1/2", 0), ("-3/6", 0), ("0x10/0x3", 0), ("1/0", 0), ("1/", 0), ("/2", 0), ("3/4", 10), ("7/-2", 10),
            ("1.5", 0), ("1e3", 0), ("-1.25e-2", 10), ("1@3", 10), ("abc", 10), ("+5", 10), ("101", 2), ("102", 2), ("77", 8), ("78", 8), ("1_000", 10), ("0.1", 10), (".5", 10), ("5.", 10), ("1e", 10)]
    if thorough:
        for _ in range(60):
            b = rng.choice([0, 2, 8, 10, 16, 36, 62, 7]); v = rand_z(rng)
            digs = "0123456789abcdefghijklmnopqrstuvwxyz"
            def tob(n, b):
                b = b or 10; s = ""; n0 = abs(n)
                while True:
                    s = (digs[n0 % b] if b <= 36 else (digs.upper() + digs[10:])[n0 % b] if False else "0123456789ABCDEFGHIJKLMNOPQRSTUVWXYZabcdefghijklmnopqrstuvwxyz"[n0 % b] if b > 36 else digs[n0 % b]) + s; n0 //= b
                    if not n0: break
                return ("-" if n < 0 else "") + s
            strs.append((tob(v, b), b))
    def cstr(x): return '"' + "".join(c if 32 <= ord(c) < 127 and c not in '"\\' else "\\%03o" % ord(c) for c in x) + '"'
    strtab = ",\n".join("  { %s, %d }" % (cstr(s), b) for s, b in strs)
    # numbers
    nums = []
    for ct in SI_T + UI_T:
        lo, hi = RANGE[ct]
        for v in sorted({lo, hi, 0, 1, min(hi, 100), max(lo, -1), rng.randrange(lo, hi + 1)}):
            lit = ("(-%dL - 1)" % (-(v + 1)) if v < 0 else "%dUL" % v if ct.startswith("unsigned") else "%dL" % v)
            nums.append('  num_case<%s>("%s", (%s) %s, "%d");' % (ct, ct, ct, lit, v))
    for ct, vals in (("double", D_SPECIAL + [1e300, -1e-300, 5e-324]), ("float", [v for v in D_SPECIAL if fbits_ok(v)])):
        for v in vals:
            nums.append('  num_case<%s>("%s", (%s) bits2d(0x%xULL), "%r");' % (ct, ct, ct, dbits(v), v))
    # istream inputs: (text, basefield, skipws) -> token, denominator token, fail, next char
    ins = []
    def scan(text, base, skipws, q=False):
        i = 0
        if skipws:
            while i < len(text) and text[i] in " \t\n": i += 1
        def number(i):
            tok = ""
            if i < len(text) and text[i] in "+-":
                if text[i] == "-": tok = "-"
                i += 1
            b = base; zero = False
            if base == 0:
                if i < len(text) and text[i] == "0":
                    i += 1
                    if i < len(text) and text[i] in "xX": b = 16; i += 1
                    else: b = 8; zero = True
                else: b = 10
            digs = {10: "0123456789", 8: "01234567", 16: "0123456789abcdefABCDEF"}[b]
            j = i
            while j < len(text) and text[j] in digs: j += 1
            ok = j > i
            if ok: return tok + text[i:j], b, j, False
            if zero: return "0", b, j, False
            return None, b, j, True
        tok, b, j, fail = number(i)
        if fail: return None, None, 1, -1, base
        dtok = None
        if q and j < len(text) and text[j] == "/":
            dtok, b2, j2, fail2 = number(j + 1)
            if fail2: return None, None, 1, -1, base
            j = j2
            # the C-level reference reads each part with its own detected base
            return (tok, b), (dtok, b2), 0, (ord(text[j]) if j < len(text) else -1), base
        return (tok, b), None, 0, (ord(text[j]) if j < len(text) else -1), base
    texts = ["0", "123", "-45 rest", "  77,", "+9", "0x1f;", "0X1F", "017", "08", "ff", "FF)", "-ff", "abc", "", " ", "-", "12/34", "-6/8 x", "0x10/0x3", "1/", "12 /3", "9999999999999999999999999/3", "\t\n5", "1.5", "00", "0 7", "-0", "0xg", "7/0"]
    if thorough:
        for _ in range(80):
            v = rand_z(rng); b = rng.choice([10, 16, 8]); s = ("%d" if b == 10 else "%x" if b == 16 else "%o") % abs(v)
            texts.append(rng.choice(["", " ", "  "]) + ("-" if v < 0 else "") + rng.choice(["", "", "0x" if b == 16 else "0" if b == 8 else ""]) + s + rng.choice(["", " ", ",", "/3", "/0x11", "z"]))
    rows_in = []
    for text in texts:
        for base in (0, 10, 16, 8):
            for skipws in (1, 0):
                for q in (False, True):
                    t, dt, fail, nxt, _ = scan(text, base, skipws, q)
                    if not q and "/" in text and not fail and False: pass
                    # token bases: pass mpz_set_str the base the grammar selected (prefix already consumed)
                    if fail: rows_in.append((text, base, skipws, "", None, 1, -1, q, 0, 0))
                    else: rows_in.append((text, base, skipws, t[0], dt[0] if dt else None, 0, nxt, q, t[1], dt[1] if dt else 0))
    # the InCase table carries one base; split rows whose numerator/denominator bases differ by giving the reference explicit bases
    intab = []
    for text, base, skipws, tok, dtok, fail, nxt, q, tb, db in rows_in:
        if q and dtok is None and not fail and "/" not in text: kind = "both"
        intab.append((text, base, skipws, tok, dtok, fail, nxt, q, tb, db))
    L = ['#include "cxxh.h"', "#include <limits>", "#define IO_BASE_ID %d" % IO_BASE, IO_CODE]
    L.append("static const VS io_vs[] = {\n%s\n};" % ",\n".join(rows))
    L.append("static const StrCase io_str[] = {\n%s\n};" % strtab)
    # istream rows: mpz rows (q False) and mpq rows (q True) are separate InCase entries; `base` passed to mpz_set_str is the detected one
    zin = [r for r in intab if not r[7]]; qin = [r for r in intab if r[7]]
    def inrow(r):
        text, base, skipws, tok, dtok, fail, nxt, q, tb, db = r
        return "  { %s, %d, %d, %s, %s, %d, %d, %d, %d }" % (cstr(text), base, skipws, cstr(tok), cstr(dtok) if dtok is not None else "0", fail, nxt, tb, db)
    L.append("struct InRow { const char *text; int base; int skipws; const char *tok; const char *dtok; int fail; int next; int tbase; int dbase; };")
    L.append("static const InRow io_zin[] = {\n%s\n};" % ",\n".join(inrow(r) for r in zin))
    L.append("static const InRow io_qin[] = {\n%s\n};" % ",\n".join(inrow(r) for r in qin))
    L.append(r'''
static void io_istream2(const InRow *ic, int n, int ty) {
  for (int i = 0; i < n; i++) {
    const InRow &c = ic[i];
    desc(std::string(ty == 0 ? "is >> Z[0]" : "is >> Q[0]") + "; input \"" + c.text + "\" basefield=" + std::to_string(c.base) + " skipws=" + std::to_string(c.skipws));
    if (want()) {
      std::istringstream is(c.text); is.setf(c.base == 16 ? std::ios::hex : c.base == 8 ? std::ios::oct : c.base == 10 ? std::ios::dec : std::ios::fmtflags(0), std::ios::basefield);
      if (!c.skipws) is.unsetf(std::ios::skipws);
      mpz_set_si(Z[0].get_mpz_t(), 99); mpq_set_si(Q[0].get_mpq_t(), 99, 7);
      long iofl = io_flagnum(is);
      if (ty == 0) is >> Z[0]; else is >> Q[0];
      printf("op %ld 0 %s %lx 0", sid, ty == 0 ? "cxx_io_in_z" : "cxx_io_in_q", (unsigned long) iofl); pr_bytes(c.text); printf(ty == 0 ? " 63 =>" : " 63 7 =>");
      if (ty == 0) pr_z(Z[0].get_mpz_t()); else pr_q(Q[0].get_mpq_t()); io_op_in_tail(is);
      int fail = is.fail(); int nx = -1; if (!fail) { is.clear(); nx = is.get(); }
      std::string r = "fail=" + std::to_string(fail) + " next=" + std::to_string(nx) + " ";
      if (!fail) r += ty == 0 ? zhex(Z[0].get_mpz_t()) : qhex(Q[0].get_mpq_t());
      outs("cxx", 0, r);
      std::string e = "fail=" + std::to_string(c.fail) + " next=" + std::to_string(c.fail ? -1 : c.next) + " ";
      if (!c.fail) {
        if (mpz_set_str(TZ[0], c.tok, c.tbase) != 0) e += "<mpz_set_str rejects the token>";
        if (ty == 0) e += zhex(TZ[0]);
        else { if (c.dtok) { if (mpz_set_str(TZ[1], c.dtok, c.dbase) != 0) e += "<mpz_set_str rejects the token>"; } else mpz_set_ui(TZ[1], 1); e += zhex(TZ[0]) + " " + zhex(TZ[1]); }
      }
      outs("cref", 0, e);
    }
    sid++;
  }
}''')
    L.append("int main(int argc, char **argv) {\n  init_all(); if (argc > 1) only = atol(argv[1]);")
    L.append("  io_ostream(io_vs, %d, %d);\n  io_ostream_f(io_vs, %d);\n  io_getstr(io_vs, %d);\n  io_strings(io_str, %d);\n  io_conv(io_vs, %d);" % (nvs, 1 if thorough else 0, nvs, nvs, len(strs), nvs))
    L += nums
    L.append("  io_istream2(io_zin, %d, 0);\n  io_istream2(io_qin, %d, 1);" % (len(zin), len(qin)))
    L.append("  return 0;\n}")
    return "\n".join(L) + "\n"

# ---------------------------------------------------------------- corpus (always-run regression statements)
def parse_corpus_line(line):
    """`O0|O2 | stmt in prefix syntax, built-ins as i:long u:unsigned_long d:double (suffix ! = literal) | z0 z1 z2 z3 | q0 q1 q2 (n/d) | b0 b1 … | f0 f1 f2 (mantissa:exp2:precbits)` (hex)
    -> (opt, Stmt, VS)"""
    parts = [p.strip() for p in line.split("|")]
    opt, src, zs, qs = parts[0], parts[1].split(), parts[2].split(), parts[3].split()
    bs = parts[4].split() if len(parts) > 4 else []
    hexv = lambda t: -int(t[1:], 16) if t.startswith("-") else int(t, 16)
    bvals = [hexv(b) for b in bs]
    pos = [0]; nb = [0]
    def tok():
        t = src[pos[0]]; pos[0] += 1; return t
    def bi(t):
        k, ct = t.split(":"); lit = ct.endswith("!"); ct = ct.rstrip("!").replace("_", " ")
        v = bvals[nb[0]]; nb[0] += 1
        if k == "d": v = struct.unpack("<d", struct.pack("<Q", v))[0]
        b = Bi(ct, v if lit else None); b.value = v
        return b
    def opnd():
        t = src[pos[0]]
        if ":" in t: pos[0] += 1; return bi(t)
        return tree()
    def tree():
        t = tok()
        if re.fullmatch(r"[zqf]\d", t): return Var(t[0], int(t[1]))
        if re.fullmatch(r"q[nd]\d", t): return Acc(int(t[2]), t[1] == "d")
        if t in ZUN + FUN: return Un(t, tree())
        if t in ZBIN or t == "hypot": a = opnd(); b = opnd(); return Bin(t, a, b)
        if t in ("shl", "shr"): a = tree(); n = bi(tok()); return Sh(t, a, n)
        raise ValueError("corpus syntax: " + t)
    h = tok()
    if h == "=": ty = tok(); i = int(tok()); st = Stmt("assign", tgt=(ty, i), e=tree(), tags=("corpus",))
    elif h == "new": ty = tok(); st = Stmt("init", ty=ty, e=tree(), tags=("corpus",))
    elif h == "op=": op = tok(); ty = tok(); i = int(tok()); st = Stmt("compound", op=op, tgt=(ty, i), r=opnd(), tags=("corpus",))
    elif h == "cmp": op = tok(); a = opnd(); b = opnd(); st = Stmt("cmp", op=op, a=a, b=b, tags=("corpus",))
    elif h == "sgn": st = Stmt("sgn", a=tree(), tags=("corpus",))
    elif h == "sh=": op = tok(); ty = tok(); i = int(tok()); st = Stmt("compoundsh", op=op, tgt=(ty, i), n=bi(tok()), tags=("corpus",))
    elif h == "incr": op = tok(); ty = tok(); i = int(tok()); st = Stmt("incr", op=op, tgt=(ty, i), tags=("corpus",))
    elif h in ("acc", "new2"): import cxxacc; st = cxxacc.parse_corpus(h, tok, tree, opnd)
    else: raise ValueError("corpus syntax: " + h)
    if opt == "O2": st.tags.add("const")
    z = [hexv(t) for t in zs]; q = []
    for t in qs: n, d = t.split("/"); q.append((hexv(n), hexv(d)))
    f = [(0, 0, 64)] * NF
    if len(parts) > 5 and parts[5]:          # mpf variables: mantissa:binary exponent:precision in bits (hex)
        f = [tuple(hexv(x) for x in t.split(":")) for t in parts[5].split()]
    vs = VS(z, q, f, [b.value for b in st.builtins()])
    return opt, st, vs

def corpus_cases(directory):
    out = []
    if not os.path.isdir(directory): return out
    for f in sorted(os.listdir(directory)):
        if not f.endswith(".txt"): continue
        for ln in open(os.path.join(directory, f)):
            ln = ln.strip()
            if not ln or ln.startswith("#"): continue
            out.append(parse_corpus_line(ln))
    return out
