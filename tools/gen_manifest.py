#!/usr/bin/env python3
"""Write /verif/MANIFEST.json from the property modules in tools/props/ (one source of truth)."""
import os, sys, json, importlib
sys.path.insert(0, os.path.dirname(os.path.abspath(__file__)))
import vlib
import check
props = [json.loads(l) for l in open(os.path.join(vlib.VERIF, "properties.jsonl"))]
checks, na = [], []
for p in props:
    pid = p["id"]
    try:
        m = importlib.import_module("props." + pid.lower())  # main module carries LEVEL_TEXT / LEVEL_NOTE
    except ModuleNotFoundError:
        na.append({"property_id": pid, "reason": "check not built yet in this round (see DESIGN.md section 4 for the plan)"}); continue
    import glob
    parts = glob.glob(os.path.join(vlib.VERIF, "tools", "props", pid.lower() + "_*.py"))
    if getattr(m, "PLACEHOLDER", False) and not parts:
        na.append({"property_id": pid, "reason": "check not built yet in this round (planned: DESIGN.md section 4)"}); continue
    if getattr(m, "NOT_APPLICABLE", None):
        na.append({"property_id": pid, "reason": m.NOT_APPLICABLE}); continue
    checks.append({
        "property_id": pid,
        "quick_cmd": "bin/check %s --tier quick" % pid,
        "thorough_cmd": "bin/check %s --tier thorough" % pid,
        "evidence_file": "evidence/%s.json" % pid,
        "replay_cmd_template": "bin/check %s --replay {path}" % pid,
        "engine": "lean4-proof+correspondence",
        "level_claimed": {"category": (getattr(m, "LEVEL", "proof") if (getattr(m, "LEVEL", "proof") != "proof" or check.load_property(pid).THEOREMS) else "exploration"), "text": m.LEVEL_TEXT, "design_ref": "DESIGN.md section 4, " + pid},
        "level_note": m.LEVEL_NOTE,
        "technique": getattr(m, "TECHNIQUE", "Lean 4 theorems about an executable model + differential correspondence of model and implementation"),
    })
man = {
    "version": 1,
    "setup_cmd": "bin/setup",
    "hooks": {"guard": "MPIR_VERIF", "enable": "no source hooks are used: observation is through the public API, exported internal symbols, mp_set_memory_functions and link-time --wrap",
              "baseline_off_cmd": "cd /repo && make check", "source_commits": [], "add_only": True},
    "engines": [{"name": "lean4-proof+correspondence", "path": "bin/check", "serves_properties": [c["property_id"] for c in checks],
                 "kind_free_text": "Lean 4 (kernel-checked theorems about executable models; tables and translated code regenerated from /repo on every run) + differential run of the compiled Lean driver against libmpir.a rebuilt from the working tree"}],
    "checks": checks,
    "not_applicable": na,
    "notes": "Every check rebuilds libmpir.a from /repo's working tree (cached by content hash under /var/tmp/mpirvp, rebuilt when absent). See DESIGN.md.",
}
json.dump(man, open(os.path.join(vlib.VERIF, "MANIFEST.json"), "w"), indent=1)
print("MANIFEST: %d checks, %d not_applicable" % (len(checks), len(na)))
