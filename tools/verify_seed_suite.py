#!/usr/bin/env python3
"""verify_seed_suite.py [--workers N] [--jobs J] [ID ...]: for every seeded/<ID> (default: all that lack a `suite_confirmed`
entry) copy /repo to a scratch directory outside /repo and /verif, apply patch.diff, configure a static library there (no
chance of picking up another tree's shared library), build, run the repository's whole `make check`, and record the totals
in seeded/<ID>/meta.json.  The scratch copy is removed afterwards."""
import os, sys, json, subprocess, shutil, re, argparse, glob
from concurrent.futures import ThreadPoolExecutor
ap = argparse.ArgumentParser(); ap.add_argument("--workers", type=int, default=2); ap.add_argument("--jobs", type=int, default=5); ap.add_argument("ids", nargs="*")
a = ap.parse_args()
ROOT = "/var/tmp/suitechk"; os.makedirs(ROOT, exist_ok=True)
def sh(cmd, cwd, timeout=3600):
    p = subprocess.run("nice -n 12 " + cmd, shell=True, cwd=cwd, stdout=subprocess.PIPE, stderr=subprocess.STDOUT, text=True, timeout=timeout)
    return p.returncode, p.stdout
def one(sid):
    d = os.path.join("/verif/seeded", sid); mp = os.path.join(d, "meta.json"); meta = json.load(open(mp))
    w = os.path.join(ROOT, sid); shutil.rmtree(w, ignore_errors=True)
    try:
        subprocess.run(["rsync", "-a", "--exclude", ".git", "/repo/", w + "/"], check=True)
        sh("make distclean >/dev/null 2>&1; true", w)
        rc, out = sh("patch -p1 -s < %s/patch.diff" % d, w)
        if rc != 0: res = {"error": "patch does not apply to /repo HEAD: " + out[-300:]}
        else:
            rc, out = sh("./configure --disable-shared CFLAGS=-Wno-error > cfg.log 2>&1 && make -j%d > make.log 2>&1" % a.jobs, w)
            if rc != 0: res = {"error": "build failed: " + open(os.path.join(w, "make.log")).read()[-400:]}
            else:
                rc, out = sh("make -k check -j%d 2>&1 | grep -E '^(# (TOTAL|PASS|FAIL|ERROR|XFAIL|SKIP)|FAIL:|ERROR:)'" % a.jobs, w, timeout=5400)
                tot = sum(int(x) for x in re.findall(r"# TOTAL:\s+(\d+)", out)); ps = sum(int(x) for x in re.findall(r"# PASS:\s+(\d+)", out))
                fl = sum(int(x) for x in re.findall(r"# FAIL:\s+(\d+)", out)); er = sum(int(x) for x in re.findall(r"# ERROR:\s+(\d+)", out))
                res = {"total": tot, "pass": ps, "fail": fl, "error": er, "failing": re.findall(r"^(?:FAIL|ERROR): (\S+)", out, flags=re.M)[:10],
                       "how": "scratch copy of /repo HEAD + patch.diff, ./configure --disable-shared, make, make -k check (tools/verify_seed_suite.py)",
                       "repo_head": subprocess.check_output(["git", "-C", "/repo", "rev-parse", "--short", "HEAD"], text=True).strip()}
    except Exception as e:
        res = {"error": "exception: %s" % str(e)[:300]}
    finally:
        shutil.rmtree(w, ignore_errors=True)
    meta = json.load(open(mp)); meta["suite_confirmed"] = res; json.dump(meta, open(mp, "w"), indent=1)
    print(sid, res if "error" in res and isinstance(res.get("error"), str) else "%d/%d pass, %d fail, %d error %s" % (res["pass"], res["total"], res["fail"], res["error"], res["failing"]), flush=True)
ids = a.ids or [os.path.basename(p) for p in sorted(glob.glob("/verif/seeded/*")) if os.path.isdir(p) and "suite_confirmed" not in json.load(open(os.path.join(p, "meta.json")))]
with ThreadPoolExecutor(max_workers=a.workers) as ex: list(ex.map(one, ids))
