"""C20 generator, part: the accessor sub-objects of mpq_class.

`Q[i].get_num()` / `Q[i].get_den()` are `mpz_class &` references INTO an mpq_class object (cxxgen.Acc leaves `qnI` / `qdI`).
They are usable wherever an mpz_class is; the interesting statements are those whose target is the mpq object whose own
components occur in the expression (`q = q.get_den() * 2`: mpirxx.h evaluates the integer expression into the numerator
and only then sets the denominator to 1), and the assignments THROUGH the accessors.

statements(rng, tier, add) appends to the statement list of cxxgen.statements:
  * `assign` / `compound` / `cmp` / `sgn` / `init` statements (existing kinds) whose trees contain accessor leaves, targets
    mpz, mpq (the object whose accessors occur, and another one) and mpf;
  * kind `acc`:   `Q[i].get_num() = e; Q[i].get_den() op= r; …; Q[i].canonicalize();`   (1-4 steps, either field first; later
                  steps read the fields the earlier ones wrote)
  * kind `init2`: `mpq_class nw(e1, e2); nw.canonicalize();`
The C reference evaluates every right-hand side into C temporaries from the current contents of the pool variable, stores with
mpz_set into mpq_numref / mpq_denref, and calls mpq_canonicalize.  Lean: op `cxx_acc` (lean/Mpir/Ops/CxxAcc.lean) for the two new
kinds, `cxx_eval` / `cxx_evalf` with the leaves `qnI` / `qdI` for the others."""
from cxxgen import (Var, Acc, Bi, Un, Bin, Sh, Stmt, CRef, BINSYM, ZBIN, QBIN, ZUN, MAIN_BI, NB, NQ, NZ, builtins)

STEP_ATTRS = ["e", "r", "a", "b"]          # Stmt.trees() order: the operand trees of steps 1..4
ZCOMPOUND = ["add", "sub", "mul", "div", "mod", "and", "ior", "xor"]      # operators that exist as `op=` on mpz_class

# ---------------------------------------------------------------- the two new statement kinds
def acc_stmt(qi, steps, tags=()):
    """steps: [(den, op or None, operand tree)]"""
    kw = {}
    for (den, op, t), attr in zip(steps, STEP_ATTRS): kw[attr] = t
    return dict(tgt=("q", qi), steps=[(den, op, attr) for (den, op, t), attr in zip(steps, STEP_ATTRS)], tags=tags, **kw)

def stmt_cxx(s):
    if s.kind == "init2":
        return "mpq_class nw(%s, %s); nw.canonicalize();" % (s.a.cxx(), s.b.cxx()), ("new", "q")
    i = s.tgt[1]; parts = []
    for den, op, attr in s.steps:
        parts.append("%s %s= %s;" % (Acc(i, den).cxx(), BINSYM[op] if op else "", getattr(s, attr).cxx()))
    parts.append("Q[%d].canonicalize();" % i)
    return " ".join(parts), ("var", "q", i)

def stmt_pre(s):
    if s.kind == "init2": return "new2 %s %s" % (s.a.pre(), s.b.pre())
    out = ["acc", str(s.tgt[1]), str(len(s.steps))]
    for den, op, attr in s.steps:
        out += ["d" if den else "n", op or "set", getattr(s, attr).pre()]
    return " ".join(out)

def stmt_cref(st):
    cr = CRef("cprec")
    if st.kind == "init2":
        n, ty = cr.ev(st.a); assert ty == "z"
        m, ty = cr.ev(st.b); assert ty == "z"
        # the constructor copies both arguments (mpz_init_set) after both temporaries exist; NQ is not a pool variable
        cr.code += ["mpz_set(mpq_numref(NQ), %s);" % n, "mpz_set(mpq_denref(NQ), %s);" % m, "mpq_canonicalize(NQ);"]
        return cr.code, ("obj", "NQ", "q")
    i = st.tgt[1]
    for den, op, attr in st.steps:
        t = getattr(st, attr)
        e = t if op is None else Bin(op, Acc(i, den), t)
        if isinstance(e, Bi): raise ValueError("accessor assignment from a built-in is not a template statement")
        n, ty = cr.ev(e); assert ty == "z"
        cr.code.append("mpz_set(%s, %s);" % (Acc(i, den).cref(), n))
    cr.code.append("mpq_canonicalize(Qc[%d]);" % i)
    return cr.code, ("obj", "Qc[%d]" % i, "q")

def parse_corpus(h, tok, tree, opnd):
    """corpus syntax = the prefix syntax of stmt_pre"""
    if h == "new2":
        a = tree(); b = tree(); return Stmt("init2", a=a, b=b, tags=("corpus", "acc"))
    i = int(tok()); n = int(tok()); steps = []
    for _ in range(n):
        den = tok() == "d"; k = tok()
        steps.append((den, None, tree()) if k == "set" else (den, k, opnd()))
    return Stmt("acc", **acc_stmt(i, steps, tags=("corpus", "acc")))

# ---------------------------------------------------------------- enumeration
def statements(rng, tier, add):
    thorough = tier == "thorough"
    st = {}
    def rot(lst, key):
        i = st.get(key, 0); st[key] = i + 1; return lst[i % len(lst)]
    def ok(*trees):
        return sum(len(builtins(t)) for t in trees) <= NB
    def bi(): return Bi(rot(MAIN_BI, "bi"))
    N, D = (lambda q: Acc(q, False)), (lambda q: Acc(q, True))
    def leaf(p, r=None):
        """a random mpz-typed leaf; p: the mpq object whose accessors are preferred"""
        x = (r or rng).random()
        if x < 0.3: return D(p)
        if x < 0.55: return N(p)
        if x < 0.7: return Acc((p + 1 + rng.randrange(NQ - 1)) % NQ, rng.random() < 0.5)
        return Var("z", rng.randrange(NZ))
    def ztree(depth, p):
        """random mpz-typed tree of the given depth over accessor / mpz leaves and built-ins"""
        if depth == 0: return leaf(p)
        x = rng.random()
        if x < 0.1: return Un(rng.choice(["neg", "com", "abs", "pos", "sqrt"] if rng.random() < 0.3 else ["neg", "com", "abs"]), ztree(depth - 1, p))
        if x < 0.17: return Sh(rng.choice(["shl", "shr"]), ztree(depth - 1, p), Bi("unsigned long"))
        op = rng.choice(ZBIN)
        big = ztree(depth - 1, p)
        other = Bi(rng.choice(MAIN_BI)) if rng.random() < 0.25 else ztree(rng.randrange(depth), p)
        return Bin(op, big, other) if rng.random() < 0.5 else Bin(op, other, big)
    def has_acc(t, p=None): return any(q == "q" and (p is None or i == p) for q, i in t.vars())
    def some_ztree(depth, p):
        while True:
            t = ztree(depth, p)
            if has_acc(t, p) and ok(t): return t
    def targets(p, full):
        """(type, slot, tag): the mpq object whose accessors occur, another mpq object, an mpz, an mpf"""
        out = [("q", p, "acc-self")]
        if full: out += [("q", (p + 1) % NQ, "acc-other"), ("z", 0, "none"), ("f", 0, "none")]
        else: out.append(rot([("q", (p + 1) % NQ, "acc-other"), ("z", 0, "none"), ("f", 0, "none")], "tg"))
        return out
    def assign(tgt, e, depth, tag):
        add("assign", tgt=tgt, e=e, tags=("acc", "d%d" % depth, "alias:" + tag) + (("mpf",) if tgt[0] == "f" else ()))

    # ---- depth 0: q = q.get_den(), q = r.get_num(), z = q.get_den(), f = q.get_num()
    for p in range(NQ if thorough else 2):
        for mk in (N, D):
            for ty, i, tag in targets(p, True): assign((ty, i), mk(p), 0, tag)
    # ---- depth 1, mpz-typed: every operator x operand pattern; target = the object itself (all), others rotating
    for p in ([0, 1, 2] if thorough else [0]):
        pats = [lambda: (D(p), N(p)), lambda: (N(p), D(p)), lambda: (D(p), D(p)), lambda: (N(p), N(p)),
                lambda: (D(p), Var("z", 1)), lambda: (Var("z", 1), D(p)), lambda: (N(p), Var("z", 2)), lambda: (Var("z", 0), N(p)),
                lambda: (D(p), bi()), lambda: (bi(), D(p)), lambda: (N(p), bi()), lambda: (bi(), N(p)),
                lambda: (D(p), N((p + 1) % NQ)), lambda: (D((p + 2) % NQ), N(p))]
        for op in ZBIN:
            for pat in pats:
                for ty, i, tag in targets(p, thorough):
                    a, b = pat(); assign((ty, i), Bin(op, a, b), 1, tag)
        for op in ZUN:
            for mk in (N, D):
                for ty, i, tag in targets(p, thorough): assign((ty, i), Un(op, mk(p)), 1, tag)
        for op in ("shl", "shr"):
            for mk in (N, D):
                for ty, i, tag in targets(p, thorough): assign((ty, i), Sh(op, mk(p), Bi("unsigned long")), 1, tag)
    # ---- depth 2, mpz-typed: every (outer, inner) operator pair on both sides, leaves random but with an accessor of the target
    for o1 in ZBIN:
        for o2 in ZBIN:
            p = rng.randrange(NQ)
            while True:
                inner = Bin(o2, leaf(p), bi() if rng.random() < 0.2 else leaf(p))
                other = rng.choice([leaf(p), leaf(p), bi(), Bin(rng.choice(ZBIN), leaf(p), leaf(p))])
                e = Bin(o1, inner, other) if rng.random() < 0.5 else Bin(o1, other, inner)
                if has_acc(e, p) and ok(e): break
            for ty, i, tag in targets(p, thorough): assign((ty, i), e, 2, tag)
    # ---- depth 2-4, mpz-typed, sampled
    for d, n in ((2, 400 if thorough else 40), (3, 1500 if thorough else 60), (4, 800 if thorough else 30)):
        for _ in range(n):
            p = rng.randrange(NQ); e = some_ztree(d, p)
            ty, i, tag = ("q", p, "acc-self") if rng.random() < 0.7 else rng.choice(targets(p, True))
            assign((ty, i), e, d, tag)
    # ---- mpq-typed trees with accessor operands: q = r op q.get_den(), q = q.get_num() op (r op' l), q = (q.get_den() op z) op r ...
    def qleaf(p): return Var("q", p if rng.random() < 0.4 else rng.randrange(NQ))
    for op in QBIN:
        for p in ([0, 1, 2] if thorough else [0, 1]):
            for mk in (N, D):
                for r in (p, (p + 1) % NQ):
                    for side in (0, 1):
                        e = Bin(op, Var("q", r), mk(p)) if side == 0 else Bin(op, mk(p), Var("q", r))
                        for ty, i, tag in targets(p, thorough): assign((ty, i), e, 1, tag)
    for _ in range(1500 if thorough else 150):
        p = rng.randrange(NQ); op = rng.choice(QBIN); op2 = rng.choice(QBIN)
        zt = some_ztree(rng.choice([0, 0, 1, 1, 2]), p)
        qt = rng.choice([lambda: qleaf(p), lambda: Bin(op2, qleaf(p), rng.choice([qleaf(p), bi(), leaf(p)])), lambda: Bin(op2, leaf(p), qleaf(p)),
                         lambda: Un(rng.choice(["neg", "abs"]), qleaf(p)), lambda: Bin(op2, Bin(rng.choice(QBIN), qleaf(p), leaf(p)), qleaf(p))])()
        e = Bin(op, qt, zt) if rng.random() < 0.5 else Bin(op, zt, qt)
        if not ok(e): continue
        ty, i, tag = ("q", p, "acc-self") if rng.random() < 0.7 else rng.choice(targets(p, True))
        assign((ty, i), e, e.depth, tag)
    # ---- compound assignments with accessor operands
    for op in ZCOMPOUND:
        for r in (D(0), N(1), Bin("mul", D(0), N(0))): add("compound", op=op, tgt=("z", 0), r=r, tags=("acc", "compound"))
    for op in QBIN:
        for r in (D(0), N(0), D(1), Bin("add", D(0), N(0)), Bin("mul", N(0), Var("z", 1)), Bin(op, Var("q", 0), D(0)), Bin("sub", D(0), Var("q", 1))):
            add("compound", op=op, tgt=("q", 0), r=r, tags=("acc", "compound", "alias:acc-self"))
        for r in (D(0), Bin("sub", N(0), D(0))): add("compound", op=op, tgt=("f", 0), r=r, tags=("acc", "compound", "mpf"))
    # ---- comparisons, cmp, sgn
    opnds = [lambda: N(0), lambda: D(0), lambda: N(1), lambda: Bin("mul", D(0), N(1)), lambda: Bin("sub", N(0), D(0)), lambda: Var("z", 0),
             lambda: Var("q", 0), lambda: Var("q", 1), lambda: Bin("add", Var("q", 0), D(0)), lambda: Bi("long"), lambda: Bi("unsigned long"), lambda: Bi("double"), lambda: Var("f", 0)]
    for op in ("eq", "ne", "lt", "le", "gt", "ge", "cmp"):
        for i, fa in enumerate(opnds):
            for j, fb in enumerate(opnds):
                a, b = fa(), fb()
                if isinstance(a, Bi) and isinstance(b, Bi): continue
                if not any(isinstance(y, Acc) for x in (a, b) for y in _leaves(x)): continue
                if not thorough and rng.random() < (0.6 if op in ("lt", "cmp", "eq") else 0.9): continue
                add("cmp", op=op, a=a, b=b, tags=("acc", "cmp") + (("mpf",) if "f" in (a.ty, b.ty) else ()))
    for a in (N(0), D(0), Bin("sub", N(0), D(0)), Bin("sub", Var("q", 0), D(0)), Un("neg", N(1))): add("sgn", a=a, tags=("acc", "cmp"))
    # ---- constructors from expressions with accessor leaves
    for tty in ("z", "q", "f"):
        for e in (D(0), Bin("mul", N(0), D(0)), Bin("sub", D(1), Bin("mul", N(1), Var("z", 0))), Bin("add", Var("q", 0), D(0))):
            add("init", ty=tty, e=e, tags=("acc", "init") + (("mpf",) if tty == "f" else ()))
    # ---- assignment THROUGH the accessors, then canonicalize()
    def acc(qi, steps, tag):
        if ok(*[t for _, _, t in steps]): add("acc", **acc_stmt(qi, steps, tags=("acc", "acc-assign", tag)))
    p = 0
    srcs = [lambda: D(p), lambda: N(p), lambda: Var("z", 1), lambda: N(1), lambda: Bin("mul", D(p), N(p)), lambda: Bin("sub", D(p), Var("z", 0)),
            lambda: Bin("add", N(p), bi()), lambda: Bin("mul", bi(), D(p)), lambda: Un("neg", D(p)), lambda: Bin("add", Bin("mul", N(p), Var("z", 2)), D(p)),
            lambda: Bin("sub", D(p), Bin("mul", N(p), D(p))), lambda: Sh("shl", N(p), Bi("unsigned long")), lambda: Bin("gcd", N(p), D(p)), lambda: Bin("div", D(p), N(p))]
    for den in (False, True):
        for f in srcs: acc(p, [(den, None, f())], "one-step")
        for op in ZCOMPOUND:
            for r in (lambda: D(p), lambda: N(p), lambda: Var("z", 3), lambda: D(1), lambda: Bi("long"), lambda: Bi("unsigned long"), lambda: Bi("int"), lambda: Bi("double"),
                      lambda: Bin("mul", D(p), N(p)), lambda: Bin("sub", Var("z", 1), D(p))):
                acc(p, [(den, op, r())], "compound")
    for first in (False, True):           # both fields, either order; the second right-hand side reads the field written first
        for f1 in srcs:
            f2 = rot(srcs, "s2")
            acc(p, [(first, None, f1()), (not first, None, f2())], "two-steps")
        for op in ZCOMPOUND:
            acc(p, [(first, None, rot(srcs, "s3")()), (not first, op, rot(srcs, "s4")())], "two-steps")
            acc(p, [(first, op, rot(srcs, "s5")()), (not first, rng.choice(ZCOMPOUND), leaf(p))], "two-steps")
    for _ in range(600 if thorough else 60):
        p = rng.randrange(NQ); n = rng.choice([1, 2, 2, 3, 4]); steps = []
        for k in range(n):
            den = rng.random() < 0.5
            if rng.random() < 0.6: steps.append((den, None, some_ztree(rng.choice([0, 1, 1, 2]), p)))
            else: steps.append((den, rng.choice(ZCOMPOUND), rng.choice([lambda: some_ztree(rng.choice([0, 1]), p), lambda: bi(), lambda: leaf(p)])()))
        acc(p, steps, "sampled")
    p = 0
    # ---- mpq_class(z1, z2) from expressions
    for f1 in srcs:
        for f2 in (rot(srcs, "i2"), rot(srcs, "i3")):
            a, b = f1(), f2()
            if ok(a, b): add("init2", a=a, b=b, tags=("acc", "init2"))
    for _ in range(300 if thorough else 30):
        pp = rng.randrange(NQ); a, b = some_ztree(rng.choice([0, 1, 2]), pp), some_ztree(rng.choice([0, 1, 2]), pp)
        if ok(a, b): add("init2", a=a, b=b, tags=("acc", "init2"))

def _leaves(t):
    if isinstance(t, (Var, Bi)): return [t]
    if isinstance(t, (Un, Sh)): return _leaves(t.a)
    return _leaves(t.a) + _leaves(t.b)
