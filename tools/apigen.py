"""Argument generation for the generic API table (tools/gen_api.py): values that respect each function's
documented preconditions, small enough to run fast, and shaped to take interesting internal paths."""
import re, struct
from genlib import *
import gen_api

_table = None
def table(build):
    global _table
    if _table is None:
        t, skipped = gen_api.classify(gen_api.prototypes(build))
        _table = (t, skipped)
    return _table

def fz(rng, big=False, nonzero=False, pos=False, maxl=5):
    while True:
        if big or rng.random() < 0.07: v = rand_int(rng, 40)
        else: v = rand_int(rng, maxl)
        if rng.random() < 0.1: v = rng.choice([0, 1, -1, 2, -2, (1 << 64), -(1 << 64), (1 << 64) - 1, (1 << 128), -(1 << 128) + 1])
        if pos: v = abs(v)
        if nonzero and v == 0: continue
        return v

def fq(rng):
    from math import gcd
    n = fz(rng, maxl=3); d = abs(fz(rng, nonzero=True, maxl=3))
    if rng.random() < 0.2: d = 1 << rng.randrange(0, 130)
    if rng.random() < 0.2: n = n << rng.randrange(0, 130)
    g = gcd(n, d)
    return (n // g, d // g) if n else (0, 1)

def ff(rng, prec=None):
    prec = prec or rng.choice([2, 2, 3, 4, 5, 9])
    n = rng.choice([0, 1, 1, 2, prec, prec + 1, prec + 1, max(1, prec - 1)])
    n = min(n, prec + 1)
    if n == 0: return (prec, 0, 0, [])
    l = rand_limbs(rng, n, rng.choice(["uniform", "runs", "ones", "sparse", "uniform"]))
    if l[-1] == 0: l[-1] = rng.choice([1, 1 << 63, M, rng.getrandbits(64) | 1])
    e = rng.choice([0, 1, 1, 2, n, n, n + 1, -1, -3, rng.randrange(-6, 10)])
    s = -n if rng.random() < 0.4 else n
    return (prec, s, e, l)

def dbits(x):
    return struct.unpack("<Q", struct.pack("<d", float(x)))[0]

SMALL_UI = [0, 1, 2, 3, 4, 5, 7, 10, 16, 17, 31, 64, 65, 100, 127, 200]
BIG_UI_OK = re.compile(r"(add|sub|mul|set|cmp|cmpabs|gcd|lcm|addmul|submul|divexact|div_q|div_r|div_qr|div|tdiv|cdiv|fdiv|ui_sub|ui_div|divisible|congruent|kronecker|sqrt|si_kronecker|ui_kronecker|mod)_?(ui|si|ux|sx)?(_p)?$|_ui_p$|^mpz_(ui|si)_kronecker$|^mpf_(ui_sub|ui_div|sqrt_ui|div_ui|mul_ui|add_ui|sub_ui|set_ui|set_si|cmp_ui|cmp_si)$|^mpq_(set_ui|set_si|cmp_ui|cmp_si)$|_(q|r|qr)_ui$|^mpz_[tcf]div_ui$")
def fu(rng, name, idx):
    if re.search(r"(fac_ui|primorial_ui|fib_ui|fib2_ui|lucnum_ui|lucnum2_ui)$", name): return rng.choice([0, 1, 2, 3, 20, 21, 33, 34, 35, 92, 93, 94, 100, 150, rng.randrange(0, 400)])
    if name == "mpz_mfac_uiui": return rng.choice([0, 1, 2, 3, 5, 30, 60, rng.randrange(0, 200)]) if idx == 0 else rng.choice([1, 2, 3, 5, 7, 100])
    if name in ("mpz_bin_ui", "mpz_bin_uiui"): return rng.choice([0, 1, 2, 3, 10, 33, 66, 67, rng.randrange(0, 90)])
    if re.search(r"pow_ui$|powm_ui$", name): return rng.choice([0, 1, 2, 3, 5, 17, 30, rng.randrange(0, 40)])
    if re.search(r"(root|nthroot|rootrem)$", name): return rng.choice([1, 2, 3, 4, 5, 7, 64])
    if name in ("mpz_probable_prime_p", "mpz_likely_prime_p"): return 0
    if name == "mpz_trial_division": return rng.choice([2, 3, 100])
    if BIG_UI_OK.search(name):
        return rng.choice(SMALL_UI + [M, M - 1, 1 << 63, (1 << 63) - 1, 1 << 32, rng.getrandbits(64), rng.getrandbits(64)])
    return rng.choice(SMALL_UI)

def fs(rng, name):
    v = fu(rng, name, 0) & ((1 << 63) - 1)
    if rng.random() < 0.5: v = -v
    if rng.random() < 0.05: v = -(1 << 63)
    return v

def fb(rng, name):
    return rng.choice([0, 1, 2, 63, 64, 65, 127, 128, 129, 200, rng.randrange(0, 400)])

def fd(rng):
    import math
    c = rng.random()
    if c < 0.3: return dbits(rng.choice([0.0, 1.0, -1.0, 0.5, -0.75, 2.0 ** 53, 2.0 ** 53 + 2, -2.0 ** 63, 2.0 ** 64, 1e300, -1e-300, 5e-324, 123456789.125]))
    m = rng.getrandbits(52); e = rng.randrange(1, 2047 - 1) if rng.random() < 0.3 else rng.randrange(1023 - 70, 1023 + 200)
    return (rng.getrandbits(1) << 63) | (e << 52) | m

def gen_args(rng, name, sig, P=None, mask=0, P2=None, mask2=0):
    """returns list of token strings per parameter (list of lists), honouring preconditions"""
    toks = []
    ucount = 0
    zvals = []
    for i, c in enumerate(sig):
        if c in "Zz":
            kw = {}
            if name in ("mpz_jacobi", "mpz_legendre") and c == "z" and len(zvals) == 1: v = abs(fz(rng, maxl=3)) | 1
            elif re.search(r"prime|miller", name): v = abs(fz(rng, maxl=2))
            elif name == "mpz_remove" and c == "z" and len(zvals) == 2:
                v = fz(rng, maxl=2)
                if abs(v) < 2: v = rng.choice([2, 3, -2, 10, 1 << 64])
            elif re.search(r"powm", name): v = fz(rng, maxl=3)
            elif re.search(r"(root|sqrt|perfect)", name): v = fz(rng, maxl=6)
            else: v = fz(rng)
            zvals.append(v); toks.append([hx(v)])
        elif c in "Qq":
            n, d = fq(rng); toks.append([hx(n), hx(d)])
        elif c in "Ff":
            p, s, e, l = ff(rng); toks.append([hx(p), hx(s), hx(e), vec(l)])
        elif c == "u": toks.append([hx(fu(rng, name, ucount))]); ucount += 1
        elif c == "s": toks.append([hx(fs(rng, name))])
        elif c == "d": toks.append(["%x" % fd(rng)])
        elif c == "b": toks.append([hx(fb(rng, name))])
        elif c == "i":
            if name == "mpz_sizeinbase": toks.append([hx(rng.randrange(2, 63))])
            else: toks.append([hx(rng.choice([1, 2, 5, 10]))])
        elif c == "n": toks.append([hx(rng.randrange(0, 4))])
        elif c == "r": toks.append([hx(rng.randrange(1, 1000))])
    # alias group: the output parameter P and the inputs in `mask` are one variable, so one value
    group = set()
    if P is not None and mask:
        group = {i for i in range(len(sig)) if mask >> i & 1}
        first = min(group)
        for i in group | {P}: toks[i] = toks[first]
        group = group | {P}
    group2 = set()
    if P2 is not None and mask2:
        group2 = {i for i in range(len(sig)) if mask2 >> i & 1}
        f2 = min(group2)
        for i in group2 | {P2}: toks[i] = toks[f2]
        group2 = group2 | {P2}
    def val(i): return int(toks[i][0], 16) if not toks[i][0].startswith("-") else -int(toks[i][0][1:], 16)
    def setval(i, v):
        for j in (group if i in group else group2 if i in group2 else {i}): toks[j] = [hx(v)]
    zi = [i for i, c in enumerate(sig) if c in "Zz"]
    # preconditions, re-established after grouping
    if name == "mpz_divexact":
        n, d = zi[1], zi[2]
        if val(d) == 0: setval(d, rng.choice([3, -7, 1 << 64]))
        if n not in group or d not in group: setval(n, val(d) * fz(rng, maxl=3))
        if val(d) == 0: setval(d, 5); 
    if name == "mpz_divexact_ui":
        u = int(toks[2][0], 16) or 3; toks[2] = [hx(u)]; setval(zi[1], u * fz(rng, maxl=3))
    if name in ("mpz_jacobi", "mpz_legendre"):
        setval(zi[1], abs(val(zi[1])) | 1)
    if name == "mpz_remove" and abs(val(zi[2])) < 2:
        setval(zi[2], rng.choice([2, 3, -2, 10, 1 << 64]))
    return toks
