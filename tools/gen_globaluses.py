#!/usr/bin/env python3
"""X translator for C15 (source side): escape analysis of every object with static storage in a writable section.

The object list and the list of archive members that reference each object come from the binary
(tools/gen_globals.py).  Every such member's translation unit is parsed with clang-14 (-ast-dump=json, macros
expanded) and EVERY occurrence of the object in an expression is classified by what happens to the lvalue:

  read      the value (or an element / field) is loaded
  write     assigned, compound-assigned, ++/-- (also through a local pointer alias: `p = tab; p[i] = x`)
  constArg  its address is passed to a parameter declared pointer-to-const; when the callee is defined in the library the
            parameter is then followed inside the callee like a local alias (4 levels), so a callee that casts the const
            away and writes shows up as a `write` of the object
  mutArg    its address is passed to a parameter declared pointer-to-non-const (or variadic): callee may write
  cmp       its address is only compared / tested / subtracted
  sizeof    unevaluated operand
  stored    its address is stored to memory (field, global, static initialiser) : escapes
  returned  its address is returned to the caller : escapes
  other     anything the classifier does not understand (counts as a possible write)

Addresses that flow into LOCAL pointer variables are followed inside the function (flow-insensitive fixpoint):
`unsigned char *addp = addtab; ... *addp ... addp++` are reads of `addtab`.
Output: lean/Mpir/Gen/GlobalUses.lean (+ a per-category report for the evidence)."""
import os, re, sys, json, subprocess, glob
from concurrent.futures import ThreadPoolExecutor
sys.path.insert(0, os.path.dirname(os.path.abspath(__file__)))
import vlib, gen_globals

SRC_DIRS = ["", "mpz", "mpq", "mpf", "mpn", "printf", "scanf", "fft"]
READONLY_KINDS = ("read", "constArg", "cmp", "sizeof")

def member_sources(build, member):
    base = re.sub(r"^lt\d+-", "", member)[:-2]
    out = []
    for d in SRC_DIRS:
        p = os.path.join(build, d, base + ".c")
        if os.path.exists(p): out.append(p)
    return out

def member_is_asm(build, member):
    base = re.sub(r"^lt\d+-", "", member)[:-2]
    return any(os.path.exists(os.path.join(build, "mpn", base + e)) for e in (".asm", ".as", ".s", ".S"))

def clang_ast(build, path):
    d = os.path.dirname(path); defs = []
    if os.path.basename(d) == "mpn": defs = ["-DOPERATION_" + os.path.basename(path)[:-2]]
    cmd = ["clang-14", "-fsyntax-only", "-w", "-x", "c", "-DHAVE_CONFIG_H", "-D__GMP_WITHIN_GMP", "-I" + build, "-I" + d, "-I" + os.path.join(build, "fft")] + defs + \
          ["-Xclang", "-ast-dump=json", path]
    p = subprocess.run(cmd, stdout=subprocess.PIPE, stderr=subprocess.PIPE, cwd=d)
    if p.returncode != 0 or not p.stdout: raise RuntimeError("clang cannot parse %s: %s" % (path, p.stderr.decode(errors="replace")[:400]))
    return json.loads(p.stdout)

def annotate_lines(tree, main_file):
    """clang prints `file`/`line` only when they change; replay the printing order and store on every node with a
    range the (file, line) of the expansion location of its begin."""
    st = {"file": main_file, "line": 0}
    def loc(d):
        if "spellingLoc" in d or "expansionLoc" in d:
            r = None
            for k in ("spellingLoc", "expansionLoc"):
                if k in d: r = loc(d[k])
            return r
        if "file" in d: st["file"] = d["file"]
        if "line" in d: st["line"] = d["line"]
        return (st["file"], st["line"], d.get("col", 0))
    def walk(n):
        if "loc" in n and isinstance(n["loc"], dict) and n["loc"]: loc(n["loc"])
        if "range" in n:
            b = n["range"].get("begin", {}); e = n["range"].get("end", {})
            if b: n["_at"] = loc(b)
            if e: loc(e)
        for c in n.get("inner", []):
            if isinstance(c, dict): walk(c)
    sys.setrecursionlimit(20000)
    walk(tree)

def fn_params(qual):
    """parameter type strings of a function (pointer) type string, and whether it is variadic"""
    q = qual.strip()
    depth = 0; end = q.rfind(")")
    if end < 0: return None, False
    i = end
    while i >= 0:
        if q[i] == ")": depth += 1
        elif q[i] == "(":
            depth -= 1
            if depth == 0: break
        i -= 1
    inner = q[i + 1:end]
    parts = []; depth = 0; cur = ""
    for ch in inner:
        if ch in "([": depth += 1
        elif ch in ")]": depth -= 1
        if ch == "," and depth == 0: parts.append(cur.strip()); cur = ""
        else: cur += ch
    if cur.strip(): parts.append(cur.strip())
    var = bool(parts) and parts[-1] == "..."
    if var: parts.pop()
    if parts == ["void"]: parts = []
    return parts, var

def pointee_const(t):
    """is `t` (a parameter / variable type string) a pointer whose pointee is const-qualified?"""
    t = re.sub(r"\b(restrict|__restrict|volatile)\b", "", t).strip()
    t = re.sub(r"\s*\*\s*const\s*$", " *", t).strip()
    t = re.sub(r"\[[^\]]*\]$", "*", t).strip()          # array parameter
    if not t.endswith("*"): return False
    p = t[:-1].strip()
    if "(" in p: return False
    if "*" in p: return p.endswith("const")
    return re.search(r"\bconst\b", p) is not None

class TU:
    def __init__(self, build, path, names_global, names_local, param_seeds=None):
        self.build, self.path = build, path
        self.param_seeds = param_seeds or {}      # function name -> {parameter index (0-based): set of origins}
        self.rel = os.path.relpath(os.path.realpath(path) if os.path.islink(path) else path, os.path.realpath(build))
        self.names_global, self.names_local = names_global, names_local
        self.uses = {}     # (node id, obj) -> record
        self.decls = {}    # VarDecl id -> dict(name, static, filescope, node)
        self.typedefs = {} # typedef name -> underlying type string
        self.defined = set()   # names of functions with a body and of file-scope variables defined here

    def run(self):
        tree = clang_ast(self.build, self.path)
        annotate_lines(tree, self.path)
        # collect variable declarations
        def collect(n, infn):
            k = n.get("kind")
            if k in ("VarDecl", "ParmVarDecl"):
                self.decls[n["id"]] = dict(name=n.get("name", ""), sc=n.get("storageClass", ""), filescope=not infn, parm=(k == "ParmVarDecl"),
                                           type=n.get("type", {}).get("qualType", ""))
            elif k == "TypedefDecl":
                t = n.get("type", {}); self.typedefs[n.get("name", "")] = t.get("desugaredQualType") or t.get("qualType", "")
            for c in n.get("inner", []):
                if isinstance(c, dict): collect(c, infn or k == "FunctionDecl")
        collect(tree, False)
        for top in tree.get("inner", []):
            k = top.get("kind")
            if k == "FunctionDecl" and any(c.get("kind") == "CompoundStmt" for c in top.get("inner", [])):
                self.defined.add(top.get("name", "")); self.function(top)
            elif k == "VarDecl":
                if top.get("storageClass") != "extern": self.defined.add(top.get("name", ""))
                self.function(top, static_init=True)
        return list(self.uses.values()), sorted(self.defined)

    def untypedef(self, t):
        for _ in range(6):
            m = re.match(r"^(const\s+)?([A-Za-z_]\w*)(\s*const)?$", t.strip())
            if not m or m.group(2) not in self.typedefs: return t
            u = self.typedefs[m.group(2)]
            if m.group(1) or m.group(3):
                u = (u.rstrip() + " const") if u.rstrip().endswith("*") else ("const " + u)
            t = u
        return t

    def tracked(self, did, name):
        d = self.decls.get(did)
        if not d or d["parm"]: return None
        if d["filescope"] or d["sc"] == "extern":
            if name in self.names_global: return ("G", name)
            if name in self.names_local: return ("L", name)
        elif d["sc"] == "static" and name in self.names_local: return ("L", name)
        return None

    def function(self, fn, static_init=False):
        fname = "" if static_init else fn.get("name", "?")
        refs = []       # (DeclRefExpr node, parents)
        def walk(n, parents):
            if n.get("kind") == "DeclRefExpr" and n.get("referencedDecl", {}).get("kind") in ("VarDecl", "ParmVarDecl"):
                refs.append((n, parents))
            for c in n.get("inner", []):
                if isinstance(c, dict): walk(c, parents + [n])
        walk(fn, [])
        tainted = {}        # local VarDecl id -> set of (scope, name[, defining member])
        if not static_init and fname in self.param_seeds:
            parms = [c for c in fn.get("inner", []) if isinstance(c, dict) and c.get("kind") == "ParmVarDecl"]
            for i, org in self.param_seeds[fname].items():
                if i < len(parms): tainted[parms[i]["id"]] = set(org)
        for _ in range(8):
            changed = False
            for n, parents in refs:
                rd = n["referencedDecl"]; did, name = rd["id"], rd.get("name", "")
                tr = self.tracked(did, name)
                if tr: origins, state, via = {tr}, "LV_OBJ", ""
                elif did in tainted: origins, state, via = set(tainted[did]), "LV_LOCAL", name
                else: continue
                kind, detail, taint = self.climb(n, parents, state)
                if taint is not None:
                    cur = tainted.setdefault(taint, set())
                    if not origins <= cur: cur |= origins; changed = True
                    continue
                if kind is None: continue
                at = n.get("_at") or ("?", 0, 0)
                for o in origins:
                    self.uses[(n["id"], o, kind)] = dict(obj=o[1], scope=o[0], objmember=(o[2] if len(o) > 2 else None), path=self.path, file=self.rel, func=fname, line=at[1], col=at[2],
                                                         srcfile=at[0], kind=kind, via=(via + (":" if via and detail else "") + detail))
            if not changed: break

    def climb(self, node, parents, state):
        """follow the expression upwards; returns (kind, detail, tainted local id)"""
        child = node
        for par in reversed(parents):
            k = par.get("kind"); inner = [c for c in par.get("inner", []) if isinstance(c, dict)]
            idx = next((i for i, c in enumerate(inner) if c is child), -1)
            op = par.get("opcode"); ck = par.get("castKind")
            if k in ("ParenExpr", "ConstantExpr", "ExprWithCleanups"): child = par; continue
            if k == "UnaryExprOrTypeTraitExpr": return ("sizeof", "", None)
            if state == "LV_LOCAL":
                if k == "ImplicitCastExpr" and ck == "LValueToRValue": state = "PTR"
                elif k == "UnaryOperator" and op in ("++", "--"): state = "PTR"        # the local moves; the value still points into the object
                elif k == "BinaryOperator" and op == "=" and idx == 0: return (None, "", None)      # the local is overwritten
                elif k == "CompoundAssignOperator" and idx == 0: state = "PTR"
                elif k in ("CStyleCastExpr", "ImplicitCastExpr") and ck == "NoOp": pass
                else: return ("other", "local alias used as " + str(k) + (":" + op if op else ""), None)
                child = par; continue
            if state == "LV_OBJ":
                if k == "ImplicitCastExpr" and ck == "ArrayToPointerDecay": state = "PTR"
                elif k == "ImplicitCastExpr" and ck == "LValueToRValue": return ("read", "", None)
                elif k in ("CStyleCastExpr", "ImplicitCastExpr") and ck in ("NoOp", "LValueBitCast"): pass
                elif k == "MemberExpr" and not par.get("isArrow"): pass
                elif k == "UnaryOperator" and op == "&": state = "PTR"
                elif k == "UnaryOperator" and op in ("++", "--"): return ("write", op, None)
                elif k == "UnaryOperator" and op in ("__real", "__imag", "__extension__"): pass
                elif k == "BinaryOperator" and op == "=" and idx == 0: return ("write", "=", None)
                elif k == "CompoundAssignOperator" and idx == 0: return ("write", op or "op=", None)
                elif k == "BinaryOperator" and op == "," and idx == 1: pass
                elif k == "BinaryOperator" and op == "," and idx == 0: return ("read", "discarded", None)
                elif k == "ConditionalOperator" and idx > 0: pass
                elif k in ("CompoundStmt",): return ("read", "discarded", None)
                elif k == "GCCAsmStmt": return ("other", "asm operand", None)
                else: return ("other", "lvalue used as " + str(k) + (":" + op if op else ""), None)
                child = par; continue
            # state == PTR: a pointer into the object
            if k in ("CStyleCastExpr", "ImplicitCastExpr"):
                if ck in ("NoOp", "BitCast"): child = par; continue
                if ck == "PointerToBoolean": return ("cmp", "", None)
                if ck == "LValueToRValue": return ("read", "", None)
                return ("other", "pointer cast " + str(ck), None)
            if k == "UnaryOperator":
                if op == "*": state = "LV_OBJ"; child = par; continue
                if op == "!": return ("cmp", "", None)
                if op == "__extension__": child = par; continue
                return ("other", "unary " + str(op), None)
            if k == "ArraySubscriptExpr": state = "LV_OBJ"; child = par; continue
            if k == "MemberExpr" and par.get("isArrow"): state = "LV_OBJ"; child = par; continue
            if k == "BinaryOperator":
                if op in ("+", "-"):
                    if "*" in par.get("type", {}).get("qualType", ""): child = par; continue
                    return ("cmp", "pointer difference", None)
                if op in ("==", "!=", "<", ">", "<=", ">=", "&&", "||"): return ("cmp", "", None)
                if op == ",":
                    if idx == 1: child = par; continue
                    return ("cmp", "discarded", None)
                if op == "=" and idx == 1:
                    lhs = inner[0]
                    while lhs.get("kind") == "ParenExpr": lhs = lhs["inner"][0]
                    if lhs.get("kind") == "DeclRefExpr":
                        d = self.decls.get(lhs.get("referencedDecl", {}).get("id"))
                        if d and not d["filescope"] and d["sc"] not in ("static", "extern") and not d["parm"]:
                            return (None, "", lhs["referencedDecl"]["id"])
                        if d and d["parm"]: return (None, "", lhs["referencedDecl"]["id"])      # a by-value parameter reused as a local
                    return ("stored", "assigned to " + self.text(lhs), None)
                return ("other", "binary " + str(op), None)
            if k == "CompoundAssignOperator": return ("other", "compound " + str(op), None)
            if k == "ConditionalOperator":
                if idx == 0: return ("cmp", "", None)
                child = par; continue
            if k == "CallExpr":
                if idx == 0: return ("other", "called", None)
                callee = inner[0]; cname = self.callee_name(callee)
                params, var = fn_params(callee.get("type", {}).get("qualType", ""))
                if params is None: return ("mutArg", cname, None)
                i = idx - 1
                if i < len(params):
                    pt = self.untypedef(params[i])
                    return ("constArg" if pointee_const(pt) else "mutArg", "%s arg %d (%s)" % (cname, i + 1, pt), None)
                return ("mutArg", "%s variadic arg %d" % (cname, i + 1), None)
            if k == "VarDecl":
                d = self.decls.get(par["id"])
                if d and not d["filescope"] and d["sc"] not in ("static", "extern"): return (None, "", par["id"])
                return ("stored", "initialiser of static " + par.get("name", "?"), None)
            if k == "InitListExpr":
                # find the enclosing VarDecl
                for pp in reversed(parents):
                    if pp.get("kind") == "VarDecl":
                        d = self.decls.get(pp["id"])
                        return ("stored", "initialiser of %s%s" % ("" if d and not d["filescope"] and d["sc"] != "static" else "static ", pp.get("name", "?")), None)
                return ("stored", "initialiser list", None)
            if k == "ReturnStmt": return ("returned", "", None)
            if k in ("IfStmt", "WhileStmt", "DoStmt", "ForStmt", "SwitchStmt"): return ("cmp", "condition", None)
            if k in ("CompoundStmt", "LabelStmt", "CaseStmt", "DefaultStmt"): return ("cmp", "discarded", None)
            if k == "StmtExpr": child = par; continue
            if k == "GCCAsmStmt": return ("other", "asm operand", None)
            return ("other", "pointer used as " + str(k), None)
        if state == "LV_OBJ": return ("other", "unterminated lvalue", None)
        if state == "PTR": return ("other", "unterminated pointer", None)
        return (None, "", None)

    def callee_name(self, n):
        while isinstance(n, dict):
            if n.get("kind") == "DeclRefExpr": return n.get("referencedDecl", {}).get("name", "?")
            if n.get("kind") == "MemberExpr": return "(*" + n.get("name", "?") + ")"
            inner = [c for c in n.get("inner", []) if isinstance(c, dict)]
            if not inner: break
            n = inner[0]
        return "(indirect)"

    def text(self, n):
        k = n.get("kind")
        inner = [c for c in n.get("inner", []) if isinstance(c, dict)]
        if k == "DeclRefExpr": return n.get("referencedDecl", {}).get("name", "?")
        if k == "MemberExpr": return (self.text(inner[0]) if inner else "?") + ("->" if n.get("isArrow") else ".") + n.get("name", "?")
        if k == "ArraySubscriptExpr": return (self.text(inner[0]) if inner else "?") + "[]"
        if k == "UnaryOperator": return (n.get("opcode", "") + (self.text(inner[0]) if inner else "?"))
        if inner: return self.text(inner[0])
        return str(k)

def base_name(name): return re.sub(r"\.\d+$", "", name)

def analyse(build):
    objs, refs, initaddrs, anon = gen_globals.scan2(build)
    lib = os.path.join(build, ".libs", "libmpir.a")
    _, funcs = gen_globals.symbols(lib, gen_globals.sections(lib))
    members = {}                   # member -> set of object keys it references or defines
    for key in objs: members.setdefault(key[0], set()).add(key)
    for (mem, fn, key, kind) in refs: members.setdefault(mem, set()).add(key)
    for (mem, holder, key) in initaddrs: members.setdefault(mem, set()).add(key)
    names_global = {k[1] for k, o in objs.items() if not o["local"]}
    jobs = {}; asm_refs = []      # source path -> (candidate members, local names)
    for mem, keys in sorted(members.items()):
        srcs = member_sources(build, mem)
        if not srcs:
            if all(objs[k]["sect"].startswith(".data.rel.ro") for k in keys): asm_refs.append((mem, sorted(k[1] for k in keys))); continue
            raise RuntimeError("archive member %s references/defines writable static objects %s but has no C source to analyse" % (mem, sorted(k[1] for k in keys)))
        for s in srcs:
            j = jobs.setdefault(s, ([], set()))
            j[0].append(mem); j[1].update(base_name(k[1]) for k in keys if objs[k]["local"] and k[0] == mem)
    def work(item):
        s, (mems, names_local) = item
        uses, defined = TU(build, s, names_global, names_local).run()
        return s, mems, uses, defined
    with ThreadPoolExecutor(max_workers=min(vlib.NPROC, 12)) as ex: res = list(ex.map(work, sorted(jobs.items())))
    # which archive member was compiled from which source: they define the same functions / objects
    uses = []; matched = {}
    for s, mems, us, defined in res:
        for mem in mems:
            names = set(funcs.get(mem, set())) | {k[1] for k in objs if k[0] == mem and not objs[k]["local"]}
            if names & set(defined) or (not names and len(member_sources(build, mem)) == 1): matched.setdefault(mem, []).append(s)
        ms = [m for m in mems if s in matched.get(m, [])]
        for u in us: u["members"] = ms
        uses += [u for u in us if ms]
    for mem in members:
        if member_sources(build, mem) and mem not in matched: raise RuntimeError("no source file defines the functions of archive member %s" % mem)
    # de-duplicate uses that sit in headers (same location seen from several translation units)
    seen = set(); out = []
    for u in uses:
        k = (os.path.basename(u["srcfile"]), u["line"], u["col"], u["obj"], u["kind"], u["func"], u["via"])
        if k in seen:
            for o in out:
                if o["_k"] == k: o["members"] = sorted(set(o["members"]) | set(u["members"]))
            continue
        seen.add(k); u["_k"] = k; out.append(u)
    uses = out
    defmem = {k[1]: k[0] for k, o in objs.items() if not o["local"]}
    for u in uses:
        if u.get("objmember"): continue
        if u["scope"] == "G": u["objmember"] = defmem[u["obj"]]
        else:
            c = [m for m in u["members"] if any(k[0] == m and objs[k]["local"] and base_name(k[1]) == u["obj"] for k in objs)]
            u["objmember"] = c[0] if c else u["members"][0]
    # ---- callees behind pointer-to-const parameters: follow the parameter inside the callee (up to 4 levels)
    fn_members = {}
    for mem, fs in funcs.items():
        for f in fs: fn_members.setdefault(f, []).append(mem)
    def callee_of(u):
        m = re.search(r"(?:^|:)([A-Za-z_]\w*) arg (\d+) \(", u["via"])
        return (m.group(1), int(m.group(2)) - 1) if m else None
    pending = set(); done = set(); external = set()
    def collect(us):
        for u in us:
            if u["kind"] == "constArg":
                c = callee_of(u)
                if c: pending.add((c[0], c[1], (u["scope"], u["obj"], u["objmember"]), u["path"]))
                else: external.add(u["via"])
    collect(uses)
    for depth in range(4):
        todo = {t for t in pending if t[:3] not in done}
        if not todo: break
        by_src = {}
        for (callee, i, o, caller_path) in todo:
            done.add((callee, i, o))
            srcs = [sfile for mem in fn_members.get(callee, []) for sfile in (matched.get(mem) or member_sources(build, mem))]
            if not srcs:
                if callee in fn_members or not caller_path: external.add(callee); continue
                srcs = [caller_path]               # a static function without a symbol of its own (inlined): same translation unit
            for sfile in srcs: by_src.setdefault(sfile, {}).setdefault(callee, {}).setdefault(i, set()).add(o)
        def work2(item):
            sfile, seeds = item
            us, defined = TU(build, sfile, set(), set(), seeds).run()
            found = {f for f in seeds if f in defined}
            return sfile, us, set(seeds) - found
        with ThreadPoolExecutor(max_workers=min(vlib.NPROC, 12)) as ex: res2 = list(ex.map(work2, sorted(by_src.items())))
        new = []
        for sfile, us, notfound in res2:
            external |= notfound
            ms = [m for m, ss in matched.items() if sfile in ss]
            for u in us:
                u["members"] = ms or ["?"]; u["via"] = "param of callee" + (":" + u["via"] if u["via"] else "")
                k = (os.path.basename(u["srcfile"]), u["line"], u["col"], u["obj"], u["kind"], u["func"], u["via"], u["objmember"])
                if k in seen: continue
                seen.add(k); new.append(u)
        uses += new; collect(new)
    analyse.external_callees = sorted(external)
    have = {(m, u["obj"]) for u in uses for m in u["members"]}
    havew = {(m, u["obj"]) for u in uses for m in u["members"] if u["kind"] not in READONLY_KINDS}
    missing = []
    for (mem, fn, key, kind) in refs:
        if not member_sources(build, mem): continue
        b = base_name(key[1]) if objs[key]["local"] else key[1]
        if (mem, b) not in have: missing.append("%s references %s (%s in %s) but the source analysis found no use" % (mem, key[1], kind, fn))
        elif kind == "store" and (mem, b) not in havew: missing.append("%s stores to %s in %s but the source analysis found no write" % (mem, key[1], fn))
    if missing: raise RuntimeError("binary/source mismatch: " + "; ".join(sorted(set(missing))[:6]))
    for u in uses: u.pop("_k", None); u.pop("path", None)
    uses.sort(key=lambda u: (u["obj"], u["objmember"], u["file"], u["line"], u["col"], u["kind"], u["via"]))
    return objs, uses, asm_refs, len(jobs)

DOCUMENTED = {"__gmp_allocate_func": ["__gmp_set_memory_functions"], "__gmp_reallocate_func": ["__gmp_set_memory_functions"], "__gmp_free_func": ["__gmp_set_memory_functions"],
              "__gmp_default_fp_limb_precision": ["__gmpf_set_default_prec"], "__gmp_errno": [], "__gmp_junk": ["__gmp_exception"],
              "__gmp_rands": ["__gmpf_random2", "__gmpn_random", "__gmpn_random2"], "__gmp_rands_initialized": ["__gmpf_random2", "__gmpn_random", "__gmpn_random2"]}

def violations(build, objs_list, uses):
    """what makes escaped_statics_harmless / documented_cells_writers fail on this tree, in words (mirrors the Lean statements)"""
    objs, refs, initaddrs, anon = gen_globals.scan2(build)
    out = []; stores = {}
    for (mem, fn, key, kind) in refs:
        if kind == "store": stores.setdefault(key, set()).add(fn)
    for key, o in sorted(objs.items(), key=lambda x: x[0][1]):
        if key[1] in DOCUMENTED or o["sect"].startswith(".data.rel.ro"): continue
        b = base_name(key[1])
        bad = [u for u in uses if u["obj"] == b and u["objmember"] == key[0] and u["kind"] not in READONLY_KINDS]
        if key in stores or bad:
            out.append("undocumented writable static %s (%s, %s, %d bytes, %s symbol): %s%s" % (
                key[1], key[0], o["sect"], o["size"], "local" if o["local"] else "global",
                ("store instructions in " + ", ".join(sorted(stores[key])) + "; ") if key in stores else "",
                "; ".join("%s at %s:%d in %s%s" % (u["kind"], u["file"], u["line"], u["func"] or "<static initialiser>", (" [" + u["via"] + "]") if u["via"] else "") for u in bad[:6])))
    for c, ws in DOCUMENTED.items():
        binw = {fn for (mem, fn, key, kind) in refs if key[1] == c and kind in ("store", "addr")}
        srcw = {u["func"] for u in uses if u["obj"] == c and u["kind"] not in READONLY_KINDS}
        if binw != set(ws) or srcw != set(ws):
            out.append("documented cell %s: written by %s (binary) / %s (source); the documented setters are %s" % (c, sorted(binw), sorted(srcw), ws))
    return out

def lean_str(s): return '"' + s.replace("\\", "\\\\").replace('"', '\\"') + '"'

def report(objs, uses):
    """per object: uses per category (for the evidence)"""
    rep = {}
    for u in uses:
        r = rep.setdefault("%s (%s)" % (u["obj"], u["objmember"]), {})
        r.setdefault(u["kind"], []).append("%s:%d %s%s" % (u["file"], u["line"], u["func"] or "<static initialiser>", (" [" + u["via"] + "]") if u["via"] else ""))
    return rep

def gen_globaluses(ctx):
    build = ctx.build
    cache = os.path.join(build, ".globaluses.%s.json" % vlib_hash())
    if os.path.exists(cache): objs_l, uses, asm_refs, ntu, ext = json.load(open(cache))
    else:
        objs, uses, asm_refs, ntu = analyse(build)
        objs_l = sorted([k[1], k[0]] for k in objs); ext = analyse.external_callees
        json.dump([objs_l, uses, asm_refs, ntu, ext], open(cache, "w"))
    viol = violations(build, objs_l, uses)
    ctx.globaluses_violations = viol
    for v in viol: print("DETAIL: C15 static scan: " + v[:900])
    ctx.globaluses_report = dict(external_or_unfollowed_callees_behind_const_parameters=ext, translation_units=ntu, uses=len(uses), per_object=report(None, uses), asm_members_with_relro_tables=asm_refs)
    rows = ['  { obj := %s, objFile := %s, file := %s, func := %s, line := %d, kind := %s, via := %s }' % (
        lean_str(u["obj"]), lean_str(u["objmember"]), lean_str(u["file"]), lean_str(u["func"]), u["line"], lean_str(u["kind"]), lean_str(u["via"])) for u in uses]
    txt = ("-- GENERATED by tools/gen_globaluses.py (clang AST of every translation unit that references a writable static object) — do not edit.\n"
           "namespace Mpir.Gen\nstructure GlobalUse where\n  obj : String      -- source name of the object (function-statics without gcc's `.N` suffix)\n  objFile : String  -- archive member that defines it\n"
           "  file : String\n  func : String     -- enclosing function, \"\" for a static initialiser\n  line : Nat\n  kind : String     -- read | write | constArg | mutArg | cmp | sizeof | stored | returned | other\n  via : String\n  deriving Repr, DecidableEq\n\n"
           "/-- every occurrence, in the source of the library, of an object with static storage in a writable section, classified by what\n    happens to the lvalue (local pointer aliases followed inside the function) -/\n"
           "def globalUses : List GlobalUse := [\n" + ",\n".join(rows) + "\n]\n\n"
           "/-- number of translation units parsed -/\ndef globalUsesTUs : Nat := %d\nend Mpir.Gen\n" % ntu)
    p = os.path.join(vlib.LEAN, "Mpir", "Gen", "GlobalUses.lean")
    return [p] if vlib.write_if_changed(p, txt) else []

def vlib_hash():
    import hashlib
    h = hashlib.sha256()
    for f in (__file__, gen_globals.__file__): h.update(open(f, "rb").read())
    return h.hexdigest()[:10]

if __name__ == "__main__":
    objs, uses, asm_refs, ntu = analyse(sys.argv[1])
    print(json.dumps(report(objs, uses), indent=1)); print("TUs", ntu, "asm", asm_refs)
